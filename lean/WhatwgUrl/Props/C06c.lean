import WhatwgUrl.Proofs.SelfResolve
import WhatwgUrl.Proofs.SelfResolveHref
import WhatwgUrl.Props.C06b
import WhatwgUrl.Props.C03c
/-
  C06c — the self-resolution law: "for every parsed URL u and every base, the serialization of u resolves to u itself
  against any base" (default configuration).

  1. `C06c_href_ignores_base` — for every record `u` with `WFs {} u` (the structural invariant of every reachable url,
     C04b) and any two base records: `urlParse {} I b₁ (href u false) = urlParse {} I b₂ (href u false)`; moreover both are
     `parse {} I (href u false)` (`C06c_href_resolves_as_parse`: the base may as well be absent), and the same through
     `parseRef` with a base STRING (`C06c_href_parseRef`).  NO condition on the bytes of the components is needed: the
     prologue (trim, tab / newline removal) may change the rest of the text, but the scheme, the `:` and the `//` that the
     serializer writes when there is a host are visible ASCII (`Proofs/SelfResolveHref.lean`); `WFs` gives a well-formed
     scheme and "special ⇒ host present".  The machine then reaches a base-free state without reading the base
     (`Proofs/SelfResolve.lean`): non-special → path-or-authority / opaque path; special + `//` → special authority ignore
     slashes; and NEW w.r.t. `C06_absolute_ignores_base` (C06b), `file` + `//` → file → file slash → file host.
     `C06c_absolute_ignores_base` is that generalisation (no `≠ file` hypothesis, optional base).
  2. `C06c_self_resolution_record` — `WFs {} u → RTc u → HostStable I u →` for every base record the result is `u` up to the
     ghost fields `verrs`, `qlog` (`Same`, as in `C03_roundtrip_record`); `C06c_self_resolution_fixed`: the result `u'` is
     then reproduced EXACTLY (ghost fields included) by resolving its own serialization against any other base.
  3. `C06c_self_resolution_parse` (+ `_parseRef`, `_noIDN`, `_nonspecial`) — for parse results under `IdnaLaws I`; the host
     hypothesis is exactly that of C03c (`HostStable`; none for non-special urls, bracketed hosts, ASCII domains).
  4. `C06c_self_resolution_resolve`, `_reachPR`, `_reachX`, `_reachX_noIDN` — the same for resolution results and every
     record reachable by parse / resolve / setters (minus the protocol switch to `file`, see C03c).

  Nothing of the task's statements turned out false.  The hypothesis `HostStable` of 2.–4. is the one of the round trip
  (C03b/C03c, finding F6) and is needed already at the record level: `exV6` below is `WFs`, `RTc`, its serialization
  resolves base-independently (1.), but to a record with another host.
-/
namespace WhatwgUrl.Props.C06c
set_option linter.unusedSimpArgs false
set_option linter.unusedVariables false
open WhatwgUrl WhatwgUrl.Impl WhatwgUrl.Proofs.Resolve
open WhatwgUrl.Props.C04b (WFs)
open WhatwgUrl.Props.C04c (WFc)
open WhatwgUrl.Proofs.HostWF (Same IdnaNonEmpty)
open WhatwgUrl.Proofs.RoundTrip (RTc HostStable)
open WhatwgUrl.Proofs.Sim (IdnaLaws)
open WhatwgUrl.Props.C03b (href_of_Same)
open WhatwgUrl.Props.C03c (ReachPR ReachX AsciiDomain DomainStable)
open WhatwgUrl.Props.C06b (schemeAndRest bSc bHttp bFile bOpq)

/-! ### 0. absolute references that do not read the base, `file` included -/

/-- **Absolute references ignore the base** (generalises `C06_absolute_ignores_base`: `file` is allowed, and the base may
    be absent): a reference with a scheme that is not special, or is followed by `//`, is parsed to the same result with
    any base and with none. -/
theorem C06c_absolute_ignores_base (I : Idna) (o₁ o₂ : Option Url) (ref : Bytes) (sch : Bytes) (after : Str)
    (hs : schemeAndRest ref = some (sch, after))
    (hc : ({} : Cfg).isSpecial sch = false ∨ ['/', '/'].isPrefixOf after = true) :
    basicParser {} I ref o₁ none none = basicParser {} I ref o₂ none none := by
  apply basicParser_self_indep
  unfold selfIndep
  unfold schemeAndRest at hs
  rw [hs]
  simpa using hc

/-- … in particular resolving it against a base record is parsing it -/
theorem C06c_absolute_as_parse (I : Idna) (b : Url) (ref : Bytes) (sch : Bytes) (after : Str)
    (hs : schemeAndRest ref = some (sch, after))
    (hc : ({} : Cfg).isSpecial sch = false ∨ ['/', '/'].isPrefixOf after = true) :
    urlParse {} I b ref = parse {} I ref :=
  C06c_absolute_ignores_base I (some b) none ref sch after hs hc

/-! ### 1. the serialization of a well-formed record does not read the base -/

/-- the serialization of a structurally well-formed record has the record's scheme, and `//` after the `:` whenever the
    record has a host — in particular whenever the scheme is special -/
theorem C06c_href_scheme (u : Url) (hw : WFs {} u) :
    ∃ after, schemeAndRest (href u false) = some (u.scheme, after) ∧
      (u.host ≠ none → ['/', '/'].isPrefixOf after = true) ∧
      (({} : Cfg).isSpecial u.scheme = true → ['/', '/'].isPrefixOf after = true) := by
  obtain ⟨e, hp⟩ := WhatwgUrl.Proofs.SelfResolve.href_splitScheme u hw.1
  exact ⟨_, e, hp, fun hsp => hp (hw.2.1 hsp).1⟩

/-- **1.** the serialization of a structurally well-formed record resolves to the same result against any two bases -/
theorem C06c_href_ignores_base (I : Idna) (u : Url) (hw : WFs {} u) (b₁ b₂ : Url) :
    urlParse {} I b₁ (href u false) = urlParse {} I b₂ (href u false) :=
  basicParser_self_indep I _ (WhatwgUrl.Proofs.SelfResolve.href_selfIndep u hw) (some b₁) (some b₂)

/-- … namely to what parsing it without a base gives -/
theorem C06c_href_resolves_as_parse (I : Idna) (u : Url) (hw : WFs {} u) (b : Url) :
    urlParse {} I b (href u false) = parse {} I (href u false) :=
  basicParser_self_indep I _ (WhatwgUrl.Proofs.SelfResolve.href_selfIndep u hw) (some b) none

/-- the same through `ParseRef` with a base STRING that is empty ("no base") or parses -/
theorem C06c_href_parseRef (I : Idna) (u : Url) (hw : WFs {} u) (base : Bytes)
    (hb : base = [] ∨ (parse {} I base).ret = .url) :
    parseRef {} I base (href u false) = parse {} I (href u false) := by
  unfold parseRef
  split
  · rfl
  · rename_i hne
    rcases hb with hb | hb
    · subst hb; simp at hne
    · dsimp only
      rw [hb]
      exact C06c_href_resolves_as_parse I u hw _

/-- a base string that does not parse makes `ParseRef` fail whatever the reference (so the hypothesis above is needed) -/
theorem C06c_parseRef_bad_base (I : Idna) (base ref : Bytes) (hne : base ≠ []) (hb : (parse {} I base).ret ≠ .url) :
    (parseRef {} I base ref).ret ≠ .url := by
  unfold parseRef
  have : base.isEmpty = false := by cases base with | nil => exact absurd rfl hne | cons _ _ => rfl
  rw [this]
  simp only [Bool.false_eq_true, if_false]
  split
  · rename_i h; exact absurd h hb
  · simp
  · rename_i h _; exact h

/-! ### 2. records: the serialization resolves to the record itself -/

/-- the ghost fields aside, `Same` is equality -/
theorem same_clear {u' u : Url} (h : Same u' u) : { u' with verrs := [], qlog := [] } = { u with verrs := [], qlog := [] } := by
  obtain ⟨h1, h2, h3, h4, h5, h6, h7, h8, h9⟩ := h
  cases u'; cases u
  simp_all

/-- transport of a round-trip fact to resolution against a base -/
theorem self_of_roundtrip (I : Idna) (u : Url) (hw : WFs {} u)
    (h : ∃ u', parse {} I (href u false) = ⟨u', .url⟩ ∧ Same u' u) (b : Url) :
    ∃ u', urlParse {} I b (href u false) = ⟨u', .url⟩ ∧ Same u' u ∧ href u' false = href u false := by
  obtain ⟨u', h1, h2⟩ := h
  exact ⟨u', by rw [C06c_href_resolves_as_parse I u hw b, h1], h2, href_of_Same h2 false⟩

/-- the full statement of 2. -/
def C06c_self_resolution_record_Statement : Prop :=
  ∀ (I : Idna) (u : Url), WFs {} u → RTc u → HostStable I u → ∀ b : Url,
    ∃ u', urlParse {} I b (href u false) = ⟨u', .url⟩ ∧ Same u' u ∧ href u' false = href u false

/-- **2. Self-resolution, record form.**  Every well-formed record whose components are in stored form and whose host is
    a fixed point of the host parser (the hypotheses of `C03_roundtrip_record`) is reproduced — up to the ghost fields
    `verrs`, `qlog` — by resolving its serialization against ANY base record. -/
theorem C06c_self_resolution_record (I : Idna) (u : Url) (hw : WFs {} u) (hc : RTc u) (hh : HostStable I u) (b : Url) :
    ∃ u', urlParse {} I b (href u false) = ⟨u', .url⟩ ∧ Same u' u ∧ href u' false = href u false :=
  self_of_roundtrip I u hw (C03b.C03_roundtrip_record I u hw hc hh) b

theorem C06c_self_resolution_record_holds : C06c_self_resolution_record_Statement := C06c_self_resolution_record

/-- the same with the ghost fields cleared on both sides: an equation between records -/
theorem C06c_self_resolution_record_eq (I : Idna) (u : Url) (hw : WFs {} u) (hc : RTc u) (hh : HostStable I u) (b : Url) :
    (urlParse {} I b (href u false)).ret = .url ∧
    { (urlParse {} I b (href u false)).url with verrs := [], qlog := [] } = { u with verrs := [], qlog := [] } ∧
    href (urlParse {} I b (href u false)).url false = href u false := by
  obtain ⟨u', h1, h2, h3⟩ := C06c_self_resolution_record I u hw hc hh b
  rw [h1]
  exact ⟨rfl, same_clear h2, h3⟩

/-- the result is a fixed point, exactly (ghost fields included): resolving ITS serialization against any other base gives
    it back -/
theorem C06c_self_resolution_fixed (I : Idna) (u : Url) (hw : WFs {} u) (hc : RTc u) (hh : HostStable I u) (b : Url) :
    ∃ u', urlParse {} I b (href u false) = ⟨u', .url⟩ ∧ ∀ b' : Url, urlParse {} I b' (href u' false) = ⟨u', .url⟩ := by
  obtain ⟨u', h1, h2, h3⟩ := C06c_self_resolution_record I u hw hc hh b
  refine ⟨u', h1, fun b' => ?_⟩
  rw [h3, C06c_href_ignores_base I u hw b' b, h1]

/-- through `ParseRef` with a base string -/
theorem C06c_self_resolution_record_parseRef (I : Idna) (u : Url) (hw : WFs {} u) (hc : RTc u) (hh : HostStable I u)
    (base : Bytes) (hb : base = [] ∨ (parse {} I base).ret = .url) :
    ∃ u', parseRef {} I base (href u false) = ⟨u', .url⟩ ∧ Same u' u ∧ href u' false = href u false := by
  obtain ⟨u', h1, h2⟩ := C03b.C03_roundtrip_record I u hw hc hh
  exact ⟨u', by rw [C06c_href_parseRef I u hw base hb, h1], h2, href_of_Same h2 false⟩

/-! ### 3. parse results -/

theorem wfs_of_parse (I : Idna) (hI : IdnaLaws I) (input : Bytes) (u : Url) (hp : parse {} I input = ⟨u, .url⟩) : WFs {} u := by
  have hw := C04b.C04_parse_WFs_default I hI.nonempty input none (by intro b h; cases h) (by
    show (parse {} I input).ret = .url
    rw [hp])
  have hu : (basicParser {} I input none none none).url = u := by
    show (parse {} I input).url = u
    rw [hp]
  rw [hu] at hw
  exact hw

/-- **3. Self-resolution for parse results**: the serialization of a parsed url resolves, against any base record, to
    the url itself (up to `verrs`, `qlog`), and the result serializes to the same text.  `HostStable` is the only
    hypothesis, as in `C03_roundtrip_parse`. -/
theorem C06c_self_resolution_parse (I : Idna) (hI : IdnaLaws I) (input : Bytes) (u : Url) (hp : parse {} I input = ⟨u, .url⟩)
    (hh : HostStable I u) (b : Url) :
    ∃ u', urlParse {} I b (href u false) = ⟨u', .url⟩ ∧ Same u' u ∧ href u' false = href u false :=
  self_of_roundtrip I u (wfs_of_parse I hI input u hp) (C03c.C03_roundtrip_parse I hI input u hp hh) b

/-- … and against any base STRING (empty = no base, or one that parses) through `ParseRef` -/
theorem C06c_self_resolution_parseRef (I : Idna) (hI : IdnaLaws I) (input : Bytes) (u : Url) (hp : parse {} I input = ⟨u, .url⟩)
    (hh : HostStable I u) (base : Bytes) (hb : base = [] ∨ (parse {} I base).ret = .url) :
    ∃ u', parseRef {} I base (href u false) = ⟨u', .url⟩ ∧ Same u' u ∧ href u' false = href u false := by
  obtain ⟨u', h1, h2⟩ := C03c.C03_roundtrip_parse I hI input u hp hh
  exact ⟨u', by rw [C06c_href_parseRef I u (wfs_of_parse I hI input u hp) base hb, h1], h2, href_of_Same h2 false⟩

/-- the host hypothesis reduced to the domain of a special url -/
theorem C06c_self_resolution_parse_domain (I : Idna) (hI : IdnaLaws I) (input : Bytes) (u : Url) (hp : parse {} I input = ⟨u, .url⟩)
    (hd : DomainStable I u) (b : Url) :
    ∃ u', urlParse {} I b (href u false) = ⟨u', .url⟩ ∧ Same u' u ∧ href u' false = href u false :=
  self_of_roundtrip I u (wfs_of_parse I hI input u hp) (C03c.C03_roundtrip_parse_domain I hI input u hp hd) b

/-- … discharged for everything but IDN / ACE domains (as `C03_roundtrip_parse_noIDN`) -/
theorem C06c_self_resolution_parse_noIDN (I : Idna) (hI : IdnaLaws I) (input : Bytes) (u : Url) (hp : parse {} I input = ⟨u, .url⟩)
    (hd : Cfg.isSpecial {} u.scheme = true → ∀ h ∈ u.host, h.head? ≠ some 0x5b → AsciiDomain h) (b : Url) :
    ∃ u', urlParse {} I b (href u false) = ⟨u', .url⟩ ∧ Same u' u ∧ href u' false = href u false :=
  self_of_roundtrip I u (wfs_of_parse I hI input u hp) (C03c.C03_roundtrip_parse_noIDN I hI input u hp hd) b

/-- a non-special url needs no hypothesis at all -/
theorem C06c_self_resolution_parse_nonspecial (I : Idna) (hI : IdnaLaws I) (input : Bytes) (u : Url)
    (hp : parse {} I input = ⟨u, .url⟩) (hns : Cfg.isSpecial {} u.scheme = false) (b : Url) :
    ∃ u', urlParse {} I b (href u false) = ⟨u', .url⟩ ∧ Same u' u ∧ href u' false = href u false :=
  self_of_roundtrip I u (wfs_of_parse I hI input u hp) (C03c.C03_roundtrip_parse_nonspecial I hI input u hp hns) b

/-! ### 4. resolution results and reachable records -/

/-- the serialization of a RESOLUTION result resolves to that result against any (other) base -/
theorem C06c_self_resolution_resolve (I : Idna) (hI : IdnaLaws I) (b₀ : Url) (hb : WFs {} b₀ ∧ WFc b₀ ∧ RTc b₀) (ref : Bytes)
    (u : Url) (hp : urlParse {} I b₀ ref = ⟨u, .url⟩) (hh : HostStable I u) (b : Url) :
    ∃ u', urlParse {} I b (href u false) = ⟨u', .url⟩ ∧ Same u' u ∧ href u' false = href u false := by
  have hr : (basicParser {} I ref (some b₀) none none).ret = .url := by
    show (urlParse {} I b₀ ref).ret = .url
    rw [hp]
  have hu : (basicParser {} I ref (some b₀) none none).url = u := by
    show (urlParse {} I b₀ ref).url = u
    rw [hp]
  have h := C03c.C03_parse_invariants I hI ref (some b₀) (by intro b' hb'; cases hb'; exact hb) hr
  rw [hu] at h
  exact self_of_roundtrip I u h.1 (C03c.C03_roundtrip_resolve I hI b₀ hb ref u hp hh) b

/-- every record reachable by parse and resolve -/
theorem C06c_self_resolution_reachPR (I : Idna) (hI : IdnaLaws I) (u : Url) (h : ReachPR I u) (hh : HostStable I u) (b : Url) :
    ∃ u', urlParse {} I b (href u false) = ⟨u', .url⟩ ∧ Same u' u ∧ href u' false = href u false :=
  self_of_roundtrip I u (C03c.C03_reachPR_invariants I hI u h).1 (C03c.C03_roundtrip_reachPR I hI u h hh) b

/-- **4. Self-resolution for reachable records**: any chain of parse / resolve / setter calls (minus the protocol switch
    to `file`, which can leave `file://h/C|` and `file://localhost/`: C03c) -/
theorem C06c_self_resolution_reachX (I : Idna) (hI : IdnaLaws I) (u : Url) (h : ReachX I u) (hh : HostStable I u) (b : Url) :
    ∃ u', urlParse {} I b (href u false) = ⟨u', .url⟩ ∧ Same u' u ∧ href u' false = href u false :=
  self_of_roundtrip I u (C03c.C03_reachX_invariants I hI u h).1 (C03c.C03_roundtrip_reachX I hI u h hh) b

theorem C06c_self_resolution_reachX_noIDN (I : Idna) (hI : IdnaLaws I) (u : Url) (h : ReachX I u)
    (hd : Cfg.isSpecial {} u.scheme = true → ∀ h ∈ u.host, h.head? ≠ some 0x5b → AsciiDomain h) (b : Url) :
    ∃ u', urlParse {} I b (href u false) = ⟨u', .url⟩ ∧ Same u' u ∧ href u' false = href u false :=
  self_of_roundtrip I u (C03c.C03_reachX_invariants I hI u h).1 (C03c.C03_roundtrip_reachX_noIDN I hI u h hd) b

/-- base-independence alone needs neither `HostStable` nor the oracle laws beyond `IdnaNonEmpty`: for every reachable
    record (setters and the protocol switch included: `C04b.Reach`) the serialization resolves as it parses -/
theorem C06c_reachable_ignores_base (I : Idna) (hI : IdnaNonEmpty I) (u : Url) (hr : C04b.Reach {} I u) (b : Url) :
    urlParse {} I b (href u false) = parse {} I (href u false) :=
  C06c_href_resolves_as_parse I u (C04b.C04_reachable_WFs_default I hI u hr) b

/-! ### 5. non-vacuity: concrete urls of every kind against concrete bases of every kind -/

set_option maxRecDepth 100000

/-- identity oracle (as in C06b) and the lower-casing oracle of `Proofs/SimHost.lean`, which satisfies the laws -/
private abbrev I0 := WhatwgUrl.Props.C06b.I0
private abbrev J0 := WhatwgUrl.Proofs.Sim.I0
private theorem hJ0 : IdnaLaws J0 := WhatwgUrl.Proofs.Sim.I0_laws

/-- a file base with a drive letter (the file slash state would inherit it — it is never reached with `//`) -/
def bDrive : Url := (parse {} I0 (lit "file:///C:/x")).url

/-- special -/
def uHttp : Url := (parse {} I0 (lit "http://u:pw@[::1]:8/a/b?q#f")).url
/-- `file` with a host -/
def uFileH : Url := (parse {} I0 (lit "file://[::1]/x?q")).url
/-- `file` without a host -/
def uFile0 : Url := (parse {} I0 (lit "file:///d/e#f")).url
/-- non-special with an authority -/
def uSc : Url := (parse {} I0 (lit "sc://u:pw@h:8/p/r?q#f")).url
/-- non-special with an empty host -/
def uScE : Url := (parse {} I0 (lit "sc:///p")).url
/-- opaque path -/
def uOpq : Url := (parse {} I0 (lit "mailto:a@b c?q#f")).url
/-- path only -/
def uPath : Url := (parse {} I0 (lit "sc:/p")).url
/-- path only, first segment empty: the serializer writes the `/.` guard -/
def uDot : Url := (parse {} I0 (lit "sc:/.//p")).url

example : href uHttp false = lit "http://u:pw@[::1]:8/a/b?q#f" ∧ href uFileH false = lit "file://[::1]/x?q" ∧
    href uFile0 false = lit "file:///d/e#f" ∧ href uSc false = lit "sc://u:pw@h:8/p/r?q#f" ∧ href uScE false = lit "sc:///p" ∧
    href uOpq false = lit "mailto:a@b c?q#f" ∧ href uPath false = lit "sc:/p" ∧ href uDot false = lit "sc:/.//p" ∧
    href bDrive false = lit "file:///C:/x" := by decide +kernel

-- the hypotheses of 1. and 2. hold for each of them
example : WFs {} uHttp ∧ RTc uHttp ∧ HostStable I0 uHttp := by decide +kernel
example : WFs {} uFileH ∧ RTc uFileH ∧ HostStable I0 uFileH := by decide +kernel
example : WFs {} uFile0 ∧ RTc uFile0 ∧ HostStable I0 uFile0 := by decide +kernel
example : WFs {} uSc ∧ RTc uSc ∧ HostStable I0 uSc := by decide +kernel
example : WFs {} uScE ∧ RTc uScE ∧ HostStable I0 uScE := by decide +kernel
example : WFs {} uOpq ∧ RTc uOpq ∧ HostStable I0 uOpq := by decide +kernel
example : WFs {} uPath ∧ RTc uPath ∧ HostStable I0 uPath := by decide +kernel
example : WFs {} uDot ∧ RTc uDot ∧ HostStable I0 uDot := by decide +kernel

-- 0. the scheme and what follows it, for the new (`file`) case; `file` without `//` does read the base (C06b)
example : schemeAndRest (lit "FILE://[::1]/x") = some (lit "file", ['/', '/', '[', ':', ':', '1', ']', '/', 'x']) ∧
    ({} : Cfg).isSpecial (lit "file") = true := by decide +kernel
example : basicParser {} I0 (lit "FILE://[::1]/x") (some bFile) none none = basicParser {} I0 (lit "FILE://[::1]/x") none none none :=
  C06c_absolute_ignores_base I0 _ _ _ (lit "file") ['/', '/', '[', ':', ':', '1', ']', '/', 'x'] (by decide +kernel)
    (Or.inr (by decide))

-- the conclusion of 2., evaluated: every url against every base, ghost fields included
example : ∀ b ∈ [bSc, bHttp, bFile, bOpq, bDrive], urlParse {} I0 b (href uHttp false) = ⟨uHttp, .url⟩ := by decide +kernel
example : ∀ b ∈ [bSc, bHttp, bFile, bOpq, bDrive], urlParse {} I0 b (href uFileH false) = ⟨uFileH, .url⟩ := by decide +kernel
example : ∀ b ∈ [bSc, bHttp, bFile, bOpq, bDrive], urlParse {} I0 b (href uFile0 false) = ⟨uFile0, .url⟩ := by decide +kernel
example : ∀ b ∈ [bSc, bHttp, bFile, bOpq, bDrive], urlParse {} I0 b (href uSc false) = ⟨uSc, .url⟩ := by decide +kernel
example : ∀ b ∈ [bSc, bHttp, bFile, bOpq, bDrive], urlParse {} I0 b (href uScE false) = ⟨uScE, .url⟩ := by decide +kernel
example : ∀ b ∈ [bSc, bHttp, bFile, bOpq, bDrive], urlParse {} I0 b (href uOpq false) = ⟨uOpq, .url⟩ := by decide +kernel
example : ∀ b ∈ [bSc, bHttp, bFile, bOpq, bDrive], urlParse {} I0 b (href uPath false) = ⟨uPath, .url⟩ := by decide +kernel
/-- the `/.` guard: `sc:/.//p` does not become `sc://p` (host `p`), against any base -/
example : ∀ b ∈ [bSc, bHttp, bFile, bOpq, bDrive], urlParse {} I0 b (href uDot false) = ⟨uDot, .url⟩ := by decide +kernel
example : uDot.host = none ∧ uDot.path = ⟨[[], lit "p"], false⟩ := by decide +kernel
/-- an opaque-path base accepts nothing relative (C06b) — but a serialization is never relative -/
example : (urlParse {} I0 bOpq (lit "/p")).ret = .err ⟨.MissingSchemeNonRelativeURL, true⟩ false ∧
    urlParse {} I0 bOpq (href uPath false) = ⟨uPath, .url⟩ := by decide +kernel
/-- the base matters for the same text without its scheme, so the law is not a triviality -/
example : href (urlParse {} I0 bSc (lit "/p")).url false = lit "sc://u:pw@h:8/p" ∧
    href (urlParse {} I0 bFile (lit "/p")).url false = lit "file:///p" ∧
    href (urlParse {} I0 bDrive (lit "/p")).url false = lit "file:///C:/p" := by decide +kernel

-- through the theorems
example : ∃ u', urlParse {} I0 bOpq (href uFile0 false) = ⟨u', .url⟩ ∧ Same u' uFile0 ∧ href u' false = href uFile0 false :=
  C06c_self_resolution_record I0 uFile0 (by decide +kernel) (by decide +kernel) (by decide +kernel) bOpq
example : urlParse {} I0 bDrive (href uDot false) = urlParse {} I0 bOpq (href uDot false) :=
  C06c_href_ignores_base I0 uDot (by decide +kernel) _ _

-- 1. for `parseRef`: base strings
example : (parse {} I0 (lit "sc:opaque?q#f")).ret = .url ∧ (parse {} I0 (lit "file:///C:/x")).ret = .url := by decide +kernel
example : parseRef {} I0 (lit "sc:opaque?q#f") (href uFileH false) = ⟨uFileH, .url⟩ ∧
    parseRef {} I0 [] (href uFileH false) = ⟨uFileH, .url⟩ := by decide +kernel
example : lit "http://" ≠ [] ∧ (parse {} I0 (lit "http://")).ret ≠ .url ∧
    (parseRef {} I0 (lit "http://") (href uFileH false)).ret ≠ .url := by decide +kernel

-- 3. parse results under an oracle that satisfies the laws
private def iP : Bytes := lit "  FILE://[0::1]/C|/../x y?q "
private def pP : Res := parse {} J0 iP
example : pP.ret = .url ∧ href pP.url false = lit "file://[::1]/C:/x%20y?q" ∧ parse {} J0 iP = ⟨pP.url, .url⟩ ∧
    HostStable J0 pP.url := by decide +kernel
example : ∃ u', urlParse {} J0 bDrive (href pP.url false) = ⟨u', .url⟩ ∧ Same u' pP.url ∧ href u' false = href pP.url false :=
  C06c_self_resolution_parse J0 hJ0 iP pP.url (by decide +kernel) (by decide +kernel) bDrive
example : ∃ u', parseRef {} J0 (lit "sc:opaque") (href pP.url false) = ⟨u', .url⟩ ∧ Same u' pP.url ∧
    href u' false = href pP.url false :=
  C06c_self_resolution_parseRef J0 hJ0 iP pP.url (by decide +kernel) (by decide +kernel) _ (Or.inr (by decide +kernel))
private def iN : Bytes := lit "sc://u:p@H%41!:8/a\\b"
example : parse {} J0 iN = ⟨(parse {} J0 iN).url, .url⟩ ∧ Cfg.isSpecial {} (parse {} J0 iN).url.scheme = false := by decide +kernel
example : ∃ u', urlParse {} J0 bHttp (href (parse {} J0 iN).url false) = ⟨u', .url⟩ ∧ Same u' (parse {} J0 iN).url ∧
    href u' false = href (parse {} J0 iN).url false :=
  C06c_self_resolution_parse_nonspecial J0 hJ0 iN _ (by decide +kernel) (by decide +kernel) bHttp
example : ∃ u', urlParse {} J0 bHttp (href pP.url false) = ⟨u', .url⟩ ∧ Same u' pP.url ∧ href u' false = href pP.url false :=
  C06c_self_resolution_parse_noIDN J0 hJ0 iP pP.url (by decide +kernel) (by decide +kernel) bHttp

-- 4. a resolution result, and a chain parse → resolve → setter
private def rR : Res := urlParse {} J0 bDrive (lit "..\\y z")
example : WFs {} bDrive ∧ WFc bDrive ∧ RTc bDrive := by decide +kernel
example : urlParse {} J0 bDrive (lit "..\\y z") = ⟨rR.url, .url⟩ ∧ href rR.url false = lit "file:///C:/y%20z" ∧
    HostStable J0 rR.url := by decide +kernel
example : ∃ u', urlParse {} J0 bOpq (href rR.url false) = ⟨u', .url⟩ ∧ Same u' rR.url ∧ href u' false = href rR.url false :=
  C06c_self_resolution_resolve J0 hJ0 bDrive (by decide +kernel) (lit "..\\y z") rR.url (by decide +kernel) (by decide +kernel) bOpq
private def chain : Url :=
  (setU {} J0 .hash (urlParse {} J0 (parse {} J0 (lit "ws://[::1]/a/b")).url (lit "../c d")).url (lit "#f g")).url
example : href chain false = lit "ws://[::1]/c%20d#f%20g" := by decide +kernel
private theorem chain_reach : ReachX J0 chain :=
  .set _ _ _ (.resolve _ _ (.parse _ (by decide +kernel)) (by decide +kernel)) (by decide +kernel)
example : ∃ u', urlParse {} J0 bFile (href chain false) = ⟨u', .url⟩ ∧ Same u' chain ∧ href u' false = href chain false :=
  C06c_self_resolution_reachX_noIDN J0 hJ0 chain chain_reach (by decide +kernel) bFile
example : urlParse {} J0 bFile (href chain false) = ⟨chain, .url⟩ := by decide +kernel
example : HostStable J0 chain ∧ DomainStable J0 pP.url := by decide +kernel
example : ∃ u', urlParse {} J0 bOpq (href chain false) = ⟨u', .url⟩ ∧ Same u' chain ∧ href u' false = href chain false :=
  C06c_self_resolution_reachX J0 hJ0 chain chain_reach (by decide +kernel) bOpq
example : ∃ u', urlParse {} J0 bOpq (href pP.url false) = ⟨u', .url⟩ ∧ Same u' pP.url ∧ href u' false = href pP.url false :=
  C06c_self_resolution_parse_domain J0 hJ0 iP pP.url (by decide +kernel) (by decide +kernel) bOpq
private def prU : Url := (urlParse {} J0 (parse {} J0 (lit "ws://[::1]/a/b")).url (lit "../c d")).url
private theorem prU_reach : ReachPR J0 prU := .resolve _ _ (.parse _ (by decide +kernel)) (by decide +kernel)
example : ∃ u', urlParse {} J0 bDrive (href prU false) = ⟨u', .url⟩ ∧ Same u' prU ∧ href u' false = href prU false :=
  C06c_self_resolution_reachPR J0 hJ0 prU prU_reach (by decide +kernel) bDrive
-- the record forms
example : ∃ u', urlParse {} I0 bHttp (href uOpq false) = ⟨u', .url⟩ ∧ ∀ b' : Url, urlParse {} I0 b' (href u' false) = ⟨u', .url⟩ :=
  C06c_self_resolution_fixed I0 uOpq (by decide +kernel) (by decide +kernel) (by decide +kernel) bHttp
example : ∃ u', parseRef {} I0 (lit "file:///C:/x") (href uScE false) = ⟨u', .url⟩ ∧ Same u' uScE ∧ href u' false = href uScE false :=
  C06c_self_resolution_record_parseRef I0 uScE (by decide +kernel) (by decide +kernel) (by decide +kernel) _
    (Or.inr (by decide +kernel))
/-- the protocol switch to `file` (excluded from `ReachX`) leaves `file://[::1]/C|`: its serialization still resolves
    base-independently (1.), namely — like its parse — to the record with the normalised drive letter -/
private def swU : Url := (setU {} J0 .protocol (parse {} J0 (lit "http://[::1]/C|")).url (lit "file")).url
private theorem swU_reach : C04b.Reach {} J0 swU := .set _ _ _ (.parse _ (by decide +kernel))
example : href swU false = lit "file://[::1]/C|" ∧ href (parse {} J0 (href swU false)).url false = lit "file://[::1]/C:" := by
  decide +kernel
example : urlParse {} J0 bDrive (href swU false) = parse {} J0 (href swU false) :=
  C06c_reachable_ignores_base J0 hJ0.nonempty swU swU_reach bDrive

/-! ### `HostStable` is needed in 2.: a record that satisfies everything else and resolves to ANOTHER record -/

/-- an IPv6 literal that is not in canonical form (no parse produces it: `C03_parse_V6`) -/
def exV6 : Url := { scheme := lit "http", host := some (lit "[0::1]"), path := ⟨[[]], false⟩ }
example : WFs {} exV6 ∧ RTc exV6 ∧ ¬ HostStable I0 exV6 := by decide +kernel

/-- the statement of 2. without the host hypothesis … -/
def C06c_self_resolution_noHost_Statement : Prop :=
  ∀ (I : Idna) (u : Url), WFs {} u → RTc u → ∀ b : Url,
    ∃ u', urlParse {} I b (href u false) = ⟨u', .url⟩ ∧ Same u' u

/-- … is false: `http://[0::1]/` resolves (against any base, by 1.) to the record with host `[::1]` -/
theorem C06c_self_resolution_noHost_false : ¬ C06c_self_resolution_noHost_Statement := by
  intro h
  obtain ⟨u', h1, h2⟩ := h I0 exV6 (by decide +kernel) (by decide +kernel) bSc
  have e : (urlParse {} I0 bSc (href exV6 false)).url.host = some (lit "[::1]") := by decide +kernel
  rw [h1] at e
  have e' : u'.host = some (lit "[::1]") := e
  rw [← h2.2.2.2.1] at e'
  revert e'
  decide +kernel

end WhatwgUrl.Props.C06c

section AxiomCheck
open WhatwgUrl.Props.C06c
#print axioms C06c_absolute_ignores_base
#print axioms C06c_absolute_as_parse
#print axioms C06c_href_scheme
#print axioms C06c_href_ignores_base
#print axioms C06c_href_resolves_as_parse
#print axioms C06c_href_parseRef
#print axioms C06c_parseRef_bad_base
#print axioms C06c_self_resolution_record
#print axioms C06c_self_resolution_record_holds
#print axioms C06c_self_resolution_record_eq
#print axioms C06c_self_resolution_fixed
#print axioms C06c_self_resolution_record_parseRef
#print axioms C06c_self_resolution_parse
#print axioms C06c_self_resolution_parseRef
#print axioms C06c_self_resolution_parse_domain
#print axioms C06c_self_resolution_parse_noIDN
#print axioms C06c_self_resolution_parse_nonspecial
#print axioms C06c_self_resolution_resolve
#print axioms C06c_self_resolution_reachPR
#print axioms C06c_self_resolution_reachX
#print axioms C06c_self_resolution_reachX_noIDN
#print axioms C06c_reachable_ignores_base
#print axioms C06c_self_resolution_noHost_false
end AxiomCheck
