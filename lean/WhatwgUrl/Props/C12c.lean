import WhatwgUrl.Proofs.SyncInvOps
import WhatwgUrl.Props.C12
import WhatwgUrl.Props.C12b
/-
  C12c — C12 at history level: "a url and its list describe the same query" as ONE inductive invariant (`Sync`), proved
  for every heap reachable by ANY history of API calls (any interleaving of setter calls, list mutations, lazy creation,
  `Clone`, `Parse`, the canonicalizer, …, with arbitrary arguments and handles), in which `SetSearchParams(i, s)` is
  only called with the url's OWN list (`OwnList`).  With a foreign list the Go method does not change the list's back
  pointer, so the pointer structure — and with it C12 — is lost: `C12c_foreign_list_breaks` is the kernel-checked witness
  that this restriction of the histories cannot be dropped.

  The invariant (`Proofs/SyncInv.lean`):
    `Linked H` : (1) a url's list exists and points back at the url; (2) EVERY list has an owner, and it is the owner's
                 current list.  (2) is STRONGER than the suggested form (there it was conditional on the back pointer
                 being set): no operation creates a list without owner, neither `canonicalize` nor
                 `newUrlSearchParams` after `SetSearch` (lists are only ever allocated for a url that has none).
    `SyncAt H i`: for url i with list s: the list is the urlencoded parse of the query text (state after `SetSearch` /
                 lazy creation) OR the query text is the list's serialization (state after a mutation).
  No hypothesis on configurations, oracles, inputs or return values is needed: the panic sites 30/31 of `SetSearch`
  and the dangling-handle branch, in which the query would be rewritten without the list, are excluded by `Linked` and
  by `setSearchU_query_isSome`; an inner parser call that fails or panics (site 20) still leaves query and list related.

  Exceptions found (stated in the theorems):
  * `update()`: "an empty serialization does not create a query" — after a mutation whose result serializes to the
    empty string, a query that was `none` stays `none` (`Query()` is the empty string either way, so the text-level
    statement `queryG = spString …` has no exception); see `C12c_after_mutation` (the `o'.u = …` conjunct).
  * after `SetSearch` the second disjunct (query text = serialization of the list) does in general NOT hold
    (`?a=1&&b` parses to two pairs that serialize to `a=1&b=`), which is why `SyncAt` is a disjunction.
-/
namespace WhatwgUrl.Props.C12c
open WhatwgUrl WhatwgUrl.Impl WhatwgUrl.Proofs WhatwgUrl.Proofs.SyncInv
open WhatwgUrl.Proofs.HeapInv (HReachC)

/-- the histories of the property: any API call with any arguments; `SetSearchParams` only with the url's own list -/
abbrev Reach : Heap → Prop := HReachC (fun _ => True) OwnList

/-! ### 1. every operation preserves `Sync` -/

theorem C12c_sync_step_empty : Sync {} := sync_empty

/-- all nine setters, `search` included, for every handle, value and outcome of the inner parser call -/
theorem C12c_sync_step_set (I : Idna) (H : Heap) (i : Nat) (st : Setter) (v : Bytes) (h : Sync H) :
    Sync (H.set I i st v).1 := set_sync I i st v h

theorem C12c_sync_step_searchParams (H : Heap) (i : Nat) (h : Sync H) : Sync (H.searchParams i).1 :=
  searchParams_sync i h

/-- every mutation of every list handle -/
theorem C12c_sync_step_spMutate (H : Heap) (s : Nat) (m : Heap.SpMut) (h : Sync H) : Sync (H.spMutate s m) :=
  spMutate_sync s m h

theorem C12c_sync_step_clone (H : Heap) (i : Nat) (h : Sync H) : Sync (H.clone i).1 := clone_sync i h

theorem C12c_sync_step_urlParse (I : Idna) (H : Heap) (i : Nat) (ref : Bytes) (h : Sync H) :
    Sync (H.urlParse I i ref).1 := urlParse_sync I i ref h

theorem C12c_sync_step_allocRes (H : Heap) (cfg : Cfg) (r : Res) (h : Sync H) : Sync (H.allocRes cfg r).1 :=
  allocRes_sync cfg r h

theorem C12c_sync_step_parse (cfg : Cfg) (I : Idna) (H : Heap) (raw : Bytes) (h : Sync H) :
    Sync (H.allocRes cfg (Impl.parse cfg I raw)).1 := allocRes_sync _ _ h

theorem C12c_sync_step_parseRef (cfg : Cfg) (I : Idna) (H : Heap) (raw ref : Bytes) (h : Sync H) :
    Sync (H.allocRes cfg (Impl.parseRef cfg I raw ref)).1 := allocRes_sync _ _ h

/-- `SetSearchParams(i, s)` with the url's own list -/
theorem C12c_sync_step_setSearchParams (H : Heap) (i s : Nat) (hV : OwnList H i s) (h : Sync H) :
    Sync (H.setSearchParams i s) := setSearchParams_sync i s hV h

theorem C12c_sync_step_canonicalize (I : Idna) (p : Profile) (H : Heap) (i : Nat) (h : Sync H) :
    Sync (canonicalize I p H i).1 := canonicalize_sync I p i h

theorem C12c_sync_step_canonParse (I : Idna) (p : Profile) (H : Heap) (raw : Bytes) (h : Sync H) :
    Sync (canonParse I p H raw).1 := canonParse_sync I p raw h

theorem C12c_sync_step_canonParseRef (I : Idna) (p : Profile) (H : Heap) (raw ref : Bytes) (h : Sync H) :
    Sync (canonParseRef I p H raw ref).1 := canonParseRef_sync I p raw ref h

/-! ### 2. all histories -/

theorem C12c_reachable_sync {H : Heap} (h : Reach H) : Sync H := reach_sync h

/-- the invariant spelled out for one url and its list, on every reachable heap -/
theorem C12c_reachable_pair {H : Heap} (h : Reach H) (i s : Nat) (o : UrlObj) (ho : H.urls[i]? = some o)
    (hs : o.sp = some s) :
    ∃ so, H.sps[s]? = some so ∧ so.url = some i ∧
      (so.params = spInit o.cfg (queryG o.u) ∨ queryG o.u = spString o.cfg so.params) := by
  have hS := reach_sync h
  obtain ⟨so, hso, hown⟩ := hS.1.1 i o s ho hs
  exact ⟨so, hso, hown, hS.2 i o s so ho hs hso⟩

/-- a list handle designates the current list of exactly one url, on every reachable heap (no sharing, no orphans) -/
theorem C12c_reachable_owner {H : Heap} (h : Reach H) (s : Nat) (so : SpObj) (hso : H.sps[s]? = some so) :
    ∃ j o, so.url = some j ∧ H.urls[j]? = some o ∧ o.sp = some s ∧
      ∀ k ok, H.urls[k]? = some ok → ok.sp = some s → k = j := by
  have hS := reach_sync h
  obtain ⟨j, o, hj, ho, hs⟩ := hS.1.2 s so hso
  exact ⟨j, o, hj, ho, hs, fun k ok hok hks => hS.1.inj ho hok hs hks⟩


/-- the pointer half of the invariant in the form suggested for it (both directions), on every reachable heap -/
theorem C12c_reachable_linked {H : Heap} (h : Reach H) :
    (∀ (i : Nat) (o : UrlObj) (s : Nat), H.urls[i]? = some o → o.sp = some s →
      ∃ so : SpObj, H.sps[s]? = some so ∧ so.url = some i) ∧
    (∀ (s : Nat) (so : SpObj) (j : Nat), H.sps[s]? = some so → so.url = some j →
      ∃ o : UrlObj, H.urls[j]? = some o ∧ o.sp = some s) ∧
    (∀ (s : Nat) (so : SpObj), H.sps[s]? = some so → so.url ≠ none) := by
  have hS := reach_sync h
  refine ⟨hS.1.1, fun s so j hso hj => hS.1.back hso hj, fun s so hso hn => ?_⟩
  obtain ⟨j, _, hj, _⟩ := hS.1.2 s so hso
  rw [hn] at hj; cases hj

/-! ### 3. the property in its own words, for every reachable heap `H`, every url `i` and its list `s` -/

/-- (a) after ANY mutation through the handle `s`: the url's Query (and Search, and with the record equation the
    serialization) is the new list's serialization — exactly the second disjunct.  The record equation states the
    `update()` exception: an empty serialization does not turn a `none` query into `some []`. -/
theorem C12c_after_mutation {H : Heap} (h : Reach H) (i s : Nat) (o : UrlObj) (ho : H.urls[i]? = some o)
    (hs : o.sp = some s) (m : Heap.SpMut) :
    ∃ so o' so', H.sps[s]? = some so ∧ (H.spMutate s m).urls[i]? = some o' ∧ (H.spMutate s m).sps[s]? = some so' ∧
      so'.params = Heap.applyMut m so.params ∧ so'.url = some i ∧ o'.sp = some s ∧ o'.cfg = o.cfg ∧
      queryG o'.u = spString o.cfg so'.params ∧
      search o'.u = (if spString o.cfg so'.params = [] then [] else 0x3f :: spString o.cfg so'.params) ∧
      o'.u = { o.u with query :=
        (if (spString o.cfg so'.params = [] ∧ o.u.query = none) then none else some (spString o.cfg so'.params)) } := by
  have hS := reach_sync h
  obtain ⟨so, hso, hown⟩ := hS.1.1 i o s ho hs
  obtain ⟨o', so', ho', hso', hp, hsp, hq, hsr⟩ := C12.C12_write_through H i s m o so ho hs hso hown
  have h1 : (H.setSp s fun o => { o with params := Heap.applyMut m o.params }).sps[s]? =
      some { so with params := Heap.applyMut m so.params } := by
    rw [Heap.setSp_sps_self, hso]; rfl
  have h2 : (H.setSp s fun o => { o with params := Heap.applyMut m o.params }).urls[i]? = some o := by
    rw [Heap.setSp_urls]; exact ho
  have hex := spUpdate_owner_exact _ s i _ o h1 hown h2
  have hso1 : so' = { so with params := Heap.applyMut m so.params } := by
    have : (H.spMutate s m).sps[s]? = some { so with params := Heap.applyMut m so.params } := by
      show ((H.setSp s fun o => { o with params := Heap.applyMut m o.params }).spUpdate s).sps[s]? = _
      rw [Heap.spUpdate_sps]; exact h1
    rw [hso'] at this; cases this; rfl
  have ho1 : (H.spMutate s m).urls[i]? = some { o with u := { o.u with query :=
      (if (spString o.cfg (Heap.applyMut m so.params) = [] ∧ o.u.query = none) then none
        else some (spString o.cfg (Heap.applyMut m so.params))) } } := hex
  rw [ho'] at ho1
  cases ho1
  subst hso1
  exact ⟨so, _, _, hso, ho', hso', rfl, hown, hs, rfl, hq, hsr, rfl⟩

/-- (b) after the search setter on url `i` (any value, any outcome of the inner parser call, no panic hypothesis):
    the SAME list object `s` — a handle obtained before the call stays valid — holds the urlencoded parse of the new
    query; it is empty when the new query is `none`, which is the case when the value is empty. -/
theorem C12c_after_setSearch {H : Heap} (h : Reach H) (I : Idna) (i s : Nat) (o : UrlObj) (ho : H.urls[i]? = some o)
    (hs : o.sp = some s) (v : Bytes) :
    ∃ so o' so', H.sps[s]? = some so ∧ (H.set I i .search v).1.urls[i]? = some o' ∧
      (H.set I i .search v).1.sps[s]? = some so' ∧ so'.url = some i ∧ o'.sp = some s ∧ o'.cfg = o.cfg ∧
      o'.u = (setSearchU o.cfg I o.u v).url ∧
      so'.params = spInit o.cfg (queryG o'.u) ∧
      (o'.u.query = none → so'.params = []) ∧
      (v = [] → o'.u.query = none ∧ so'.params = []) ∧
      (v ≠ [] → ∃ q, o'.u.query = some q ∧ so'.params = spInit o.cfg q) := by
  have hS := reach_sync h
  obtain ⟨so, hso, hown⟩ := hS.1.1 i o s ho hs
  have heq : (H.set I i .search v).1 = _ := setSearch_fst_of_list I H i s v o so ho hs hso hown
  refine ⟨so, { o with u := (setSearchU o.cfg I o.u v).url },
    { so with params := spInit o.cfg ((setSearchU o.cfg I o.u v).url.query.getD []) }, hso, ?_, ?_, hown, hs, rfl, rfl, rfl,
    ?_, ?_, ?_⟩
  · rw [heq, Heap.setSp_urls, Heap.setValue_urls_self, ho]; rfl
  · rw [heq, Heap.setSp_sps_self, Heap.setValue_sps, hso]; rfl
  · intro hq
    show spInit o.cfg ((setSearchU o.cfg I o.u v).url.query.getD []) = []
    have hq' : (setSearchU o.cfg I o.u v).url.query = none := hq
    rw [hq']; exact spInit_nil _
  · intro hv; subst hv
    have hq' : (setSearchU o.cfg I o.u []).url.query = none := setSearchU_nil_query _ _ _
    refine ⟨hq', ?_⟩
    show spInit o.cfg ((setSearchU o.cfg I o.u []).url.query.getD []) = []
    rw [hq']; exact spInit_nil _
  · intro hv
    have hve : v.isEmpty = false := by cases v <;> simp_all
    have hq := HeapInvQuery.setSearchU_query_isSome o.cfg I o.u v hve
    obtain ⟨q, hqq⟩ : ∃ q, (setSearchU o.cfg I o.u v).url.query = some q := by
      cases hqq : (setSearchU o.cfg I o.u v).url.query with
      | none => rw [hqq] at hq; cases hq
      | some q => exact ⟨q, rfl⟩
    refine ⟨q, hqq, ?_⟩
    show spInit o.cfg ((setSearchU o.cfg I o.u v).url.query.getD []) = _
    rw [hqq]; rfl

/-- (c) after any other setter on url `i` (any value, any outcome): list `s` and all other lists are unchanged, the url
    keeps its list, and the query is unchanged -/
theorem C12c_after_other_setter {H : Heap} (h : Reach H) (I : Idna) (i s : Nat) (o : UrlObj) (ho : H.urls[i]? = some o)
    (hs : o.sp = some s) (st : Setter) (v : Bytes) (hst : st ≠ .search) :
    ∃ so o', H.sps[s]? = some so ∧ (H.set I i st v).1.sps = H.sps ∧ (H.set I i st v).1.sps[s]? = some so ∧
      (H.set I i st v).1.urls[i]? = some o' ∧ o'.sp = some s ∧ o'.u.query = o.u.query := by
  have hS := reach_sync h
  obtain ⟨so, hso, _⟩ := hS.1.1 i o s ho hs
  obtain ⟨h1, h2⟩ := C12b.C12_frame_heap_query I H i st v hst
  obtain ⟨o', ho', hsp, hq⟩ := h2 o ho
  exact ⟨so, o', hso, h1, by rw [h1]; exact hso, ho', hsp.trans hs, hq⟩

/-- and all of this again after the call: the next operation of the history finds the same situation
    (this is what "under any interleaving" means operationally) -/
theorem C12c_reach_closed {H : Heap} (h : Reach H) :
    (∀ I i st v, Reach (H.set I i st v).1) ∧ (∀ s m, Reach (H.spMutate s m)) ∧ (∀ i, Reach (H.searchParams i).1) ∧
    (∀ i, Reach (H.clone i).1) :=
  ⟨fun I i st v => .set I i st v h, fun s m => .spMutate s m h, fun i => .searchParams i h, fun i => .clone i h⟩

/-! ### 4. non-vacuity: a concrete history -/

set_option maxRecDepth 100000

/-- an IDNA oracle (not consulted: the scheme `sc` is not special) -/
def exI : Idna := fun b => (b, false)

/-- `u0 := Parse("sc://h/p")`; `l0 := u0.SearchParams()`; `l0.Append("a","1")`; `u1 := u0.Clone()` (with its list `l1`);
    `l1.Append("b","2")`; `u0.SetSearch("?x=1")` -/
def exHist : Heap :=
  ((((((({} : Heap).allocRes {} (Impl.parse {} exI (lit "sc://h/p"))).1.searchParams 0).1.spMutate 0
    (.append (lit "a") (lit "1"))).clone 0).1.spMutate 1 (.append (lit "b") (lit "2"))).set exI 0 .search (lit "?x=1")).1

theorem exHist_reach : Reach exHist :=
  .set _ _ _ _ (.spMutate _ _ (.clone _ (.spMutate _ _ (.searchParams _ (.parse _ _ _ trivial .empty)))))

theorem exHist_sync : Sync exHist := C12c_reachable_sync exHist_reach

/-- what the heap looks like: two urls with their own lists, queries `x=1` and `a=1&b=2` -/
theorem exHist_shape :
    (exHist.urls.map fun o => (o.sp, o.u.query)) = [(some 0, some (lit "x=1")), (some 1, some (lit "a=1&b=2"))] ∧
    (exHist.sps.map (·.url)) = [some 0, some 1] ∧
    ((exHist.sps[1]?).map (·.params)) = some [(lit "a", lit "1"), (lit "b", lit "2")] := by decide +kernel

theorem handle_of_bind {H : Heap} {i s : Nat} (h : (H.urls[i]?).bind (·.sp) = some s) :
    ∃ o, H.urls[i]? = some o ∧ o.sp = some s := by
  cases ho : H.urls[i]? with
  | none => rw [ho] at h; cases h
  | some o => rw [ho] at h; exact ⟨o, rfl, h⟩

/-- the hypotheses of the corollaries hold for both urls of `exHist` -/
theorem exHist_handle0 : ∃ o, exHist.urls[0]? = some o ∧ o.sp = some 0 := handle_of_bind (by decide +kernel)
theorem exHist_handle1 : ∃ o, exHist.urls[1]? = some o ∧ o.sp = some 1 := handle_of_bind (by decide +kernel)
/-- and so does the hypothesis `OwnList` of the `SetSearchParams` step -/
example : OwnList exHist 1 1 := exHist_handle1
example : Reach (exHist.setSearchParams 1 1) := .setSearchParams 1 1 exHist_handle1 exHist_reach

-- the instances of the corollaries
example (m : Heap.SpMut) : True := by
  obtain ⟨o, ho, hs⟩ := exHist_handle1
  have := C12c_after_mutation exHist_reach 1 1 o ho hs m
  trivial
example (v : Bytes) : True := by
  obtain ⟨o, ho, hs⟩ := exHist_handle0
  have := C12c_after_setSearch exHist_reach exI 0 0 o ho hs v
  trivial
example : True := by
  obtain ⟨o, ho, hs⟩ := exHist_handle1
  have := C12c_after_other_setter exHist_reach exI 1 1 o ho hs .hash (lit "f") (by decide)
  trivial

/-- (a) evaluated: `l1.Delete("a")` — Query, Search and href of `u1` follow the list, `u0` is not touched -/
example :
    (((exHist.spMutate 1 (.delete (lit "a"))).urls[1]?).map fun o => (queryG o.u, search o.u, href o.u false)) =
      some (lit "b=2", lit "?b=2", lit "sc://h/p?b=2") ∧
    (((exHist.spMutate 1 (.delete (lit "a"))).sps[1]?).map (·.params)) = some [(lit "b", lit "2")] ∧
    (((exHist.spMutate 1 (.delete (lit "a"))).urls[0]?).map fun o => queryG o.u) = some (lit "x=1") := by decide +kernel

/-- (a), the `update()` rule with an existing query: deleting everything leaves the query `some []` -/
example :
    ((((exHist.spMutate 1 (.delete (lit "a"))).spMutate 1 (.delete (lit "b"))).urls[1]?).map fun o => (o.u.query, search o.u)) =
      some (some [], []) := by decide +kernel

/-- (a), the `update()` exception: on a url without query (`sc://h/p`) a mutation with empty serialization
    (sorting the empty list) leaves the query `none` -/
example :
    ((((((({} : Heap).allocRes {} (Impl.parse {} exI (lit "sc://h/p"))).1.searchParams 0).1.spMutate 0 .sort).urls[0]?).map
      fun o => (o.u.query, o.sp)) = some (none, some 0)) := by decide +kernel

/-- (b) evaluated on `u1` with the handle `1` obtained before: new query `y=3`, the list is the SAME object … -/
theorem exHist_setSearch :
    (((exHist.set exI 1 .search (lit "?y=3")).1.urls[1]?).map fun o => (o.u.query, o.sp)) = some (some (lit "y=3"), some 1) ∧
    (((exHist.set exI 1 .search (lit "?y=3")).1.sps[1]?).map (·.url)) = some (some 1) := by decide +kernel

/-- `decodePercent` is compiled by well-founded recursion, so `spInit` is evaluated by `simp`, not by `decide` -/
theorem ex_spInit_y3 (cfg : Cfg) : spInit cfg (lit "y=3") = [(lit "y", lit "3")] := by
  have h1 : lit "y=3" = [0x79, 0x3d, 0x33] := by decide
  have h2 : lit "y" = [0x79] := by decide
  have h3 : lit "3" = [0x33] := by decide
  rw [h1, h2, h3]
  simp [spInit, splitOn, splitFirst, replaceByte, decodePercent]

/-- … and it holds the parse of the new query: `[(y,3)]` (through corollary (b)) -/
theorem exHist_setSearch_list :
    (((exHist.set exI 1 .search (lit "?y=3")).1.sps[1]?).map (·.params)) = some [(lit "y", lit "3")] := by
  obtain ⟨o, ho, hs⟩ := exHist_handle1
  obtain ⟨so, o', so', _, ho', hso', _, _, hcfg, _, hp, _⟩ := C12c_after_setSearch exHist_reach exI 1 1 o ho hs (lit "?y=3")
  have hq : (((exHist.set exI 1 .search (lit "?y=3")).1.urls[1]?).map fun o => queryG o.u) = some (lit "y=3") := by
    decide +kernel
  rw [ho'] at hq
  rw [hso']
  simp only [Option.map_some, Option.some.injEq] at hq ⊢
  rw [hp, hq]
  exact ex_spInit_y3 _

/-- (b) with the empty value: query `none`, the list (same handle) is empty -/
example :
    (((exHist.set exI 1 .search []).1.urls[1]?).map fun o => (o.u.query, o.sp)) = some (none, some 1) ∧
    (((exHist.set exI 1 .search []).1.sps[1]?).map fun so => (so.url, so.params)) = some (some 1, []) := by decide +kernel

/-- (c) evaluated: the hash setter on `u1` -/
example :
    (((exHist.set exI 1 .hash (lit "f")).1.urls[1]?).map fun o => (o.u.query, o.u.fragment, o.sp)) =
      some (some (lit "a=1&b=2"), some (lit "f"), some 1) ∧
    (((exHist.set exI 1 .hash (lit "f")).1.sps[1]?).map (·.params)) = some [(lit "a", lit "1"), (lit "b", lit "2")] := by
  decide +kernel

/-! ### 5. the restriction on `SetSearchParams` cannot be dropped -/

/-- `u0.SetSearchParams(l1)` with the list of ANOTHER url: the list keeps pointing at `u1` (the Go method does not
    change the back pointer), so url 0 and "its" list are not linked and `update()` of that list writes to url 1 —
    `Sync` fails on a heap that is reachable when foreign lists are allowed -/
theorem C12c_foreign_list_breaks :
    HReachC (fun _ => True) (fun _ _ _ => True) (exHist.setSearchParams 0 1) ∧ ¬ Sync (exHist.setSearchParams 0 1) := by
  refine ⟨.setSearchParams 0 1 trivial (exHist_reach.mono (fun _ h => h) (fun _ _ _ _ => trivial)), ?_⟩
  intro hS
  obtain ⟨o, ho, hs⟩ := handle_of_bind (H := exHist.setSearchParams 0 1) (i := 0) (s := 1) (by decide +kernel)
  obtain ⟨so, hso, hown⟩ := hS.1.1 0 o 1 ho hs
  have h1 : (((exHist.setSearchParams 0 1).sps[1]?).map (·.url)) = some (some 1) := by decide +kernel
  rw [hso] at h1
  simp only [Option.map_some, Option.some.injEq] at h1
  rw [hown] at h1
  cases h1

/-- the observable consequence: afterwards url 0 shows `x=1` while the list it hands out serializes to `a=1&b=2` -/
example :
    (((exHist.setSearchParams 0 1).urls[0]?).map fun o => (queryG o.u, o.sp)) = some (lit "x=1", some 1) ∧
    (((exHist.setSearchParams 0 1).sps[1]?).map fun so => spString {} so.params) = some (lit "a=1&b=2") := by decide +kernel


/-! ### 6. why `SyncAt` is a disjunction -/

theorem ex_spInit_amp (cfg : Cfg) : spInit cfg (lit "a&&b") = [(lit "a", []), (lit "b", [])] := by
  have h1 : lit "a&&b" = [0x61, 0x26, 0x26, 0x62] := by decide
  have h2 : lit "a" = [0x61] := by decide
  have h3 : lit "b" = [0x62] := by decide
  rw [h1, h2, h3]
  simp [spInit, splitOn, splitFirst, replaceByte, decodePercent]

/-- after `SetSearch("?a&&b")` the list is the parse `[(a,""),(b,"")]` of the query `a&&b`, but its serialization is
    `a=&b=`: the state after a search setter call satisfies the first disjunct only -/
theorem C12c_second_disjunct_fails : lit "a&&b" ≠ spString {} (spInit {} (lit "a&&b")) := by
  rw [ex_spInit_amp]; decide +kernel

example : (((exHist.set exI 1 .search (lit "?a&&b")).1.urls[1]?).map fun o => queryG o.u) = some (lit "a&&b") := by
  decide +kernel

end WhatwgUrl.Props.C12c

section AxiomCheck
open WhatwgUrl.Props.C12c
#print axioms C12c_sync_step_empty
#print axioms C12c_sync_step_set
#print axioms C12c_sync_step_searchParams
#print axioms C12c_sync_step_spMutate
#print axioms C12c_sync_step_clone
#print axioms C12c_sync_step_urlParse
#print axioms C12c_sync_step_allocRes
#print axioms C12c_sync_step_parse
#print axioms C12c_sync_step_parseRef
#print axioms C12c_sync_step_setSearchParams
#print axioms C12c_sync_step_canonicalize
#print axioms C12c_sync_step_canonParse
#print axioms C12c_sync_step_canonParseRef
#print axioms C12c_reachable_sync
#print axioms C12c_reachable_pair
#print axioms C12c_reachable_owner
#print axioms C12c_reachable_linked
#print axioms C12c_after_mutation
#print axioms C12c_after_setSearch
#print axioms C12c_after_other_setter
#print axioms C12c_reach_closed
#print axioms exHist_reach
#print axioms exHist_sync
#print axioms exHist_shape
#print axioms exHist_setSearch
#print axioms exHist_setSearch_list
#print axioms C12c_foreign_list_breaks
#print axioms C12c_second_disjunct_fails
end AxiomCheck
