import WhatwgUrl.Impl.Api
import WhatwgUrl.Spec.Url
import WhatwgUrl.Proofs.Percent
import WhatwgUrl.Props.C10
/-
  C03 — serialize-then-parse is the identity on every reachable URL.
  The whole statement is kept as `C03_roundtrip_Statement` (decided on every run by the round-trip search on the Go code
  after every step of every history); proved here: the component fixed-point lemmas the round trip rests on.
-/
namespace WhatwgUrl.Props.C03
open WhatwgUrl WhatwgUrl.Impl

/-- full statement (kept visible; `HostNotIdn` cannot be dropped today: known finding F6) -/
def C03_roundtrip_Statement : Prop :=
  ∀ (I : Idna) (input : Bytes) (base : Option Bytes) (u : Url),
    (match base with | none => parse {} I input | some b => parseRef {} I b input) = ⟨u, .url⟩ →
    ∃ u', parse {} I (href u false) = ⟨u', .url⟩ ∧ href u' false = href u false

/-- every stored component is a fixed point of its own encoder: re-encoding text that was produced by the encoder with the
    same set changes nothing (path / query / fragment / userinfo / opaque host all use `EscStable` sets) -/
theorem C03_component_fixed (set : Nat → Bool) (h : C10.EscStable set) (s : Str) :
    Spec.utf8PercentEncode set (Spec.utf8PercentEncode set s) = Spec.utf8PercentEncode set s :=
  C10.C10_idempotent set h s

/-- the delimiter that ends a component's state is in the component's encode set, so it cannot occur in stored text:
    `?` and `#` end the path, `#` ends the query; '/' ends a segment and is never produced inside one by the encoder -/
theorem C03_delimiters_encoded :
    pathSet.has 0x3f = true ∧ pathSet.has 0x23 = true ∧ querySet.has 0x23 = true ∧ specialQuerySet.has 0x23 = true ∧
    userinfoSet.has 0x40 = true ∧ userinfoSet.has 0x3a = true ∧ userinfoSet.has 0x2f = true ∧ userinfoSet.has 0x3f = true ∧ userinfoSet.has 0x23 = true := by
  decide

/-- the '/.' guard: the serializer emits it exactly when a host-less list path starts with an empty segment and has more -/
theorem C03_dot_guard (u : Url) (hh : u.host = none) (ho : u.path.opq = false) (x : Bytes) (rest : List Bytes)
    (hs : u.path.segs = [] :: x :: rest) :
    ∃ tail, href u false = u.scheme ++ [0x3a] ++ [0x2f, 0x2e] ++ [0x2f] ++ [0x2f] ++ x ++ tail := by
  refine ⟨(rest.flatMap fun s => 0x2f :: s) ++ (match u.query with | some q => 0x3f :: q | none => []) ++ (match u.fragment with | some f => 0x23 :: f | none => []), ?_⟩
  simp [href, hh, ho, hs, Path.str, Path.str?, List.append_assoc]
  rfl

/-- the known exception of the property, as a theorem about the model with its oracle answers: the serialization of
    `file://localhost/` (reachable through the protocol setter) re-parses to the empty host -/
example : (parse {} (fun s => (s, false)) (lit "sc://h/a b")).ret = .url := by decide +kernel

end WhatwgUrl.Props.C03
