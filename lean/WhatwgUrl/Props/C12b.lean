import WhatwgUrl.Proofs.Frame
import WhatwgUrl.Proofs.OpaqueSlash
import WhatwgUrl.Props.C12
/-
  C12b — frame properties of the setters: "after any setter other than the search setter, the query is unchanged"
  (and the analogue for the fragment and the hash setter).

  The parser-level frame lemmas (`basicParser_query`, `basicParser_fragment`: a run on a given url under a state override
  whose start state lies in the closed set `qSt` / `fSt` never writes the component) live in `Proofs/Frame.lean`.
  They hold for EVERY configuration, oracle, input and base: no hypothesis besides the start state.
-/
namespace WhatwgUrl.Props.C12b
open WhatwgUrl WhatwgUrl.Impl WhatwgUrl.Proofs WhatwgUrl.Proofs.Frame

/-! ### parser level -/

/-- frame lemma of the parser: under the overrides used by the setters other than `search`, the query is not written -/
theorem C12_parser_frame_query (cfg : Cfg) (I : Idna) (v : Bytes) (u : Url) (ov : State)
    (hov : ov = .schemeStart ∨ ov = .host ∨ ov = .hostname ∨ ov = .port ∨ ov = .pathStart ∨ ov = .fragment) :
    (basicParser cfg I v none (some u) (some ov)).url.query = u.query :=
  basicParser_query cfg I v none u ov (by rcases hov with h | h | h | h | h | h <;> subst h <;> rfl)

/-- the same for every start state of the closed set `qSt` and any base -/
theorem C12_parser_frame_query_gen (cfg : Cfg) (I : Idna) (v : Bytes) (base : Option Url) (u : Url) (ov : State)
    (hov : qSt ov = true) : (basicParser cfg I v base (some u) (some ov)).url.query = u.query :=
  basicParser_query cfg I v base u ov hov

/-- frame lemma of the parser for the fragment: under the overrides used by the setters other than `hash` -/
theorem C12_parser_frame_fragment (cfg : Cfg) (I : Idna) (v : Bytes) (u : Url) (ov : State)
    (hov : ov = .schemeStart ∨ ov = .host ∨ ov = .hostname ∨ ov = .port ∨ ov = .pathStart ∨ ov = .query) :
    (basicParser cfg I v none (some u) (some ov)).url.fragment = u.fragment :=
  basicParser_fragment cfg I v none u ov (by rcases hov with h | h | h | h | h | h <;> subst h <;> rfl)

theorem C12_parser_frame_fragment_gen (cfg : Cfg) (I : Idna) (v : Bytes) (base : Option Url) (u : Url) (ov : State)
    (hov : fSt ov = true) : (basicParser cfg I v base (some u) (some ov)).url.fragment = u.fragment :=
  basicParser_fragment cfg I v base u ov hov

/-! ### setter level -/

/-- after any setter other than the search setter, the query is unchanged (whatever the setter returned) -/
theorem C12_setter_frame_query (cfg : Cfg) (I : Idna) (s : Setter) (u : Url) (v : Bytes) (hs : s ≠ .search) :
    (setU cfg I s u v).url.query = u.query := by
  cases s with
  | search => exact absurd rfl hs
  | protocol => exact basicParser_query _ _ _ _ _ _ rfl
  | username => simp only [setU, setUsername, keep]; split <;> rfl
  | password => simp only [setU, setPassword, keep]; split <;> rfl
  | host => simp only [setU, setHost, keep]; split; rfl; exact basicParser_query _ _ _ _ _ _ rfl
  | hostname => simp only [setU, setHostname, keep]; split; rfl; exact basicParser_query _ _ _ _ _ _ rfl
  | port =>
    simp only [setU, setPort, keep]
    split
    · rfl
    · split
      · rfl
      · exact basicParser_query _ _ _ _ _ _ rfl
  | pathname =>
    simp only [setU, setPathname, keep]
    split
    · rfl
    · exact basicParser_query cfg I v none { u with path := Path.init } .pathStart rfl
  | hash =>
    simp only [setU, setHash, keep]
    split
    · split
      · split <;> rfl
      · rfl
    · exact basicParser_query cfg I _ none { u with fragment := some [] } .fragment rfl

/-- after any setter other than the hash setter, the fragment is unchanged -/
theorem C12_setter_frame_fragment (cfg : Cfg) (I : Idna) (s : Setter) (u : Url) (v : Bytes) (hs : s ≠ .hash) :
    (setU cfg I s u v).url.fragment = u.fragment := by
  cases s with
  | hash => exact absurd rfl hs
  | protocol => exact basicParser_fragment _ _ _ _ _ _ rfl
  | username => simp only [setU, setUsername, keep]; split <;> rfl
  | password => simp only [setU, setPassword, keep]; split <;> rfl
  | host => simp only [setU, setHost, keep]; split; rfl; exact basicParser_fragment _ _ _ _ _ _ rfl
  | hostname => simp only [setU, setHostname, keep]; split; rfl; exact basicParser_fragment _ _ _ _ _ _ rfl
  | port =>
    simp only [setU, setPort, keep]
    split
    · rfl
    · split
      · rfl
      · exact basicParser_fragment _ _ _ _ _ _ rfl
  | pathname =>
    simp only [setU, setPathname, keep]
    split
    · rfl
    · exact basicParser_fragment cfg I v none { u with path := Path.init } .pathStart rfl
  | search =>
    simp only [setU, setSearchU, keep]
    split
    · split
      · split <;> rfl
      · rfl
    · rw [basicParser_fragment cfg I _ none _ .query rfl]
      split <;> rfl

/-- the path: the setters for protocol / username / password / host / hostname / port never touch it (pathname
    replaces it; search and hash with an empty value strip trailing spaces of an opaque path) -/
theorem C12_setter_frame_path (cfg : Cfg) (I : Idna) (s : Setter) (u : Url) (v : Bytes)
    (hs : s ≠ .pathname ∧ s ≠ .search ∧ s ≠ .hash) : (setU cfg I s u v).url.path = u.path := by
  obtain ⟨h1, h2, h3⟩ := hs
  cases s with
  | pathname => exact absurd rfl h1
  | search => exact absurd rfl h2
  | hash => exact absurd rfl h3
  | protocol => exact OpaqueSlash.basicParser_path _ _ _ _ _ _ rfl
  | username => simp only [setU, setUsername, keep]; split <;> rfl
  | password => simp only [setU, setPassword, keep]; split <;> rfl
  | host => simp only [setU, setHost, keep]; split; rfl; exact OpaqueSlash.basicParser_path _ _ _ _ _ _ rfl
  | hostname => simp only [setU, setHostname, keep]; split; rfl; exact OpaqueSlash.basicParser_path _ _ _ _ _ _ rfl
  | port =>
    simp only [setU, setPort, keep]
    split
    · rfl
    · split
      · rfl
      · exact OpaqueSlash.basicParser_path _ _ _ _ _ _ rfl

/-- search / hash with a non-empty value leave the path alone too -/
theorem C12_setter_frame_path_qf (cfg : Cfg) (I : Idna) (s : Setter) (u : Url) (v : Bytes)
    (hs : s = .search ∨ s = .hash) (hv : v ≠ []) : (setU cfg I s u v).url.path = u.path := by
  have hve : v.isEmpty = false := by cases v <;> simp_all
  rcases hs with rfl | rfl
  · simp only [setU, setSearchU, hve, Bool.false_eq_true, if_false]
    rw [OpaqueSlash.basicParser_path cfg I _ none _ .query rfl]
    split <;> rfl
  · simp only [setU, setHash, hve, Bool.false_eq_true, if_false]
    exact OpaqueSlash.basicParser_path cfg I _ none { u with fragment := some [] } .fragment rfl

/-! ### heap level: with `C12_frame_list` -/

/-- the other eight setters leave the list AND the query alone: together with `InSync` before, the pair stays in sync -/
theorem C12_frame_heap_query (I : Idna) (H : Heap) (i : Nat) (st : Setter) (v : Bytes) (hst : st ≠ .search) :
    (H.set I i st v).1.sps = H.sps ∧
      ∀ o, H.urls[i]? = some o → ∃ o', (H.set I i st v).1.urls[i]? = some o' ∧ o'.sp = o.sp ∧ o'.u.query = o.u.query := by
  obtain ⟨h1, h2⟩ := C12.C12_frame_list I H i st v hst
  refine ⟨h1, fun o ho => ?_⟩
  obtain ⟨o', ho', hsp, hu⟩ := h2 o ho
  exact ⟨o', ho', hsp, by rw [hu]; exact C12_setter_frame_query _ _ _ _ _ hst⟩

/-! ### non-vacuity -/

/-- `sc://h/p?a=1#f` (non-special scheme: the host parser's opaque branch evaluates under `decide`) -/
def exU : Url := { scheme := lit "sc", host := some (lit "h"), path := ⟨[lit "p"], false⟩, query := some (lit "a=1"),
                   fragment := some (lit "f") }
def exI : Idna := fun b => (b, false)

-- the hypotheses are satisfiable
example : Setter.hash ≠ Setter.search := by decide
example : Setter.search ≠ Setter.hash := by decide
example : Setter.host ≠ .pathname ∧ Setter.host ≠ .search ∧ Setter.host ≠ .hash := by decide
example : (setU {} exI .host exU (lit "g/zzz")).url.host = some (lit "g") ∧
    (setU {} exI .host exU (lit "g/zzz")).url.path = ⟨[lit "p"], false⟩ := by decide +kernel
-- the excluded case of the path frame: the hash setter with an empty value strips trailing spaces of an opaque path
example : (setU {} exI .hash { scheme := lit "sc", path := ⟨[lit "x  "], true⟩, fragment := some (lit "f") } []).url.path =
    ⟨[lit "x"], true⟩ := by decide +kernel
example : State.pathStart = .schemeStart ∨ State.pathStart = .host ∨ State.pathStart = .hostname ∨ State.pathStart = .port ∨
    State.pathStart = .pathStart ∨ State.pathStart = .fragment := by decide

-- the setters really do something on this url, and keep the query (here the values contain `?` and `#`)
example : (setU {} exI .pathname exU (lit "/x?y#z")).url.path = ⟨[lit "x%3Fy%23z"], false⟩ ∧
    (setU {} exI .pathname exU (lit "/x?y#z")).url.query = some (lit "a=1") := by decide +kernel
example : (setU {} exI .host exU (lit "g:81/?q")).url.host = some (lit "g") ∧
    (setU {} exI .host exU (lit "g:81/?q")).url.port = some (lit "81") ∧
    (setU {} exI .host exU (lit "g:81/?q")).url.query = some (lit "a=1") := by decide +kernel
example : (setU {} exI .hash exU (lit "#n?w")).url.fragment = some (lit "n?w") ∧
    (setU {} exI .hash exU (lit "#n?w")).url.query = some (lit "a=1") := by decide +kernel
example : (setU {} exI .protocol exU (lit "tc")).url.scheme = lit "tc" ∧
    (setU {} exI .protocol exU (lit "tc")).url.query = some (lit "a=1") := by decide +kernel
-- the excluded setters do change the component: the side conditions cannot be dropped
example : (setU {} exI .search exU (lit "?b=2")).url.query = some (lit "b=2") ∧
    (setU {} exI .search exU (lit "?b=2")).url.fragment = some (lit "f") := by decide +kernel
example : (setU {} exI .hash exU []).url.fragment = none := by decide +kernel
-- a start state outside the closed set `qSt` does write the query (the search setter's override)
example : (basicParser {} exI (lit "zz") none (some exU) (some .query)).url.query = some (lit "zz") := by decide +kernel

end WhatwgUrl.Props.C12b

section AxiomCheck
open WhatwgUrl.Props.C12b
#print axioms C12_parser_frame_query
#print axioms C12_parser_frame_query_gen
#print axioms C12_parser_frame_fragment
#print axioms C12_parser_frame_fragment_gen
#print axioms C12_setter_frame_query
#print axioms C12_setter_frame_fragment
#print axioms C12_setter_frame_path
#print axioms C12_setter_frame_path_qf
#print axioms C12_frame_heap_query
end AxiomCheck
