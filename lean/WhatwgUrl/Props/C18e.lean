import WhatwgUrl.Proofs.WebQuery
import WhatwgUrl.Proofs.WebHost6
import WhatwgUrl.Props.C18d
/-
  C18e — the canonicalization theorem for the REAL GoogleSafeBrowsing and Semantic profiles.

  `Props/C18d.lean` proves "two spellings of the same ordinary web url canonicalize to the same text" for every profile with
  repeated percent-decoding and DEFAULT parser options.  The predefined profiles `canonicalizer.GoogleSafeBrowsing` and
  `canonicalizer.Semantic` (`Impl/Profiles.lean`: `gsbProfile`, `semanticProfile`) have other parser options: lax host parsing,
  collapse consecutive slashes, accept invalid code points, percent-encode single percent sign, lax query / path sets, a Latin-1
  encoding override, a pre-parse-host closure, skip-equals, allow-non-base path, a special-scheme table with `gopher`.

  1. `WebCfg cfg` (`Proofs/WebDefs.lean`): five Boolean tests on the fields of a configuration.  `WebParseCfg` (what Half B
     needs): the path / special-query / special-fragment sets contain none of `A-Z a-z 0-9 - . _ ~ %` (the query set: nor `&`,
     `=`), the (unshadowed) entries of the special-scheme table with a default port have lower-case scheme texts other than
     `file` as keys; `WebCfg` in addition (needed for the canonicalizer's query list only): an encoding override decodes the
     bytes `A-Z a-z 0-9 - . _ ~ %` to themselves.  It holds for `{}`, `gsbCfg`, `semanticCfg`.
     EVERYTHING ELSE is unconstrained: report / fail on validation errors, lax host, hooks, percent-encode-single-percent,
     collapse, accept-invalid, allow-non-base-path, skip drive letter / trailing slash / equals, the non-special sets.
     Each clause is NEEDED (section "the limits": evaluated counterexamples for the three sets, `C18e_parse_render_needs_schemes`
     for the table (its `file` part), `C18e_capstone_needs_charmap` for the charmap).
  2. `C18e_parse_render` (Half B): under such a configuration `scheme://host/seg…?n=v…#frag` parses to the host parser's
     failure or to the record with exactly these segments, this query and this fragment (`webResC`; the host parser — which IS
     different under lax host parsing / hooks — enters only through its result on the host text).
     `WebText` admits no empty segment (every segment spells a NON-EMPTY plain text), so collapsing has nothing to do and the
     path is stated as the list itself; the underlying `Proofs/WebParse.lean: parse_web_c` allows an empty LAST segment
     (hypothesis "no empty non-final segment").  `s ≠ "file"` follows from `dp ≠ []` by the `schemes` clause of `WebCfg` (the
     scheme state goes to the file state for `file` whatever the table says, so a table that gives `file` a port is excluded).
  3. `C18e_spellings_same_canonical` (generic: `WebCfg p.cfg`, `HooksOk p.cfg`), `C18e_gsb`, `C18e_semantic` (no hypothesis
     about the configuration left: `hooksOk_gsb`, `hooksOk_semantic` — both closures ignore the record).
  4. the ASCII letter case of the host (`C18e_host_case`, `C18e_host_case_partial`, `C18e_spellings_same_canonical_hostcase`,
     `C18e_gsb_hostcase`, `C18e_semantic_hostcase`): the outcome of the host parser is the same for two host texts that differ in
     letter case only, PROVIDED what the host parser gets to see after the hook (`preIn`) is empty, or ASCII starting with `[`
     (IPv6: `Proofs/WebHost6.lean: parseIPv6_lower`, no law needed), or not bracketed, without `%`, pure ASCII without an
     `xn--` label start (law L1).  Without the proviso the statement is FALSE under the oracle laws `IdnaLaws`
     (`C18e_host_case_Statement_false`: the laws say nothing about ACE labels).
  Helper files: `Proofs/Web{Defs,Steps,Reach,Parse,Query,Host,Host6}.lean` (route (a) of the task: the run lemmas of
  `Proofs/RoundTrip*.lean` / `Proofs/Spelling*.lean` re-proved for an arbitrary configuration, with what they need from it as
  explicit hypotheses).
-/
namespace WhatwgUrl.Props.C18e
open WhatwgUrl WhatwgUrl.Impl WhatwgUrl.Proofs.Pipeline WhatwgUrl.Proofs.Web
open WhatwgUrl.Props.C17b (canonText)
open WhatwgUrl.Props.C18 (Spelled nest esc1)
open WhatwgUrl.Props.C18d (render WebText SameWeb OptRel canonOut canonText_canonParse canonOut_congr spelled_refl)
open WhatwgUrl.Proofs.RoundTrip (pathText qTail fTail setQ setF)
open WhatwgUrl.Proofs.Spelling (hostText hostFail)
open WhatwgUrl.Proofs.Sim (I0)

export WhatwgUrl.Proofs.Web (WebParseCfg WebCfg webResC)

/-! ### 1. the configurations -/

/-- the default configuration, and the parser options of the two predefined profiles, are web configurations -/
theorem C18e_webCfg_default : WebCfg {} := webCfg_default
theorem C18e_webCfg_gsb : WebCfg gsbCfg := webCfg_gsb
theorem C18e_webCfg_semantic : WebCfg semanticCfg := webCfg_semantic

/-- the hooks of the two profiles ignore the record -/
theorem hooksOk_gsb : HooksOk gsbCfg :=
  ⟨fun f hf a b h _ => (by cases hf; rfl), fun f hf => (by cases hf)⟩
theorem hooksOk_semantic : HooksOk semanticCfg :=
  ⟨fun f hf a b h _ => (by cases hf; rfl), fun f hf => (by cases hf)⟩

/-! ### 2. Half B -/

theorem wt_segC {segs : List Bytes} {q : Option (List (Bytes × Bytes))} {f : Option Bytes} (h : WebText segs q f) :
    ∀ x ∈ segs, SegC x := fun x hx => by obtain ⟨p, hp⟩ := h.hsegs x hx; exact seg_segC hp

theorem wt_nonempty {segs : List Bytes} {q : Option (List (Bytes × Bytes))} {f : Option Bytes} (h : WebText segs q f) :
    ∀ x ∈ segs, x ≠ [] := fun x hx => by obtain ⟨p, hp⟩ := h.hsegs x hx; exact tok_ne_nil hp.1

theorem wt_tokPairs {segs : List Bytes} {q : Option (List (Bytes × Bytes))} {f : Option Bytes} (h : WebText segs q f) :
    ∀ l, q = some l → TokPairs l := fun l hl => h.hquery l hl

theorem wt_qOkC {segs : List Bytes} {q : Option (List (Bytes × Bytes))} {f : Option Bytes} (h : WebText segs q f) :
    QOkC (q.map qText) := by
  cases q with
  | none => intro x hx; cases hx
  | some l =>
    intro x hx b hb
    cases hx
    exact qText_qB l (tokPairs_sp (wt_tokPairs h l rfl)) b hb

theorem wt_fOkC {segs : List Bytes} {q : Option (List (Bytes × Bytes))} {f : Option Bytes} (h : WebText segs q f) :
    FOkC f := by
  intro x hx
  obtain ⟨p, hp⟩ := h.hfrag x hx
  exact tok_spB hp

theorem wt_tailPct {segs : List Bytes} {q : Option (List (Bytes × Bytes))} {f : Option Bytes} (h : WebText segs q f) :
    TailPct segs (q.map qText) f :=
  tailPct_of segs q f (fun x hx => by obtain ⟨p, hp⟩ := h.hsegs x hx; exact tok_pctOk hp.1) (wt_tokPairs h)
    (fun x hx => by obtain ⟨p, hp⟩ := h.hfrag x hx; exact tok_pctOk hp)

/-- **Half B, one input** under a configuration with `WebCfg`: the parse result is the host parser's failure, or the record with
    exactly these segments, this query text and this fragment -/
theorem C18e_parse_render (cfg : Cfg) (hW : WebCfg cfg) (I : Idna) (s dp a : Bytes) (hsd : cfg.special? s = some dp) (hdp : dp ≠ [])
    (ha : hostText a = true)
    (segs : List Bytes) (q : Option (List (Bytes × Bytes))) (f : Option Bytes) (hw : WebText segs q f) :
    parse cfg I (render (s ++ lit "://" ++ a) segs q f) = webResC cfg I s a segs (q.map qText) f :=
  parse_web_c cfg hW.toWebParseCfg I s dp a hsd hdp ha segs (wt_segC hw) hw.hne
    (fun x hx => wt_nonempty hw x (List.dropLast_subset segs hx)) (q.map qText) f (wt_qOkC hw) (wt_fOkC hw) (wt_tailPct hw)

/-- … for which the charmap clause of `WebCfg` is not needed (`WebParseCfg`: the four clauses about the sets and the table) -/
theorem C18e_parse_render' (cfg : Cfg) (hW : WebParseCfg cfg) (I : Idna) (s dp a : Bytes) (hsd : cfg.special? s = some dp)
    (hdp : dp ≠ []) (ha : hostText a = true)
    (segs : List Bytes) (q : Option (List (Bytes × Bytes))) (f : Option Bytes) (hw : WebText segs q f) :
    parse cfg I (render (s ++ lit "://" ++ a) segs q f) = webResC cfg I s a segs (q.map qText) f :=
  parse_web_c cfg hW I s dp a hsd hdp ha segs (wt_segC hw) hw.hne
    (fun x hx => wt_nonempty hw x (List.dropLast_subset segs hx)) (q.map qText) f (wt_qOkC hw) (wt_fOkC hw) (wt_tailPct hw)

/-- the fields of the successful result -/
theorem webResC_ok (cfg : Cfg) (I : Idna) (s a h : Bytes) (segs : List Bytes) (q f : Option Bytes)
    (hout : (parseHost cfg I (hostU s) a false).out = .ok h) :
    ∃ u, webResC cfg I s a segs q f = ⟨u, .url⟩ ∧ u.scheme = s ∧ u.username = [] ∧ u.password = [] ∧ u.host = some h ∧
      u.port = none ∧ u.decodedPort = 0 ∧ u.path = ⟨segs, false⟩ ∧ u.query = q ∧ u.fragment = f := by
  obtain ⟨e1, e2, e3, _, e5, e6, _, e8, e9⟩ := WhatwgUrl.Proofs.Frame.parseHost_same' cfg I (hostU s) a false
  unfold webResC
  rw [hout]
  refine ⟨_, rfl, ?_⟩
  cases q <;> cases f <;> dsimp only [setQ, setF] <;>
    exact ⟨e1, e2, e3, rfl, e5, e6, rfl, by first | rfl | exact e8, by first | rfl | exact e9⟩

theorem webResC_fail (cfg : Cfg) (I : Idna) (s a : Bytes) (segs : List Bytes) (q f : Option Bytes)
    (hno : ∀ h, (parseHost cfg I (hostU s) a false).out ≠ .ok h) :
    webResC cfg I s a segs q f = hostFail (parseHost cfg I (hostU s) a false) ∧ (webResC cfg I s a segs q f).ret ≠ .url := by
  unfold webResC hostFail
  cases hout : (parseHost cfg I (hostU s) a false).out with
  | ok h => exact absurd hout (hno h)
  | err e => exact ⟨rfl, by simp⟩
  | panic n => exact ⟨rfl, by simp⟩

/-- a host failure is not the error after which `(*profile).Parse` retries with the default scheme -/
theorem webResC_fail_not_missing (cfg : Cfg) (I : Idna) (s a : Bytes) (segs : List Bytes) (q f : Option Bytes)
    (hno : ∀ h, (parseHost cfg I (hostU s) a false).out ≠ .ok h) :
    ∀ er w, (webResC cfg I s a segs q f).ret = .err er w → er.t ≠ .MissingSchemeNonRelativeURL := by
  intro er w h
  rw [(webResC_fail cfg I s a segs q f hno).1] at h
  unfold hostFail at h
  cases hout : (parseHost cfg I (hostU s) a false).out with
  | ok x => exact absurd hout (hno x)
  | err e =>
    rw [hout] at h
    simp only [Ret.err.injEq] at h
    rw [← h.1]
    exact parseHost_et cfg I (hostU s) a false e hout
  | panic n => rw [hout] at h; cases h

/-- **Half B, two inputs**: when the host parser accepts the host text, both parses succeed and the two records are related
    as Half A requires -/
theorem C18e_parse_related (cfg : Cfg) (hW : WebCfg cfg) (I : Idna) (s dp a h : Bytes) (hsd : cfg.special? s = some dp)
    (hdp : dp ≠ []) (ha : hostText a = true) (hout : (parseHost cfg I (hostU s) a false).out = .ok h)
    (segs₁ segs₂ : List Bytes) (q₁ q₂ : Option (List (Bytes × Bytes))) (f₁ f₂ : Option Bytes)
    (hw : SameWeb segs₁ segs₂ q₁ q₂ f₁ f₂) :
    ∃ u₁ u₂, parse cfg I (render (s ++ lit "://" ++ a) segs₁ q₁ f₁) = ⟨u₁, .url⟩ ∧
      parse cfg I (render (s ++ lit "://" ++ a) segs₂ q₂ f₂) = ⟨u₂, .url⟩ ∧
      C18d.Agree u₁ u₂ ∧ PathEq u₁.path u₂.path ∧ QueryEq cfg u₁.query u₂.query ∧ FragEq u₁.fragment u₂.fragment ∧
      u₁.path = ⟨segs₁, false⟩ ∧ u₂.path = ⟨segs₂, false⟩ ∧ u₁.query = q₁.map qText ∧ u₂.query = q₂.map qText ∧
      u₁.fragment = f₁ ∧ u₂.fragment = f₂ := by
  obtain ⟨u₁, r1, a1, a2, a3, a4, a5, a6, a7, a8, a9⟩ := webResC_ok cfg I s a h segs₁ (q₁.map qText) f₁ hout
  obtain ⟨u₂, r2, b1, b2, b3, b4, b5, b6, b7, b8, b9⟩ := webResC_ok cfg I s a h segs₂ (q₂.map qText) f₂ hout
  refine ⟨u₁, u₂, ?_, ?_, ?_, ?_, ?_, ?_, a7, b7, a8, b8, a9, b9⟩
  · rw [C18e_parse_render cfg hW I s dp a hsd hdp ha _ _ _ hw.left, r1]
  · rw [C18e_parse_render cfg hW I s dp a hsd hdp ha _ _ _ hw.right, r2]
  · exact ⟨a1.trans b1.symm, a2.trans b2.symm, a3.trans b3.symm, a4.trans b4.symm, a5.trans b5.symm, a6.trans b6.symm,
      Bool.noConfusion, Bool.noConfusion, Bool.noConfusion⟩
  · rw [a7, b7]
    obtain ⟨ps, h1, h2⟩ := segSame_plains hw.hsegs
    exact pathEq_of_segs h1 h2
  · rw [a8, b8]
    cases q₁ with
    | none =>
      cases q₂ with
      | none => exact Or.inl rfl
      | some l₂ => exact (hw.hquery).elim
    | some l₁ =>
      cases q₂ with
      | none => exact (hw.hquery).elim
      | some l₂ => exact queryEq_of_pairs_c cfg hW hw.hquery
  · rw [a9, b9]
    cases f₁ with
    | none =>
      cases f₂ with
      | none => exact Or.inl rfl
      | some y => exact (hw.hfrag).elim
    | some x =>
      cases f₂ with
      | none => exact (hw.hfrag).elim
      | some y => exact fragEq_of_tok hw.hfrag

/-! ### 3. the capstone -/

/-- **C18e.**  For every profile with repeated percent-decoding whose parser options satisfy `WebCfg` and whose host hooks do
    not read the spelled fields (any combination of the other parser options and of remove-port, remove-user-info,
    remove-fragment, query sorting, default scheme), `(*profile).Parse` of two spellings of the same ordinary web url — on any
    two heaps — returns the same canonical text.  (If the host parser rejects the host text, both calls fail in the same way
    and there is no text for either; the retry with the default scheme is not triggered.) -/
theorem C18e_spellings_same_canonical (I : Idna) (p : Profile) (hp : p.repeatedPercentDecoding = true) (hW : WebCfg p.cfg)
    (hk : HooksOk p.cfg) (H₁ H₂ : Heap) (s dp a : Bytes) (hsd : p.cfg.special? s = some dp) (hdp : dp ≠ [])
    (ha : hostText a = true)
    (segs₁ segs₂ : List Bytes) (q₁ q₂ : Option (List (Bytes × Bytes))) (f₁ f₂ : Option Bytes)
    (hw : SameWeb segs₁ segs₂ q₁ q₂ f₁ f₂) :
    canonText (canonParse I p H₁ (render (s ++ lit "://" ++ a) segs₁ q₁ f₁)) =
      canonText (canonParse I p H₂ (render (s ++ lit "://" ++ a) segs₂ q₂ f₂)) := by
  rw [canonText_canonParse, canonText_canonParse]
  by_cases hok : ∃ h, (parseHost p.cfg I (hostU s) a false).out = .ok h
  · obtain ⟨h, hout⟩ := hok
    obtain ⟨u₁, u₂, r1, r2, hA, hP, hQ, hF, _⟩ :=
      C18e_parse_related p.cfg hW I s dp a h hsd hdp ha hout segs₁ segs₂ q₁ q₂ f₁ f₂ hw
    have b1 : canonParseBase I p (render (s ++ lit "://" ++ a) segs₁ q₁ f₁) = ⟨u₁, .url⟩ := by
      rw [C16.C16_default_scheme_neutral I p _ (Or.inl (by rw [r1])), r1]
    have b2 : canonParseBase I p (render (s ++ lit "://" ++ a) segs₂ q₂ f₂) = ⟨u₂, .url⟩ := by
      rw [C16.C16_default_scheme_neutral I p _ (Or.inl (by rw [r2])), r2]
    rw [b1, b2]
    exact canonOut_congr I p hp (hostOk_of_hooks p.cfg I hk) u₁ u₂ hA hP hQ hF
  · have hno : ∀ h, (parseHost p.cfg I (hostU s) a false).out ≠ .ok h := fun h hh => hok ⟨h, hh⟩
    have p1 := C18e_parse_render p.cfg hW I s dp a hsd hdp ha _ _ _ hw.left
    have p2 := C18e_parse_render p.cfg hW I s dp a hsd hdp ha _ _ _ hw.right
    have b1 : canonParseBase I p (render (s ++ lit "://" ++ a) segs₁ q₁ f₁) = webResC p.cfg I s a segs₁ (q₁.map qText) f₁ := by
      rw [C16.C16_default_scheme_neutral I p _ (Or.inr (Or.inr (by rw [p1]; exact webResC_fail_not_missing p.cfg I s a _ _ _ hno))), p1]
    have b2 : canonParseBase I p (render (s ++ lit "://" ++ a) segs₂ q₂ f₂) = webResC p.cfg I s a segs₂ (q₂.map qText) f₂ := by
      rw [C16.C16_default_scheme_neutral I p _ (Or.inr (Or.inr (by rw [p2]; exact webResC_fail_not_missing p.cfg I s a _ _ _ hno))), p2]
    rw [b1, b2]
    unfold canonOut
    rw [if_neg (webResC_fail p.cfg I s a segs₁ _ f₁ hno).2, if_neg (webResC_fail p.cfg I s a segs₂ _ f₂ hno).2]

/-- **`canonicalizer.GoogleSafeBrowsing`**: no hypothesis about the configuration is left -/
theorem C18e_gsb (I : Idna) (H₁ H₂ : Heap) (s dp a : Bytes) (hsd : gsbCfg.special? s = some dp) (hdp : dp ≠ [])
    (ha : hostText a = true)
    (segs₁ segs₂ : List Bytes) (q₁ q₂ : Option (List (Bytes × Bytes))) (f₁ f₂ : Option Bytes)
    (hw : SameWeb segs₁ segs₂ q₁ q₂ f₁ f₂) :
    canonText (canonParse I gsbProfile H₁ (render (s ++ lit "://" ++ a) segs₁ q₁ f₁)) =
      canonText (canonParse I gsbProfile H₂ (render (s ++ lit "://" ++ a) segs₂ q₂ f₂)) :=
  C18e_spellings_same_canonical I gsbProfile rfl webCfg_gsb hooksOk_gsb H₁ H₂ s dp a hsd hdp ha segs₁ segs₂ q₁ q₂ f₁ f₂ hw

/-- **`canonicalizer.Semantic`** (its table has `gopher` in addition) -/
theorem C18e_semantic (I : Idna) (H₁ H₂ : Heap) (s dp a : Bytes) (hsd : semanticCfg.special? s = some dp) (hdp : dp ≠ [])
    (ha : hostText a = true)
    (segs₁ segs₂ : List Bytes) (q₁ q₂ : Option (List (Bytes × Bytes))) (f₁ f₂ : Option Bytes)
    (hw : SameWeb segs₁ segs₂ q₁ q₂ f₁ f₂) :
    canonText (canonParse I semanticProfile H₁ (render (s ++ lit "://" ++ a) segs₁ q₁ f₁)) =
      canonText (canonParse I semanticProfile H₂ (render (s ++ lit "://" ++ a) segs₂ q₂ f₂)) :=
  C18e_spellings_same_canonical I semanticProfile rfl webCfg_semantic hooksOk_semantic H₁ H₂ s dp a hsd hdp ha
    segs₁ segs₂ q₁ q₂ f₁ f₂ hw

/-- … and when the host parser accepts the host text, both parses do succeed -/
theorem C18e_both_parse (cfg : Cfg) (hW : WebCfg cfg) (I : Idna) (s dp a h : Bytes) (hsd : cfg.special? s = some dp)
    (hdp : dp ≠ []) (ha : hostText a = true) (hout : (parseHost cfg I (hostU s) a false).out = .ok h)
    (segs₁ segs₂ : List Bytes) (q₁ q₂ : Option (List (Bytes × Bytes))) (f₁ f₂ : Option Bytes)
    (hw : SameWeb segs₁ segs₂ q₁ q₂ f₁ f₂) :
    (parse cfg I (render (s ++ lit "://" ++ a) segs₁ q₁ f₁)).ret = .url ∧
    (parse cfg I (render (s ++ lit "://" ++ a) segs₂ q₂ f₂)).ret = .url := by
  obtain ⟨u₁, u₂, r1, r2, _⟩ := C18e_parse_related cfg hW I s dp a h hsd hdp ha hout segs₁ segs₂ q₁ q₂ f₁ f₂ hw
  rw [r1, r2]; exact ⟨rfl, rfl⟩

/-! ### non-vacuity -/

private theorem plain_lit (s : Bytes) (h : (s != [] && s.all unres) = true) : Plain s := by
  simp only [Bool.and_eq_true, bne_iff_ne, ne_eq, List.all_eq_true] at h
  exact h

private theorem tok_refl (s : Bytes) (h : (s != [] && s.all unres) = true) : Tok s s := ⟨plain_lit s h, spelled_refl s⟩

/-- `%7Efoo` spells `~foo`, `%41` spells `A` -/
private theorem sp_tilde : Spelled (lit "~foo") (lit "%7Efoo") := by
  rw [show lit "%7Efoo" = nest 0 (esc1 true 0x7e) ++ lit "foo" by decide, show lit "~foo" = 0x7e :: lit "foo" by decide]
  exact .esc true 0 0x7e (spelled_refl _)
private theorem sp_A : Spelled (lit "A") (lit "%41") := by
  rw [show lit "%41" = nest 0 (esc1 true 0x41) ++ [] by decide, show lit "A" = [0x41] by decide]
  exact .esc true 0 0x41 .nil

private def segsA : List Bytes := [lit "%7Efoo", lit "a"]
private def segsB : List Bytes := [lit "~foo", lit "a"]
private def qA : Option (List (Bytes × Bytes)) := some [(lit "x", lit "%41")]
private def qB' : Option (List (Bytes × Bytes)) := some [(lit "x", lit "A")]
private def fA : Option Bytes := some (lit "y")

/-- the two inputs of the example are spellings of the same plain url `…/~foo/a?x=A#y` -/
private theorem ex_same : SameWeb segsA segsB qA qB' fA fA where
  hsegs := .cons ⟨lit "~foo", ⟨⟨plain_lit _ (by decide), sp_tilde⟩, by decide, by decide⟩, ⟨tok_refl _ (by decide), by decide, by decide⟩⟩
    (.cons ⟨lit "a", ⟨tok_refl _ (by decide), by decide, by decide⟩, ⟨tok_refl _ (by decide), by decide, by decide⟩⟩ .nil)
  hne := by decide
  hquery := .cons ⟨⟨lit "x", tok_refl _ (by decide), tok_refl _ (by decide)⟩,
      ⟨lit "A", ⟨plain_lit _ (by decide), sp_A⟩, tok_refl _ (by decide)⟩⟩ .nil
  hfrag := ⟨lit "y", tok_refl _ (by decide), tok_refl _ (by decide)⟩

/-- how the two inputs read -/
example : render (lit "http" ++ lit "://" ++ lit "example.com") segsA qA fA = lit "http://example.com/%7Efoo/a?x=%41#y" ∧
    render (lit "http" ++ lit "://" ++ lit "example.com") segsB qB' fA = lit "http://example.com/~foo/a?x=A#y" := by decide

/-- the hypotheses about scheme and host text -/
example : gsbCfg.special? (lit "http") = some (lit "80") ∧ lit "80" ≠ [] ∧ hostText (lit "example.com") = true := by decide
example : semanticCfg.special? (lit "gopher") = some (lit "70") ∧ lit "70" ≠ [] ∧ hostText (lit "[::1]") = true := by decide

/-- **`C18e_gsb` applied**: `http://example.com/%7Efoo/a?x=%41#y` and `http://example.com/~foo/a?x=A#y` have the same canonical
    text under the GoogleSafeBrowsing profile (any oracle, any two heaps) -/
example (I : Idna) (H₁ H₂ : Heap) :
    canonText (canonParse I gsbProfile H₁ (lit "http://example.com/%7Efoo/a?x=%41#y")) =
    canonText (canonParse I gsbProfile H₂ (lit "http://example.com/~foo/a?x=A#y")) :=
  C18e_gsb I H₁ H₂ (lit "http") (lit "80") (lit "example.com") (by decide) (by decide) (by decide) segsA segsB qA qB' fA fA ex_same

/-- … and under the Semantic profile, also with the `gopher` scheme of its table -/
example (I : Idna) (H₁ H₂ : Heap) :
    canonText (canonParse I semanticProfile H₁ (lit "http://example.com/%7Efoo/a?x=%41#y")) =
    canonText (canonParse I semanticProfile H₂ (lit "http://example.com/~foo/a?x=A#y")) :=
  C18e_semantic I H₁ H₂ (lit "http") (lit "80") (lit "example.com") (by decide) (by decide) (by decide) segsA segsB qA qB' fA fA ex_same

example (I : Idna) (H₁ H₂ : Heap) :
    canonText (canonParse I semanticProfile H₁ (lit "gopher://[::1]/%7Efoo/a?x=%41#y")) =
    canonText (canonParse I semanticProfile H₂ (lit "gopher://[::1]/~foo/a?x=A#y")) :=
  C18e_semantic I H₁ H₂ (lit "gopher") (lit "70") (lit "[::1]") (by decide) (by decide) (by decide) segsA segsB qA qB' fA fA ex_same

/-- Half B on the first input under the GoogleSafeBrowsing options (IPv6 host, so that the host parser evaluates) -/
private theorem ex_host : (parseHost gsbCfg I0 (hostU (lit "http")) (lit "[::1]") false).out = .ok (lit "[::1]") := by decide +kernel

example : ∃ u, parse gsbCfg I0 (lit "http://[::1]/%7Efoo/a?x=%41#y") = ⟨u, .url⟩ ∧
    u.path = ⟨[lit "%7Efoo", lit "a"], false⟩ ∧ u.query = some (lit "x=%41") ∧ u.fragment = some (lit "y") := by
  obtain ⟨u₁, u₂, r1, _, _, _, _, _, h1, _, h2, _, h3, _⟩ :=
    C18e_parse_related gsbCfg webCfg_gsb I0 (lit "http") (lit "80") (lit "[::1]") _ (by decide) (by decide) (by decide) ex_host
      segsA segsB qA qB' fA fA ex_same
  exact ⟨u₁, r1, h1, h2, h3⟩

/-- … which agrees with evaluation (kernel-checked) -/
example : (parse gsbCfg I0 (lit "http://[::1]/%7Efoo/a?x=%41#y")).url.path = ⟨[lit "%7Efoo", lit "a"], false⟩ := by decide +kernel
example : (parse semanticCfg I0 (lit "gopher://[::1]/%7Efoo/a?x=%41#y")).url.query = some (lit "x=%41") := by decide +kernel

/-- the underlying `parse_web_c` admits an empty LAST segment (a trailing slash) also under collapsing -/
example : parse gsbCfg I0 (lit "http://[::1]/a/") = webResC gsbCfg I0 (lit "http") (lit "[::1]") [lit "a", []] none none := by
  have h := parse_web_c gsbCfg webCfg_gsb.toWebParseCfg I0 (lit "http") (lit "80") (lit "[::1]") (by decide) (by decide) (by decide)
    [lit "a", []]
    (by
      intro x hx
      simp only [List.mem_cons, List.not_mem_nil, or_false] at hx
      rcases hx with rfl | rfl <;> exact ⟨by decide, by decide, by decide⟩)
    (by decide) (by decide) none none (fun x hx => by cases hx) (fun x hx => by cases hx) (by unfold TailPct; decide)
  rw [show lit "http://[::1]/a/" = lit "http" ++ lit "://" ++ lit "[::1]" ++ (pathText [lit "a", []] ++ (qTail none ++ fTail none))
    by decide]
  exact h

/-! ### 4. the ASCII letter case of the host -/

open WhatwgUrl.Proofs.Domain (L1 PureAsciiNoAce)
open WhatwgUrl.Proofs.Sim (IdnaLaws)

/-- the law of the oracle that is needed: `IdnaLaws.ascii_lower` in the form of `Props/C09b.lean` -/
theorem l1_of_laws {I : Idna} (h : IdnaLaws I) : L1 I :=
  fun s hs => h.ascii_lower s hs.1 (WhatwgUrl.Proofs.Domain.asciiOrMisc_pure s hs)

/-- the full statement of item 4: NOT a theorem under the oracle laws — they say nothing about ACE (`xn--`) labels, nor about
    non-ASCII domains (a host text may contain escapes of non-ASCII bytes); see `C18e_host_case_Statement_false_L1` -/
def C18e_host_case_Statement : Prop :=
  ∀ (cfg : Cfg), (cfg = {} ∨ cfg = gsbCfg ∨ cfg = semanticCfg) → ∀ (I : Idna), IdnaLaws I → ∀ (s a₁ a₂ : Bytes),
    hostText a₁ = true → hostText a₂ = true → asciiLower a₁ = asciiLower a₂ →
    (parseHost cfg I (hostU s) a₁ false).out = (parseHost cfg I (hostU s) a₂ false).out

/-- the general form: any configuration without post-parse-host hook whose pre-parse-host hook commutes with lower-casing and
    whose encoding override leaves ASCII alone, any record; `HostInput` (decidable, `Proofs/WebHost6.lean`): what the host
    parser gets to see after the hook is empty, or ASCII starting with `[` (the IPv6 parser does not see the letter case:
    `parseIPv6_lower`), or not bracketed, without `%`, pure ASCII without `xn--` label start (law L1 of the oracle) -/
theorem C18e_host_case (cfg : Cfg) (hpost : cfg.postHost = none) (hcase : HookCase cfg) (henc : EncAscii cfg) (I : Idna)
    (hI : L1 I) (u : Url) (a₁ a₂ : Bytes) (hl : asciiLower a₁ = asciiLower a₂) (hD : HostInput (preIn cfg u a₁)) :
    (parseHost cfg I u a₁ false).out = (parseHost cfg I u a₂ false).out :=
  host_case6 cfg hpost hcase henc I hI u a₁ a₂ hl hD

/-- **item 4, partial**: the statement with the extra hypothesis `HostInput (preIn cfg (hostU s) a₁)` -/
theorem C18e_host_case_partial (cfg : Cfg) (hcfg : cfg = {} ∨ cfg = gsbCfg ∨ cfg = semanticCfg) (I : Idna) (hI : IdnaLaws I)
    (s a₁ a₂ : Bytes) (ha₁ : hostText a₁ = true) (ha₂ : hostText a₂ = true) (hl : asciiLower a₁ = asciiLower a₂)
    (hD : HostInput (preIn cfg (hostU s) a₁)) :
    (parseHost cfg I (hostU s) a₁ false).out = (parseHost cfg I (hostU s) a₂ false).out := by
  rcases hcfg with rfl | rfl | rfl
  · exact host_case6 {} rfl hookCase_default (encAscii_none {} rfl) I (l1_of_laws hI) _ a₁ a₂ hl hD
  · exact host_case6 gsbCfg rfl hookCase_gsb (encAscii_none gsbCfg rfl) I (l1_of_laws hI) _ a₁ a₂ hl hD
  · exact host_case6 semanticCfg rfl hookCase_semantic encAscii_semantic I (l1_of_laws hI) _ a₁ a₂ hl hD

/-- non-vacuity: `EXAMPLE.com.` / `example.COM.` under the three configurations (the hooks of the two profiles strip the dot) -/
example : hostText (lit "EXAMPLE.com.") = true ∧ hostText (lit "example.COM.") = true ∧
    asciiLower (lit "EXAMPLE.com.") = asciiLower (lit "example.COM.") ∧
    HostInput (preIn {} (hostU (lit "http")) (lit "EXAMPLE.com.")) ∧
    HostInput (preIn gsbCfg (hostU (lit "http")) (lit "EXAMPLE.com.")) ∧
    HostInput (preIn semanticCfg (hostU (lit "http")) (lit "EXAMPLE.com.")) ∧
    HostInput (preIn gsbCfg (hostU (lit "http")) (lit "[::A:b]")) ∧
    preIn gsbCfg (hostU (lit "http")) (lit "EXAMPLE.com.") = lit "EXAMPLE.com" := by decide +kernel
/-- … and what it excludes -/
example : ¬ HostInput (lit "XN--a.com") ∧ ¬ HostInput (lit "a%41.com") ∧ ¬ HostInput (lit "a.b.xn--c") := by decide +kernel

/-- the IPv6 parser, evaluated: `[::A:b]` and `[::a:B]` -/
example : (parseHost gsbCfg I0 (hostU (lit "http")) (lit "[::A:b]") false).out = .ok (lit "[::a:b]") ∧
    (parseHost gsbCfg I0 (hostU (lit "http")) (lit "[::a:B]") false).out = .ok (lit "[::a:b]") := by decide +kernel

/-- an oracle that obeys L1 but treats `xn--a` (an ACE label: outside L1) in its own way -/
def Iace : Idna := fun s => if s == lit "xn--a" then (lit "b", false) else (asciiLower s, false)

theorem l1_Iace : L1 Iace := by
  intro s hs
  have hne : (s == lit "xn--a") = false := by
    cases h : s == lit "xn--a"
    · rfl
    · rw [eq_of_beq h] at hs
      exact absurd hs (by decide +kernel)
  simp [Iace, hne]

/-- **without the extra hypothesis the statement is false under law L1 alone**: `XN--A` and `xn--a` are host texts that differ
    in letter case only; with the oracle `Iace` the host parser returns `xn--a` for the first and `b` for the second.  (The
    laws do not constrain the oracle on ACE labels; the real library is case-insensitive there, but that is not among the
    laws checked by the correspondence.) -/
theorem C18e_host_case_Statement_false_L1 :
    L1 Iace ∧ hostText (lit "XN--A") = true ∧ hostText (lit "xn--a") = true ∧ asciiLower (lit "XN--A") = asciiLower (lit "xn--a") ∧
    (parseHost {} Iace (hostU (lit "http")) (lit "XN--A") false).out = .ok (lit "xn--a") ∧
    (parseHost {} Iace (hostU (lit "http")) (lit "xn--a") false).out = .ok (lit "b") := by
  refine ⟨l1_Iace, by decide, by decide, by decide, ?_, ?_⟩
  · rw [parseHost_pre_cons {} Iace _ (lit "XN--A") 0x58 (lit "N--A") rfl (by decide),
      WhatwgUrl.Proofs.Domain.decodePercent_no_pct {} _ (by decide)]
    decide +kernel
  · rw [parseHost_pre_cons {} Iace _ (lit "xn--a") 0x78 (lit "n--a") rfl (by decide),
      WhatwgUrl.Proofs.Domain.decodePercent_no_pct {} _ (by decide)]
    decide +kernel

/-- … and the same with ALL four oracle laws (`IdnaLaws`): an oracle that lower-cases (dropping non-ASCII bytes), flags U+FFFD,
    and treats `xn--a` in its own way -/
def Iace2 : Idna := fun s =>
  if s == lit "xn--a" then (lit "b", false) else ((asciiLower s).filter (fun x => decide (x.toNat < 0x80)), decide (repl ∈ goRunes s))

theorem asciiOrMisc_repl : ∀ (rs : Str) (p : Int), repl ∈ rs → asciiOrMiscNoPuny rs p = false
  | [], _, h => by cases h
  | r0 :: rest, p, h => by
    rcases List.mem_cons.mp h with h | h
    · subst h
      have : lowerForCheck repl = repl := by decide
      simp only [asciiOrMiscNoPuny, this]
      rfl
    · have ih := fun q => asciiOrMisc_repl rest q h
      simp only [asciiOrMiscNoPuny]
      repeat' split
      all_goals first | rfl | exact ih _

theorem laws_Iace2 : IdnaLaws Iace2 where
  ascii_lower := by
    intro s hs hm
    have hne : (s == lit "xn--a") = false := by
      cases h : s == lit "xn--a"
      · rfl
      · rw [eq_of_beq h] at hm
        exact absurd hm (by decide +kernel)
    simp only [Iace2, hne, Bool.false_eq_true, if_false]
    apply List.filter_eq_self.mpr
    intro x hx
    simpa using WhatwgUrl.Proofs.Domain.asciiLower_ascii hs x hx
  out_ascii := by
    intro s x hx
    unfold Iace2 at hx
    split at hx
    · revert x; decide
    · simpa using (List.mem_filter.mp hx).2
  repl_fails := by
    intro d hd
    have hne : (utf8 d == lit "xn--a") = false := by
      cases h : utf8 d == lit "xn--a"
      · rfl
      · have := WhatwgUrl.Proofs.Utf8.goRunes_utf8 d
        rw [eq_of_beq h] at this
        rw [← this] at hd
        exact absurd hd (by decide +kernel)
    simp only [Iace2, hne, Bool.false_eq_true, if_false, WhatwgUrl.Proofs.Utf8.goRunes_utf8]
    simpa using hd
  nonempty := by
    intro s hs hf hm
    cases hne : s == lit "xn--a" with
    | true => simp only [Iace2, hne, if_true]; decide
    | false =>
      simp only [Iace2, hne, Bool.false_eq_true, if_false, decide_eq_true_eq] at hf
      rw [asciiOrMisc_repl _ _ hf] at hm
      cases hm

/-- **the full statement of item 4 is false** (already for the default configuration): `XN--A` / `xn--a` under `Iace2` -/
theorem C18e_host_case_Statement_false : ¬ C18e_host_case_Statement := by
  intro h
  have := h {} (Or.inl rfl) Iace2 laws_Iace2 (lit "http") (lit "XN--A") (lit "xn--a") (by decide) (by decide) (by decide)
  rw [parseHost_pre_cons {} Iace2 _ (lit "XN--A") 0x58 (lit "N--A") rfl (by decide),
    parseHost_pre_cons {} Iace2 _ (lit "xn--a") 0x78 (lit "n--a") rfl (by decide),
    WhatwgUrl.Proofs.Domain.decodePercent_no_pct {} _ (by decide),
    WhatwgUrl.Proofs.Domain.decodePercent_no_pct {} _ (by decide)] at this
  revert this
  decide +kernel

/-- **the capstone with the host spelled in either letter case** -/
theorem C18e_spellings_same_canonical_hostcase (I : Idna) (hI : L1 I) (p : Profile) (hp : p.repeatedPercentDecoding = true)
    (hW : WebCfg p.cfg) (hk : HooksOk p.cfg) (hpost : p.cfg.postHost = none) (hcase : HookCase p.cfg) (henc : EncAscii p.cfg)
    (H₁ H₂ : Heap) (s dp a₁ a₂ : Bytes) (hsd : p.cfg.special? s = some dp) (hdp : dp ≠ [])
    (ha₁ : hostText a₁ = true) (ha₂ : hostText a₂ = true) (hl : asciiLower a₁ = asciiLower a₂)
    (hD : HostInput (preIn p.cfg (hostU s) a₁))
    (segs₁ segs₂ : List Bytes) (q₁ q₂ : Option (List (Bytes × Bytes))) (f₁ f₂ : Option Bytes)
    (hw : SameWeb segs₁ segs₂ q₁ q₂ f₁ f₂) :
    canonText (canonParse I p H₁ (render (s ++ lit "://" ++ a₁) segs₁ q₁ f₁)) =
      canonText (canonParse I p H₂ (render (s ++ lit "://" ++ a₂) segs₂ q₂ f₂)) := by
  have hout := host_case6 p.cfg hpost hcase henc I hI (hostU s) a₁ a₂ hl hD
  rw [canonText_canonParse, canonText_canonParse]
  have p1 := C18e_parse_render p.cfg hW I s dp a₁ hsd hdp ha₁ _ _ _ hw.left
  have p2 := C18e_parse_render p.cfg hW I s dp a₂ hsd hdp ha₂ _ _ _ hw.right
  by_cases hok : ∃ h, (parseHost p.cfg I (hostU s) a₁ false).out = .ok h
  · obtain ⟨h, hout1⟩ := hok
    have hout2 : (parseHost p.cfg I (hostU s) a₂ false).out = .ok h := by rw [← hout]; exact hout1
    obtain ⟨u₁, r1, a1, a2, a3, a4, a5, a6, a7, a8, a9⟩ := webResC_ok p.cfg I s a₁ h segs₁ (q₁.map qText) f₁ hout1
    obtain ⟨u₂, r2, b1, b2, b3, b4, b5, b6, b7, b8, b9⟩ := webResC_ok p.cfg I s a₂ h segs₂ (q₂.map qText) f₂ hout2
    have b1' : canonParseBase I p (render (s ++ lit "://" ++ a₁) segs₁ q₁ f₁) = ⟨u₁, .url⟩ := by
      rw [C16.C16_default_scheme_neutral I p _ (Or.inl (by rw [p1, r1])), p1, r1]
    have b2' : canonParseBase I p (render (s ++ lit "://" ++ a₂) segs₂ q₂ f₂) = ⟨u₂, .url⟩ := by
      rw [C16.C16_default_scheme_neutral I p _ (Or.inl (by rw [p2, r2])), p2, r2]
    rw [b1', b2']
    refine canonOut_congr I p hp (hostOk_of_hooks p.cfg I hk) u₁ u₂ ?_ ?_ ?_ ?_
    · exact ⟨a1.trans b1.symm, a2.trans b2.symm, a3.trans b3.symm, a4.trans b4.symm, a5.trans b5.symm, a6.trans b6.symm,
        Bool.noConfusion, Bool.noConfusion, Bool.noConfusion⟩
    · rw [a7, b7]
      obtain ⟨ps, h1, h2⟩ := segSame_plains hw.hsegs
      exact pathEq_of_segs h1 h2
    · rw [a8, b8]
      cases q₁ with
      | none =>
        cases q₂ with
        | none => exact Or.inl rfl
        | some l₂ => exact (hw.hquery).elim
      | some l₁ =>
        cases q₂ with
        | none => exact (hw.hquery).elim
        | some l₂ => exact queryEq_of_pairs_c p.cfg hW hw.hquery
    · rw [a9, b9]
      cases f₁ with
      | none =>
        cases f₂ with
        | none => exact Or.inl rfl
        | some y => exact (hw.hfrag).elim
      | some x =>
        cases f₂ with
        | none => exact (hw.hfrag).elim
        | some y => exact fragEq_of_tok hw.hfrag
  · have hno1 : ∀ h, (parseHost p.cfg I (hostU s) a₁ false).out ≠ .ok h := fun h hh => hok ⟨h, hh⟩
    have hno2 : ∀ h, (parseHost p.cfg I (hostU s) a₂ false).out ≠ .ok h := fun h hh => hok ⟨h, by rw [hout]; exact hh⟩
    have b1 : canonParseBase I p (render (s ++ lit "://" ++ a₁) segs₁ q₁ f₁) = webResC p.cfg I s a₁ segs₁ (q₁.map qText) f₁ := by
      rw [C16.C16_default_scheme_neutral I p _ (Or.inr (Or.inr (by rw [p1]; exact webResC_fail_not_missing p.cfg I s a₁ _ _ _ hno1))), p1]
    have b2 : canonParseBase I p (render (s ++ lit "://" ++ a₂) segs₂ q₂ f₂) = webResC p.cfg I s a₂ segs₂ (q₂.map qText) f₂ := by
      rw [C16.C16_default_scheme_neutral I p _ (Or.inr (Or.inr (by rw [p2]; exact webResC_fail_not_missing p.cfg I s a₂ _ _ _ hno2))), p2]
    rw [b1, b2]
    unfold canonOut
    rw [if_neg (webResC_fail p.cfg I s a₁ segs₁ _ f₁ hno1).2, if_neg (webResC_fail p.cfg I s a₂ segs₂ _ f₂ hno2).2]

/-- … for the two profiles -/
theorem C18e_gsb_hostcase (I : Idna) (hI : L1 I) (H₁ H₂ : Heap) (s dp a₁ a₂ : Bytes) (hsd : gsbCfg.special? s = some dp)
    (hdp : dp ≠ []) (ha₁ : hostText a₁ = true) (ha₂ : hostText a₂ = true) (hl : asciiLower a₁ = asciiLower a₂)
    (hD : HostInput (preIn gsbCfg (hostU s) a₁))
    (segs₁ segs₂ : List Bytes) (q₁ q₂ : Option (List (Bytes × Bytes))) (f₁ f₂ : Option Bytes)
    (hw : SameWeb segs₁ segs₂ q₁ q₂ f₁ f₂) :
    canonText (canonParse I gsbProfile H₁ (render (s ++ lit "://" ++ a₁) segs₁ q₁ f₁)) =
      canonText (canonParse I gsbProfile H₂ (render (s ++ lit "://" ++ a₂) segs₂ q₂ f₂)) :=
  C18e_spellings_same_canonical_hostcase I hI gsbProfile rfl webCfg_gsb hooksOk_gsb rfl hookCase_gsb (encAscii_none gsbCfg rfl)
    H₁ H₂ s dp a₁ a₂ hsd hdp ha₁ ha₂ hl hD segs₁ segs₂ q₁ q₂ f₁ f₂ hw

theorem C18e_semantic_hostcase (I : Idna) (hI : L1 I) (H₁ H₂ : Heap) (s dp a₁ a₂ : Bytes) (hsd : semanticCfg.special? s = some dp)
    (hdp : dp ≠ []) (ha₁ : hostText a₁ = true) (ha₂ : hostText a₂ = true) (hl : asciiLower a₁ = asciiLower a₂)
    (hD : HostInput (preIn semanticCfg (hostU s) a₁))
    (segs₁ segs₂ : List Bytes) (q₁ q₂ : Option (List (Bytes × Bytes))) (f₁ f₂ : Option Bytes)
    (hw : SameWeb segs₁ segs₂ q₁ q₂ f₁ f₂) :
    canonText (canonParse I semanticProfile H₁ (render (s ++ lit "://" ++ a₁) segs₁ q₁ f₁)) =
      canonText (canonParse I semanticProfile H₂ (render (s ++ lit "://" ++ a₂) segs₂ q₂ f₂)) :=
  C18e_spellings_same_canonical_hostcase I hI semanticProfile rfl webCfg_semantic hooksOk_semantic rfl hookCase_semantic
    encAscii_semantic H₁ H₂ s dp a₁ a₂ hsd hdp ha₁ ha₂ hl hD segs₁ segs₂ q₁ q₂ f₁ f₂ hw

/-- `http://EXAMPLE.com./%7Efoo/a?x=%41#y` and `http://example.COM./~foo/a?x=A#y` under the GoogleSafeBrowsing profile -/
example (I : Idna) (hI : L1 I) (H₁ H₂ : Heap) :
    canonText (canonParse I gsbProfile H₁ (lit "http://EXAMPLE.com./%7Efoo/a?x=%41#y")) =
    canonText (canonParse I gsbProfile H₂ (lit "http://example.COM./~foo/a?x=A#y")) :=
  C18e_gsb_hostcase I hI H₁ H₂ (lit "http") (lit "80") (lit "EXAMPLE.com.") (lit "example.COM.") (by decide) (by decide) (by decide)
    (by decide) (by decide) (by decide +kernel) segsA segsB qA qB' fA fA ex_same

/-! ### the limits -/

/-- collapsing DOES remove an empty non-final segment: the hypothesis "no empty non-final segment" of `parse_web_c` (implied by
    `WebText`) is needed under the options of the two profiles -/
example : (parse gsbCfg I0 (lit "http://[::1]/a//b")).url.path.segs = [lit "a", lit "b"] ∧
    (parse {} I0 (lit "http://[::1]/a//b")).url.path.segs = [lit "a", [], lit "b"] := by decide +kernel

/-- a lone `%` is re-encoded under percent-encode-single-percent: the "no lone `%`" property of spellings is needed -/
example : (parse gsbCfg I0 (lit "http://[::1]/a%zz")).url.path.segs = [lit "a%25zz"] ∧
    (parse {} I0 (lit "http://[::1]/a%zz")).url.path.segs = [lit "a%zz"] := by decide +kernel

/-- the clauses about the sets are needed for Half B: a path set with `~`, a special-query set with `=`, a special-fragment
    set with `%` in it re-spell the text -/
example : (parse { pathSet := pathSet.set 0x7e } I0 (lit "http://[::1]/~a")).url.path.segs = [lit "%7Ea"] ∧
    (parse { spQuerySet := specialQuerySet.set 0x3d } I0 (lit "http://[::1]/a?x=1")).url.query = some (lit "x%3D1") ∧
    (parse { spFragSet := fragmentSet.set 0x25 } I0 (lit "http://[::1]/a#%41")).url.fragment = some (lit "%2541") ∧
    ¬ WebParseCfg { pathSet := pathSet.set 0x7e } ∧ ¬ WebParseCfg { spQuerySet := specialQuerySet.set 0x3d } ∧
    ¬ WebParseCfg { spFragSet := fragmentSet.set 0x25 } :=
  ⟨by decide +kernel, by decide +kernel, by decide +kernel, fun h => absurd h.pathSet (by decide +kernel),
    fun h => absurd h.spQuerySet (by decide +kernel), fun h => absurd h.spFragSet (by decide +kernel)⟩

/-- `file` goes to the file state whatever the special-scheme table says: the `schemes` clause of `WebCfg` is needed.
    With a table that gives `file` a default port every other hypothesis of Half B holds for `file://C|/a`, but the file
    host state takes `C|` for a drive letter: the record has the empty host and the path `C:` / `a` -/
def cfgFilePort : Cfg := { specialSchemes := [(lit "file", lit "1")] }

theorem hostFail_url (hr : HR) : (hostFail hr).url = hr.url := by
  unfold hostFail; split <;> rfl

example : ¬ WebParseCfg cfgFilePort := fun h => absurd h.schemes (by decide +kernel)

theorem C18e_parse_render_needs_schemes :
    cfgFilePort.special? (lit "file") = some (lit "1") ∧ lit "1" ≠ ([] : Bytes) ∧ hostText (lit "C|") = true ∧
    WebText [lit "a"] none none ∧
    parse cfgFilePort I0 (render (lit "file" ++ lit "://" ++ lit "C|") [lit "a"] none none) ≠
      webResC cfgFilePort I0 (lit "file") (lit "C|") [lit "a"] none none := by
  refine ⟨by decide, by decide, by decide, ?_, ?_⟩
  · refine ⟨fun x hx => ?_, by decide, fun l hl => (by cases hl), fun x hx => (by cases hx)⟩
    simp only [List.mem_cons, List.not_mem_nil, or_false] at hx
    subst hx
    exact ⟨lit "a", tok_refl _ (by decide), by decide, by decide⟩
  · intro h
    have hp : (parse cfgFilePort I0 (render (lit "file" ++ lit "://" ++ lit "C|") [lit "a"] none none)).url.path.segs =
        [lit "C:", lit "a"] := by decide +kernel
    rw [h] at hp
    unfold webResC at hp
    split at hp
    · simp [setQ, setF] at hp
    · rw [hostFail_url, ph_path_c] at hp
      revert hp; decide

/-- the `charmap` clause of `WebCfg` is needed for the capstone: under an encoding override that decodes `%41` to `B`
    (`badMap`, `Proofs/WebDefs.lean`; all other clauses hold: `WebParseCfg`) the two spellings `x=%41` and `x=A` of the same
    query end with different canonical texts — the query list of the canonicalizer decodes through the charmap -/
def decodePercentF (cfg : Cfg) : Nat → Bytes → Bytes
  | 0, _ => []
  | _ + 1, [] => []
  | f + 1, x :: h1 :: h2 :: rest' =>
    if x == 0x25 && isHexN h1.toNat && isHexN h2.toNat then
      (match cfg.encOverride with
       | some cm => utf8Char (cm.dec (hexVal h1.toNat * 16 + hexVal h2.toNat).toUInt8)
       | none => [(hexVal h1.toNat * 16 + hexVal h2.toNat).toUInt8]) ++ decodePercentF cfg f rest'
    else x :: decodePercentF cfg f (h1 :: h2 :: rest')
  | f + 1, x :: rest => x :: decodePercentF cfg f rest

theorem decodePercentF_eq (cfg : Cfg) (s : Bytes) : ∀ f, s.length ≤ f → decodePercentF cfg f s = decodePercent cfg s := by
  fun_induction decodePercent cfg s with
  | case1 => intro f _; cases f <;> rfl
  | case2 x h1 h2 rest' hc ih =>
    intro f hf
    cases f with
    | zero => simp at hf
    | succ f =>
      rw [decodePercentF, if_pos hc, ih f (by simp at hf; omega)]
      rfl
  | case3 x h1 h2 rest' hc ih =>
    intro f hf
    cases f with
    | zero => simp at hf
    | succ f =>
      rw [decodePercentF, if_neg hc, ih f (by simp at hf; omega)]
  | case4 x rest hr ih =>
    intro f hf
    cases f with
    | zero => simp at hf
    | succ f =>
      have := ih f (by simp at hf; omega)
      match rest, hr with
      | [], _ => first | (rw [decodePercentF, this]; done) | (rw [decodePercentF, this]; intro _ _ _ h; cases h)
      | [y], _ => first | (rw [decodePercentF, this]; done) | (rw [decodePercentF, this]; intro _ _ _ h; cases h)
      | y :: z :: r, hr => exact absurd rfl (hr y z r)

def cfgBadMap : Cfg := { encOverride := some badMap }
def pBadMap : Profile := { cfg := cfgBadMap, repeatedPercentDecoding := true }

def spInitBad (query : Bytes) : Pairs :=
  (splitOn 0x26 query).filterMap fun q =>
    if q.isEmpty then none
    else
      some (decodePercentF cfgBadMap q.length (replaceByte 0x2b 0x20 (splitFirst 0x3d q).1),
            match (splitFirst 0x3d q).2 with
            | some v => decodePercentF cfgBadMap v.length (replaceByte 0x2b 0x20 v)
            | none => [])

theorem splitFirst_length' (sep : UInt8) (s : Bytes) : (splitFirst sep s).1.length ≤ s.length := by
  induction s with
  | nil => simp [splitFirst]
  | cons x xs ih =>
    unfold splitFirst
    split <;> simp [ih]

theorem spInit_bad : spInit cfgBadMap = spInitBad := by
  funext q
  unfold spInit spInitBad
  congr 1
  funext seq
  split
  · rfl
  · rw [decodePercentF_eq cfgBadMap _ _ (by simpa [replaceByte] using splitFirst_length' 0x3d seq)]
    cases (splitFirst 0x3d seq).2 with
    | none => rfl
    | some v => simp only; rw [decodePercentF_eq cfgBadMap _ _ (by simp [replaceByte])]

example : WebParseCfg cfgBadMap ∧ HooksOk cfgBadMap ∧ ¬ WebCfg cfgBadMap :=
  ⟨⟨by decide +kernel, by decide +kernel, by decide +kernel, by decide +kernel⟩, hooksOk_none _ rfl rfl,
    fun h => absurd h.charmap (by decide +kernel)⟩

/-- `http://[::1]/a?x=%41` ends as `…?x=B`, `http://[::1]/a?x=A` as `…?x=A` -/
theorem C18e_capstone_needs_charmap :
    canonText (canonParse I0 pBadMap {} (lit "http://[::1]/a?x=%41")) = some (lit "http://[::1]/a?x=B") ∧
    canonText (canonParse I0 pBadMap {} (lit "http://[::1]/a?x=A")) = some (lit "http://[::1]/a?x=A") := by
  constructor
  · rw [canonText_canonParse]
    unfold canonOut canonV vMut vList
    rw [C18d.decodeEncode_fun]
    simp only [show pBadMap.cfg = cfgBadMap from rfl, spInit_bad]
    decide +kernel
  · rw [canonText_canonParse]
    unfold canonOut canonV vMut vList
    rw [C18d.decodeEncode_fun]
    simp only [show pBadMap.cfg = cfgBadMap from rfl, spInit_bad]
    decide +kernel

end WhatwgUrl.Props.C18e

section AxiomCheck
open WhatwgUrl.Props.C18e
#print axioms C18e_webCfg_default
#print axioms C18e_webCfg_gsb
#print axioms C18e_webCfg_semantic
#print axioms hooksOk_gsb
#print axioms hooksOk_semantic
#print axioms C18e_parse_render
#print axioms C18e_parse_related
#print axioms C18e_spellings_same_canonical
#print axioms C18e_gsb
#print axioms C18e_semantic
#print axioms C18e_both_parse
#print axioms C18e_parse_render'
#print axioms C18e_parse_render_needs_schemes
#print axioms C18e_capstone_needs_charmap
#print axioms C18e_host_case
#print axioms C18e_host_case_partial
#print axioms C18e_host_case_Statement_false_L1
#print axioms C18e_host_case_Statement_false
#print axioms C18e_spellings_same_canonical_hostcase
#print axioms C18e_gsb_hostcase
#print axioms C18e_semantic_hostcase
end AxiomCheck
