import WhatwgUrl.Proofs.Neutral
import WhatwgUrl.Proofs.NeutralUtf8
import WhatwgUrl.Proofs.NeutralBar
import WhatwgUrl.Proofs.NeutralCollapse
/-
  C16 (second part) — the parser options that relax or extend parsing are CONSERVATIVE EXTENSIONS: each changes the
  result of `basicParser` only for inputs that contain its trigger.

  Method (helpers in `Proofs/Neutral*.lean`): the option field is read only in branches whose guard mentions the trigger,
  so the runs with the option on and off are in lock-step (`step_upd`, `loop_congr`) as long as the trigger does not occur.
  For lax host parsing the lock-step is "equal, or the strict run returns an error" (`Rel`, `loop_congr_url`).
-/
namespace WhatwgUrl.Props.C16b
open WhatwgUrl WhatwgUrl.Impl WhatwgUrl.Proofs.Neutral

/-- the trivial IDNA oracle used in the examples -/
def idI : Idna := fun s => (s, false)

/-! ### 1. skip-drive-letter-normalization: trigger `|` -/

/-- without a byte `|` in the input, skipping the Windows drive letter normalization changes nothing -/
theorem C16_skipDrive_neutral (cfg : Cfg) (I : Idna) (input : Bytes) (base url : Option Url) (ov : Option State)
    (h : (0x7c : UInt8) ∉ input) :
    basicParser { cfg with skipDrive := true } I input base url ov =
      basicParser { cfg with skipDrive := false } I input base url ov := by
  show basicParser (upd { cfg with skipDrive := false } cfg.laxHost cfg.acceptInvalid cfg.pctSingle true) I input base url ov =
      basicParser { cfg with skipDrive := false } I input base url ov
  apply basicParser_upd
  intro ps hb
  refine loop_congr _ _ NB (fun ps hI => ?_) (fun ps ps' hI hs => ?_) _ ps (by unfold NB; rw [hb]; simp)
  · refine step_upd _ _ _ _ _ I _ _ base ov ?_ (Or.inl rfl) (Or.inl rfl) ps (Or.inr hI)
    exact fun u s ns => parseHost_upd { cfg with skipDrive := false } _ _ _ I (Or.inl rfl) u s ns
  · exact step_nb _ (nb_prologue url input h) rfl ps ps' hI hs

/-- non-vacuity: `file:///C:/x` contains no `|` (and is a drive letter path, so the guarded branch is reached) -/
example : (0x7c : UInt8) ∉ lit "file:///C:/x" := by decide
example : (basicParser { Cfg.default with skipDrive := true } idI (lit "file:///C:/x") none none none).url.path.segs =
    [lit "C:", lit "x"] := by decide +kernel

/-- the hypothesis matters: `file:///C|/x` -/
example : basicParser { Cfg.default with skipDrive := true } idI (lit "file:///C|/x") none none none ≠
    basicParser { Cfg.default with skipDrive := false } idI (lit "file:///C|/x") none none none := by
  decide +kernel

/-! ### 2. accept-invalid-code-points: trigger ill-formed UTF-8 -/

/-- on well-formed UTF-8 input, accepting invalid code points changes nothing -/
theorem C16_acceptInvalid_neutral (cfg : Cfg) (I : Idna) (input : Bytes) (base url : Option Url) (ov : Option State)
    (h : validUtf8 input = true) :
    basicParser { cfg with acceptInvalid := true } I input base url ov =
      basicParser { cfg with acceptInvalid := false } I input base url ov := by
  show basicParser (upd { cfg with acceptInvalid := false } cfg.laxHost true cfg.pctSingle cfg.skipDrive) I input base url ov =
      basicParser { cfg with acceptInvalid := false } I input base url ov
  apply basicParser_upd
  intro ps _
  refine loop_congr _ _ (fun _ => True) (fun ps _ => ?_) (fun _ _ _ _ => trivial) _ ps trivial
  refine step_upd _ _ _ _ _ I _ _ base ov ?_ (Or.inr ?_) (Or.inl rfl) ps (Or.inl rfl)
  · exact fun u s ns => parseHost_upd { cfg with acceptInvalid := false } _ _ _ I (Or.inl rfl) u s ns
  · exact ciI_false _ (valid_prologue url input h)

/-- `foo://é/` and `http://\xff/` as bytes -/
def exValid : Bytes := lit "foo://" ++ [0xc3, 0xa9] ++ lit "/"
def exInvalid : Bytes := lit "http://" ++ [0xff] ++ lit "/"

/-- non-vacuity: a non-ASCII well-formed input -/
example : validUtf8 exValid = true := by decide +kernel

/-- a pre-parse-host hook that makes the content of the host buffer observable without going through the percent
    decoder (which the kernel cannot evaluate) -/
def probe : Url → Bytes → Bytes := fun _ s => if s == [0xff] then lit "[::1]" else lit "[::2]"

/-- the hypothesis matters: with the ill-formed byte 0xFF in the host the raw byte reaches the host parser only when
    the option is on -/
example : basicParser { Cfg.default with preHost := some probe, acceptInvalid := true } idI exInvalid none none none ≠
    basicParser { Cfg.default with preHost := some probe, acceptInvalid := false } idI exInvalid none none none := by
  decide +kernel

/-! ### 3. percent-encode-single-percent-sign: trigger a `%` not followed by two hex digits -/

/-- the text the state machine runs on (`prologueText url input`: the input after trimming — only for a fresh url — and
    tab/newline removal) has no `%` that is not followed by two hex digits -/
def NoLonePercent (rs : Str) : Prop :=
  ∀ k, rs[k]? = some '%' →
    ∃ a b, rs[k+1]? = some a ∧ rs[k+2]? = some b ∧ isHexN a.toNat = true ∧ isHexN b.toNat = true

theorem invalidPct_of_noLone (rs : Str) (h : NoLonePercent rs) (k : Nat) : invalidPct (rs.drop k) = false := by
  have h0 : (rs.drop k)[0]? = rs[k]? := by rw [List.getElem?_drop]; rfl
  have h1 : (rs.drop k)[1]? = rs[k+1]? := by rw [List.getElem?_drop]
  have h2 : (rs.drop k)[2]? = rs[k+2]? := by rw [List.getElem?_drop]
  generalize rs.drop k = l at h0 h1 h2
  unfold invalidPct
  match l, h0, h1, h2 with
  | [], _, _, _ => rfl
  | c0 :: rest, h0, h1, h2 =>
    by_cases hc : c0 = '%'
    · subst hc
      obtain ⟨x, y, hx, hy, hhx, hhy⟩ := h k (by rw [← h0]; rfl)
      rw [← h1] at hx; rw [← h2] at hy
      match rest, hx, hy with
      | c1 :: c2 :: _, hx, hy =>
        simp only [List.getElem?_cons_succ, List.getElem?_cons_zero, Option.some.injEq] at hx hy
        subst hx; subst hy
        simp [hhx, hhy]
    · simp [hc]

/-- a Boolean test for `NoLonePercent` (for the examples) -/
def nlpB (rs : Str) : Bool := (List.range (rs.length + 1)).all fun k => !invalidPct (rs.drop k)

theorem noLone_of_nlpB (rs : Str) (h : nlpB rs = true) : NoLonePercent rs := by
  intro k hk
  have hlt : k < rs.length := (List.getElem?_eq_some_iff.mp hk).1
  have hk' : invalidPct (rs.drop k) = false := by
    simp only [nlpB, List.all_eq_true, List.mem_range, Bool.not_eq_true'] at h
    exact h k (by omega)
  have h0 : (rs.drop k)[0]? = rs[k]? := by rw [List.getElem?_drop]; rfl
  have h1 : (rs.drop k)[1]? = rs[k+1]? := by rw [List.getElem?_drop]
  have h2 : (rs.drop k)[2]? = rs[k+2]? := by rw [List.getElem?_drop]
  rw [hk] at h0
  rw [← h1, ← h2]
  generalize rs.drop k = l at h0 hk'
  match l, h0, hk' with
  | c0 :: rest, h0, hk' =>
    simp only [List.getElem?_cons_zero, Option.some.injEq] at h0
    subst h0
    unfold invalidPct at hk'
    match rest, hk' with
    | [], hk' => simp at hk'
    | [_], hk' => simp at hk'
    | c1 :: c2 :: _, hk' =>
      simp only [beq_self_eq_true, Bool.true_and, Bool.or_eq_false_iff, Bool.not_eq_false'] at hk'
      exact ⟨c1, c2, rfl, rfl, hk'.1, hk'.2⟩

/-- the full statement (for every `cfg`).  It is FALSE when `cfg.laxHost = true` (`C16_pctSingle_neutral_Statement_false`
    below): the lax-host fallback re-encodes the IDNA output — a text that is not the input — with `PercentEncodeString`,
    which reads the option.  For `http://a%25x/` (no lone `%`) under `laxHost := true` and the identity oracle the host is
    `a%25x` with the option and `a%x` without. -/
def C16_pctSingle_neutral_Statement : Prop :=
  ∀ (cfg : Cfg) (I : Idna) (input : Bytes) (base url : Option Url) (ov : Option State),
    NoLonePercent (goRunes (prologueText url input)) →
    basicParser { cfg with pctSingle := true } I input base url ov =
      basicParser { cfg with pctSingle := false } I input base url ov

/-- without a lone `%` in the text, and with strict host parsing, percent-encoding single percent signs changes nothing -/
theorem C16_pctSingle_neutral_partial (cfg : Cfg) (hl : cfg.laxHost = false) (I : Idna) (input : Bytes)
    (base url : Option Url) (ov : Option State) (h : NoLonePercent (goRunes (prologueText url input))) :
    basicParser { cfg with pctSingle := true } I input base url ov =
      basicParser { cfg with pctSingle := false } I input base url ov := by
  show basicParser (upd { cfg with pctSingle := false } cfg.laxHost cfg.acceptInvalid true cfg.skipDrive) I input base url ov =
      basicParser { cfg with pctSingle := false } I input base url ov
  apply basicParser_upd
  intro ps _
  refine loop_congr _ _ (fun _ => True) (fun ps _ => ?_) (fun _ _ _ _ => trivial) _ ps trivial
  refine step_upd _ _ _ _ _ I _ _ base ov ?_ (Or.inl rfl) (Or.inr ?_) ps (Or.inl rfl)
  · exact fun u s ns => parseHost_upd { cfg with pctSingle := false } _ _ _ I (Or.inr hl) u s ns
  · intro ps
    exact invalidPct_of_noLone _ h _

/-- non-vacuity: `foo:/a%20b` has a `%`, but no lone one -/
example : NoLonePercent (goRunes (prologueText none (lit "foo:/a%20b"))) := noLone_of_nlpB _ (by decide +kernel)

/-- the hypothesis matters: `foo:/a%zz` -/
example : basicParser { Cfg.default with pctSingle := true } idI (lit "foo:/a%zz") none none none ≠
    basicParser { Cfg.default with pctSingle := false } idI (lit "foo:/a%zz") none none none := by
  decide +kernel

/-! The refutation of the full statement.  The percent decoder is compiled by well-founded recursion, so the kernel cannot
    evaluate a whole run through the domain branch of the host parser.  The run on `http://a%25x/` is therefore evaluated
    in three stages: 18 iterations by the kernel, the iteration that calls the host parser by rewriting with the value of
    `parseHost` (obtained through the equation lemmas of the percent decoder), the rest by the kernel.  Under lax host
    parsing the host `a%25x` decodes to `a%x`, the forbidden `%` triggers the fallback encoder, and the option decides
    between `a%25x` and `a%x`. -/

private theorem decodePercent_ex (c : Cfg) (h : c.encOverride = none) :
    decodePercent c [0x61, 0x25, 0x32, 0x35, 0x78] = [0x61, 0x25, 0x78] := by
  simp [decodePercent, h]
  decide

private theorem parseHost_ex (c : Cfg) (hp : c.preHost = none) (u : Url) (ns : Bool) :
    parseHost c idI u (lit "a%25x") ns = parseHostCore c idI u [0x61, 0x25, 0x32, 0x35, 0x78] ns := by
  rw [parseHost_core, hp]
  rfl

def cLaxT : Cfg := { Cfg.default with laxHost := true, pctSingle := true }
def cLaxF : Cfg := { Cfg.default with laxHost := true, pctSingle := false }

deriving instance DecidableEq for PS
deriving instance DecidableEq for StepR

/-- `n` iterations of the loop body -/
def runTo (e : Env) : Nat → PS → StepR
  | 0, ps => .cont ps
  | n + 1, ps =>
    match step e ps with
    | .cont ps' => runTo e n ps'
    | .done r => .done r

theorem loop_runTo (e : Env) : ∀ (n m : Nat) (ps : PS),
    loop e (n + m) ps = match runTo e n ps with | .cont ps' => loop e m ps' | .done r => r := by
  intro n
  induction n with
  | zero => intro m ps; simp [runTo]
  | succ n ih =>
    intro m ps
    rw [Nat.add_right_comm]
    simp only [loop, runTo]
    cases step e ps with
    | cont ps' => exact ih m ps'
    | done r => rfl

def exSrc : Bytes := lit "http://a%25x/"
def exEnv (c : Cfg) : Env := ⟨c, idI, exSrc, goRunes exSrc, none, none⟩
def exPs0 : PS := { state := .schemeStart, pointer := -1, eof := false, buffer := [], atFlag := false,
                    bracketFlag := false, pwSeen := false, url := {} }
def exPsA : PS := { state := .host, pointer := 11, eof := false, buffer := lit "a%25x", atFlag := false,
                    bracketFlag := false, pwSeen := false, url := { scheme := lit "http" } }

theorem ex_stage1T : runTo (exEnv cLaxT) 18 exPs0 = .cont exPsA := by decide +kernel
theorem ex_stage1F : runTo (exEnv cLaxF) 18 exPs0 = .cont exPsA := by decide +kernel

def exHost (c : Cfg) : Bytes := if c.pctSingle then lit "a%25x" else lit "a%x"
def exPsB (c : Cfg) : PS :=
  { state := .pathStart, pointer := 11, eof := false, buffer := [], atFlag := false, bracketFlag := false, pwSeen := false,
    url := { scheme := lit "http", host := some (exHost c), qlog := [lit "a%x"] } }

theorem ex_parseHostT : parseHost cLaxT idI { scheme := lit "http" } (lit "a%25x") false =
    ⟨{ scheme := lit "http", qlog := [lit "a%x"] }, .ok (lit "a%25x")⟩ := by
  rw [parseHost_ex cLaxT rfl]
  simp only [parseHostCore, decodePercent_ex cLaxT rfl]
  decide +kernel

theorem ex_parseHostF : parseHost cLaxF idI { scheme := lit "http" } (lit "a%25x") false =
    ⟨{ scheme := lit "http", qlog := [lit "a%x"] }, .ok (lit "a%x")⟩ := by
  rw [parseHost_ex cLaxF rfl]
  simp only [parseHostCore, decodePercent_ex cLaxF rfl]
  decide +kernel

/-- the host-end step, with the host parser call exposed -/
theorem ex_step (c : Cfg) (hs : c = cLaxT ∨ c = cLaxF) :
    step (exEnv c) exPsA =
      bottom (afterHost (parseHost c idI { scheme := lit "http" } (lit "a%25x") false)
        { exPsA with pointer := 11 }
        fun ps h => .cont { ps with url := { ps.url with host := some h }, buffer := [], state := .pathStart }) := by
  rcases hs with h | h <;> subst h <;> rfl

theorem ex_stage2T : step (exEnv cLaxT) exPsA = .cont (exPsB cLaxT) := by
  rw [ex_step cLaxT (Or.inl rfl), ex_parseHostT]; decide +kernel

theorem ex_stage2F : step (exEnv cLaxF) exPsA = .cont (exPsB cLaxF) := by
  rw [ex_step cLaxF (Or.inr rfl), ex_parseHostF]; decide +kernel

theorem ex_stage3T : (loop (exEnv cLaxT) 341 (exPsB cLaxT)).url.host = some (lit "a%25x") := by decide +kernel
theorem ex_stage3F : (loop (exEnv cLaxF) 341 (exPsB cLaxF)).url.host = some (lit "a%x") := by decide +kernel

theorem loop_succ (e : Env) (n : Nat) (ps : PS) :
    loop e (n + 1) ps = match step e ps with | .cont ps' => loop e n ps' | .done r => r := rfl

theorem ex_loopT : (loop (exEnv cLaxT) 360 exPs0).url.host = some (lit "a%25x") := by
  rw [show (360 : Nat) = 18 + (341 + 1) from rfl, loop_runTo, ex_stage1T]
  simp only []
  rw [loop_succ, ex_stage2T]
  exact ex_stage3T

theorem ex_loopF : (loop (exEnv cLaxF) 360 exPs0).url.host = some (lit "a%x") := by
  rw [show (360 : Nat) = 18 + (341 + 1) from rfl, loop_runTo, ex_stage1F]
  simp only []
  rw [loop_succ, ex_stage2F]
  exact ex_stage3F

theorem ex_basicParser (c : Cfg) (hs : c = cLaxT ∨ c = cLaxF) :
    basicParser c idI exSrc none none none = loop (exEnv c) 360 exPs0 := by
  rcases hs with h | h <;> subst h <;> rfl

/-- the full statement of option 3 is false -/
theorem C16_pctSingle_neutral_Statement_false : ¬ C16_pctSingle_neutral_Statement := by
  intro h
  have h1 := h { Cfg.default with laxHost := true } idI exSrc none none none (noLone_of_nlpB _ (by decide +kernel))
  have h2 : (basicParser cLaxT idI exSrc none none none).url.host = (basicParser cLaxF idI exSrc none none none).url.host :=
    congrArg (fun r => r.url.host) h1
  rw [ex_basicParser cLaxT (Or.inl rfl), ex_basicParser cLaxF (Or.inr rfl), ex_loopT, ex_loopF] at h2
  revert h2
  decide

/-! ### 4. lax host parsing: trigger "the strict parser fails" -/

/-- on inputs the strict parser accepts, lax host parsing changes nothing -/
theorem C16_lax_neutral (cfg : Cfg) (I : Idna) (input : Bytes) (base url : Option Url) (ov : Option State) :
    (basicParser { cfg with laxHost := false } I input base url ov).ret = .url →
    basicParser { cfg with laxHost := true } I input base url ov =
      basicParser { cfg with laxHost := false } I input base url ov := by
  intro hu
  exact basicParser_lax { cfg with laxHost := false } rfl I input base url ov hu

/-- non-vacuity: the strict parser accepts `foo://a.b/x` -/
example : (basicParser { Cfg.default with laxHost := false } idI (lit "foo://a.b/x") none none none).ret = .url := by
  decide +kernel

/-- the hypothesis matters: a forbidden host code point is rejected by the strict parser and kept by the lax parser -/
example : (basicParser { Cfg.default with laxHost := false } idI (lit "foo://a^b/x") none none none).ret ≠ .url ∧
    (basicParser { Cfg.default with laxHost := true } idI (lit "foo://a^b/x") none none none).ret = .url := by
  decide +kernel

/-! ### 5. collapse-consecutive-slashes: trigger "a segment is appended after an empty last segment" -/

/-- a candidate statement with a hypothesis on the RESULT of the non-collapsing parser ("its path has no empty non-final
    segment").  It is false: `..` can remove the evidence. -/
def C16_collapse_neutral_Statement : Prop :=
  ∀ (cfg : Cfg) (I : Idna) (input : Bytes) (base url : Option Url) (ov : Option State),
    (∀ s ∈ (basicParser { cfg with collapse := false } I input base url ov).url.path.segs.dropLast, s ≠ []) →
    basicParser { cfg with collapse := true } I input base url ov =
      basicParser { cfg with collapse := false } I input base url ov

/-- counterexample: `http://[::1]/a//x/../../y` gives `/a/y` without and `/y` with the option -/
theorem C16_collapse_neutral_Statement_false : ¬ C16_collapse_neutral_Statement := by
  intro h
  have := h Cfg.default idI (lit "http://[::1]/a//x/../../y") none none none (by decide +kernel)
  revert this
  decide +kernel

/-- the option is neutral when the run of the non-collapsing parser never visits a state satisfying `collapseTrig`
    (path state, special scheme, non-empty path whose last segment is empty); `parserVisits` is `basicParser` with the
    loop replaced by "does the loop visit such a state", so the hypothesis is decidable by evaluation -/
theorem C16_collapse_neutral_partial (cfg : Cfg) (I : Idna) (input : Bytes) (base url : Option Url) (ov : Option State)
    (h : parserVisits { cfg with collapse := false } I input base url ov (collapseTrig cfg) = false) :
    basicParser { cfg with collapse := true } I input base url ov =
      basicParser { cfg with collapse := false } I input base url ov :=
  basicParser_updC { cfg with collapse := false } true I input base url ov h

/-- non-vacuity: an ordinary special url with a path, a dot segment and a trailing slash -/
example : parserVisits { Cfg.default with collapse := false } idI (lit "http://[::1]/a/./b/") none none none
    (collapseTrig Cfg.default) = false := by decide +kernel

/-- the hypothesis matters: `http://[::1]/a//b` -/
example : basicParser { Cfg.default with collapse := true } idI (lit "http://[::1]/a//b") none none none ≠
    basicParser { Cfg.default with collapse := false } idI (lit "http://[::1]/a//b") none none none := by
  decide +kernel

/-- a purely syntactic trigger ("two adjacent slashes in the path") would not do: with skip-trailing-slash normalization
    the path `\x` of a special url starts with an empty segment -/
example : basicParser { Cfg.default with skipTrailingSlash := true, collapse := true } idI (lit "http://[::1]\\x") none none none ≠
    basicParser { Cfg.default with skipTrailingSlash := true, collapse := false } idI (lit "http://[::1]\\x") none none none := by
  decide +kernel

end WhatwgUrl.Props.C16b
