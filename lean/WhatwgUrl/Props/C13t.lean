import WhatwgUrl.Proofs.Heap
import WhatwgUrl.Generated.Facts
import WhatwgUrl.Props.C13
import WhatwgUrl.Props.C14t
/-
  C13t — the part of C13 that is stated over facts REGENERATED from the Go source on every run (T1).
  Kept in a module of its own (imported by no model-level module) so that a change of the source that breaks one of
  these obligations does not take the model-level theorems of other properties down with it.
-/
namespace WhatwgUrl.Props.C13t
open WhatwgUrl WhatwgUrl.Impl WhatwgUrl.Proofs
open WhatwgUrl.Props.C13

/-! ### facts regenerated from the Go source (T1) -/

/-- from the typed mod/ref summary (`harness/modref.go`): `BasicParser` never stores to its base parameter, stores no
    reference reachable from it into the url under construction, and returns a new object or its third parameter; the
    entry points return new objects and store to nothing -/
theorem C13_base_never_modified_or_shared : ∀ e ∈ C14t.allMR,
    (e.name = "parser.BasicParser" → "param1" ∉ e.writes ∧ e.aliases = [] ∧ e.returns = ["fresh", "param2"]) ∧
    (e.name ∈ ["Url.Parse", "parser.Parse", "parser.ParseRef", "Parse", "ParseRef"] → e.writes = [] ∧ e.returns = ["fresh"]) := by decide +kernel

/-- `Clone` stores to nothing and returns a new object none of whose fields leads back into the original, except — as far
    as the flow-insensitive analysis can tell — through `searchParams` (the list's back pointer is first copied, then
    re-targeted to the clone; that the final heap is separated is `C13_clone_separated`, on the model). A shallow copy of
    the path or of a string pointer (`path: u.path`) would add `fresh.path>recv` here. -/
theorem C13_clone_is_deep : ∀ e ∈ C14t.allMR,
    (e.name = "Url.Clone" → e.writes = [] ∧ ∀ r ∈ e.returns, r = "fresh" ∨ r = "fresh.searchParams>recv") ∧
    (e.name = "SearchParams.Clone" → e.writes = [] ∧ ∀ r ∈ e.returns, r = "fresh" ∨ r = "fresh.url>recv") := by decide +kernel

theorem C13_summary_covers : "Url.Clone" ∈ C14t.allMR.map C14t.MR.name ∧ "SearchParams.Clone" ∈ C14t.allMR.map C14t.MR.name ∧
    "parser.BasicParser" ∈ C14t.allMR.map C14t.MR.name := by decide +kernel


end WhatwgUrl.Props.C13t
