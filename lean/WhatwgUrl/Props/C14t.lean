import WhatwgUrl.Impl.Heap
import WhatwgUrl.Generated.Facts
import WhatwgUrl.Props.C14
/-
  C14t — the part of C14 that is stated over facts REGENERATED from the Go source on every run (T1).
  Kept in a module of its own (imported by no model-level module) so that a change of the source that breaks one of
  these obligations does not take the model-level theorems of other properties down with it.
-/
namespace WhatwgUrl.Props.C14t
open WhatwgUrl WhatwgUrl.Impl
open WhatwgUrl.Props.C14

/-- no function outside `init` assigns a package-level variable or calls a mutating bitset method on one -/
theorem C14_tables_readonly : Generated.globalWritesUrl = [] ∧ Generated.globalWritesCanon = [] := by decide

/-- nothing the syntactic analysis cannot see: no unsafe, reflect, sync, goroutines or channels in the two packages -/
theorem C14_no_exotic_features : Generated.exoticFeatures = [] := by decide

/-! ### the typed mod/ref summary (regenerated: `harness/modref.go`, go/types; flow-insensitive, interprocedural)

Entry format: `(function, exported, writes, returns, aliases, external calls on shared objects)`; regions are `recv`,
`param<i>`, `global`. The theorems quantify over the EXPORTED functions by name (renaming or moving an unexported helper,
extracting code into a new helper, or reordering declarations changes no statement below); unexported functions only occur
under "for every function". -/

abbrev MR := String × Bool × List String × List String × List String × List (String × String)
def MR.name (e : MR) := e.1
def MR.api (e : MR) := e.2.1
def MR.writes (e : MR) := e.2.2.1
def MR.returns (e : MR) := e.2.2.2.1
def MR.aliases (e : MR) := e.2.2.2.2.1
def MR.extern (e : MR) := e.2.2.2.2.2

def allMR : List MR := Generated.modrefUrl ++ Generated.modrefCanon

/-- the documented mutators of the API and the only regions each may store to: the setters, the list mutators and
    `Iterate` (which writes the list back) through their receiver; `Url.SearchParams()` creates the list lazily (which is
    why a URL shared between goroutines must not be asked for its SearchParams concurrently, and why `Clone` must not call
    it: F10); `SetSearchParams` additionally re-targets its argument; `Canonicalize` rewrites its argument; `BasicParser`
    stores to its third parameter only (the url under construction: nil for a parse, the receiver for a setter) -/
def mutators : List (String × List String) := [
  ("Url.SetProtocol", ["recv"]), ("Url.SetUsername", ["recv"]), ("Url.SetPassword", ["recv"]), ("Url.SetHost", ["recv"]),
  ("Url.SetHostname", ["recv"]), ("Url.SetPort", ["recv"]), ("Url.SetPathname", ["recv"]), ("Url.SetSearch", ["recv"]),
  ("Url.SetHash", ["recv"]), ("Url.SetSearchParams", ["recv", "param0"]), ("Url.SearchParams", ["recv"]),
  ("SearchParams.Append", ["recv"]), ("SearchParams.Delete", ["recv"]), ("SearchParams.Set", ["recv"]),
  ("SearchParams.Sort", ["recv"]), ("SearchParams.SortAbsolute", ["recv"]), ("SearchParams.Iterate", ["recv"]),
  ("profile.Canonicalize", ["param0"]), ("parser.BasicParser", ["param2"])]

/-- no exported function other than the documented mutators stores to any object that existed before the call — in
    particular no getter, not `Href`/`String`, not `Clone`, not `Parse`/`ParseRef`/`(*Url).Parse` (the base!), no
    `PercentEncodeSet` operation, no profile's `Parse`; option constructors only build closures -/
theorem C14_readonly_api : ∀ e ∈ allMR, e.api = true → (mutators.lookup e.name).isNone → e.writes = [] := by decide +kernel

/-- the documented mutators store only where the table says (never to a base, never to package-level state) -/
theorem C14_mutators_scope : ∀ e ∈ allMR, e.api = true → ∀ m ∈ mutators, m.1 = e.name → ∀ r ∈ e.writes, r ∈ m.2 := by decide +kernel

/-- no function at all, exported or not, stores to package-level state — except `init`, which runs before any other code
    of the package can (it builds the tables, through external calls listed below or by assigning a derived table) -/
theorem C14_no_function_writes_globals : ∀ e ∈ allMR, e.name ≠ "init" → "global" ∉ e.writes := by decide +kernel

/-- methods of types defined outside the two packages that an exported function (through any chain of helpers: the
    summary is interprocedural) calls on shared objects are readers (bit tests, clones,
    table lookups, the IDNA profile), with two documented exceptions: `init` fills the package tables, and
    `SearchParams.QueryEscape` appends to the `strings.Builder` its caller passes in -/
def externalReaders : List String := ["bitset.BitSet.Test", "bitset.BitSet.Clone", "charmap.Charmap.EncodeRune", "charmap.Charmap.DecodeByte",
  "charmap.Charmap.String", "idna.Profile.ToASCII"]

theorem C14_external_calls_read_only : ∀ e ∈ allMR, (e.api = true ∨ e.name = "init") → ∀ x ∈ e.extern,
    x.1 ∈ externalReaders ∨ e.name = "init" ∨
    (e.name = "SearchParams.QueryEscape" ∧ x.2 = "param1" ∧ x.1 ∈ ["strings.Builder.WriteRune", "strings.Builder.WriteString"]) := by decide +kernel

/-- the entry points take a base: it is never stored to, nothing reachable from it is stored into the result, and the
    result is a new object (`BasicParser`: new, or its third parameter) -/
theorem C14_base_untouched : ∀ e ∈ allMR,
    (e.name = "parser.BasicParser" → "param1" ∉ e.writes ∧ e.aliases = [] ∧ e.returns = ["fresh", "param2"]) ∧
    (e.name ∈ ["Url.Parse", "parser.Parse", "parser.ParseRef", "Parse", "ParseRef", "profile.Parse", "profile.ParseRef"] → e.writes = [] ∧ e.returns = ["fresh"]) := by
  decide +kernel

/-- non-vacuity: the functions named above exist in the regenerated summary -/
theorem C14_summary_covers : ∀ n ∈ ["parser.BasicParser", "Url.Parse", "parser.Parse", "parser.ParseRef", "Parse", "ParseRef", "profile.Parse", "profile.ParseRef",
    "Url.Href", "Url.Clone", "Url.Hostname", "SearchParams.Get", "SearchParams.String", "PercentEncodeSet.Set", "profile.Canonicalize", "Url.SetHash"],
    n ∈ allMR.map MR.name := by decide +kernel


end WhatwgUrl.Props.C14t
