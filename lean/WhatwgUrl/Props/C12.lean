import WhatwgUrl.Proofs.Heap
/-
  C12 — a URL and its SearchParams describe the same query.
  Property theorems only; the primitives' characterisation lemmas live in Proofs/Heap.lean.
-/
namespace WhatwgUrl.Props.C12
open WhatwgUrl WhatwgUrl.Impl WhatwgUrl.Proofs

/-- after any SearchParams mutation through the URL's own list, Query equals the list's serialization -/
theorem C12_write_through (H : Heap) (i s : Nat) (m : Heap.SpMut) (o : UrlObj) (so : SpObj)
    (ho : H.urls[i]? = some o) (hs : o.sp = some s) (hso : H.sps[s]? = some so) (hown : so.url = some i) :
    let H' := H.spMutate s m
    ∃ o' so', H'.urls[i]? = some o' ∧ H'.sps[s]? = some so' ∧ so'.params = Heap.applyMut m so.params ∧
      o'.sp = some s ∧ queryG o'.u = spString o.cfg so'.params ∧
      (search o'.u = if spString o.cfg so'.params = [] then [] else 0x3f :: spString o.cfg so'.params) := by
  intro H'
  have h1 : (H.setSp s fun o => { o with params := Heap.applyMut m o.params }).sps[s]? =
      some { so with params := Heap.applyMut m so.params } := by
    rw [Heap.setSp_sps_self, hso]; rfl
  have h2 : (H.setSp s fun o => { o with params := Heap.applyMut m o.params }).urls[i]? = some o := by
    rw [Heap.setSp_urls]; exact ho
  obtain ⟨o', ho', hsp, _, hq, hsr, _⟩ := Heap.spUpdate_urls_owner _ s i _ o h1 hown h2
  refine ⟨o', { so with params := Heap.applyMut m so.params }, ho', ?_, rfl, hsp.trans hs, hq, hsr⟩
  show ((H.setSp s fun o => { o with params := Heap.applyMut m o.params }).spUpdate s).sps[s]? = _
  rw [Heap.spUpdate_sps]; exact h1

/-- in invariant form: a mutation through the URL's own list (re-)establishes `InSync`, whatever the state before -/
theorem C12_write_through_inSync (H : Heap) (i s : Nat) (m : Heap.SpMut) (o : UrlObj) (so : SpObj)
    (ho : H.urls[i]? = some o) (hs : o.sp = some s) (hso : H.sps[s]? = some so) (hown : so.url = some i) :
    InSync (H.spMutate s m) i ∧ OwnSp (H.spMutate s m) i := by
  have h1 : (H.setSp s fun o => { o with params := Heap.applyMut m o.params }).sps[s]? =
      some { so with params := Heap.applyMut m so.params } := by
    rw [Heap.setSp_sps_self, hso]; rfl
  have h2 : (H.setSp s fun o => { o with params := Heap.applyMut m o.params }).urls[i]? = some o := by
    rw [Heap.setSp_urls]; exact ho
  obtain ⟨o', ho', hsp, hcfg, hq, _, _⟩ := Heap.spUpdate_urls_owner _ s i _ o h1 hown h2
  have hsps : (H.spMutate s m).sps[s]? = some { so with params := Heap.applyMut m so.params } := by
    show ((H.setSp s fun o => { o with params := Heap.applyMut m o.params }).spUpdate s).sps[s]? = _
    rw [Heap.spUpdate_sps]; exact h1
  have hu : (H.spMutate s m).urls[i]? = some o' := ho'
  constructor
  · intro o2 ho2 s2 hs2 so2 hso2
    rw [hu] at ho2; cases ho2
    rw [hsp, hs] at hs2; cases hs2
    rw [hsps] at hso2; cases hso2
    rw [hcfg]; exact hq
  · intro o2 ho2 s2 hs2
    rw [hu] at ho2; cases ho2
    rw [hsp, hs] at hs2; cases hs2
    exact ⟨_, hsps, hown⟩

/-- after SetSearch the list is the urlencoded parse of the new query, and it is empty after the query is cleared;
    the list object (handle) stays the same object -/
theorem C12_reinit (I : Idna) (H : Heap) (i s : Nat) (v : Bytes) (o : UrlObj) (so : SpObj)
    (ho : H.urls[i]? = some o) (hs : o.sp = some s) (hso : H.sps[s]? = some so) (hown : so.url = some i) :
    let r := H.setSearch I i v
    (∀ n, r.2 ≠ .panic n) → ∃ o' so', r.1.urls[i]? = some o' ∧ o'.sp = some s ∧ r.1.sps[s]? = some so' ∧ so'.url = some i ∧
      (v = [] → so'.params = [] ∧ o'.u.query = none) ∧
      (v ≠ [] → ∃ q, o'.u.query = some q ∧ so'.params = spInit o.cfg q) := by
  intro r hnp
  have hu1 : (H.setValue i (setSearchU o.cfg I o.u v)).urls[i]? = some { o with u := (setSearchU o.cfg I o.u v).url } := by
    rw [Heap.setValue_urls_self, ho]; rfl
  have hs1 : (H.setValue i (setSearchU o.cfg I o.u v)).sps[s]? = some so := by
    rw [Heap.setValue_sps]; exact hso
  cases v with
  | nil =>
    have hr : r = ((H.setValue i (setSearchU o.cfg I o.u [])).setSp s fun o => { o with params := [] },
                    (setSearchU o.cfg I o.u []).ret) := by
      show H.setSearch I i [] = _
      unfold Heap.setSearch
      simp only [ho, hs, List.isEmpty_nil, if_true]
    refine ⟨{ o with u := (setSearchU o.cfg I o.u []).url }, { so with params := [] }, ?_, hs, ?_, hown, ?_, ?_⟩
    · rw [hr]; show ((H.setValue i _).setSp s _).urls[i]? = _
      rw [Heap.setSp_urls]; exact hu1
    · rw [hr]; show ((H.setValue i _).setSp s _).sps[s]? = _
      rw [Heap.setSp_sps_self, hs1]; rfl
    · intro _
      refine ⟨rfl, ?_⟩
      show (setSearchU o.cfg I o.u []).url.query = none
      unfold setSearchU
      simp only [List.isEmpty_nil, if_true]
      split
      · split <;> rfl
      · rfl
    · intro h; exact absurd rfl h
  | cons c w =>
    have hown1 : (so.url.bind ((H.setValue i (setSearchU o.cfg I o.u (c :: w))).urls[·]?)) =
        some { o with u := (setSearchU o.cfg I o.u (c :: w)).url } := by
      rw [hown]; exact hu1
    cases hq : (setSearchU o.cfg I o.u (c :: w)).url.query with
    | none =>
      have hr : r.2 = .panic 31 := by
        show (H.setSearch I i (c :: w)).2 = _
        unfold Heap.setSearch
        simp only [ho, hs, hs1, hown1, hq, List.isEmpty_cons, Bool.false_eq_true, if_false]
      exact absurd hr (hnp 31)
    | some q =>
      have hr : r = ((H.setValue i (setSearchU o.cfg I o.u (c :: w))).setSp s fun o' => { o' with params := spInit o.cfg q },
                      (setSearchU o.cfg I o.u (c :: w)).ret) := by
        show H.setSearch I i (c :: w) = _
        unfold Heap.setSearch
        simp only [ho, hs, hs1, hown1, hq, List.isEmpty_cons, Bool.false_eq_true, if_false]
      refine ⟨{ o with u := (setSearchU o.cfg I o.u (c :: w)).url }, { so with params := spInit o.cfg q }, ?_, hs, ?_, hown, ?_, ?_⟩
      · rw [hr]; show ((H.setValue i _).setSp s _).urls[i]? = _
        rw [Heap.setSp_urls]; exact hu1
      · rw [hr]; show ((H.setValue i _).setSp s _).sps[s]? = _
        rw [Heap.setSp_sps_self, hs1]; rfl
      · intro h; cases h
      · intro _; exact ⟨q, hq, rfl⟩

/-- the other eight setters never touch the list, and they change the query only by what the value-level setter does -/
theorem C12_frame_list (I : Idna) (H : Heap) (i : Nat) (st : Setter) (v : Bytes) (hst : st ≠ .search) :
    (H.set I i st v).1.sps = H.sps ∧ ∀ o, H.urls[i]? = some o → ∃ o', (H.set I i st v).1.urls[i]? = some o' ∧ o'.sp = o.sp ∧ o'.u = (setU o.cfg I st o.u v).url := by
  rw [Heap.set_eq_of_ne_search I H i st v hst]
  cases h : H.urls[i]? with
  | none => exact ⟨rfl, fun o ho => by cases ho⟩
  | some uo =>
    refine ⟨Heap.setValue_sps _ _ _, ?_⟩
    intro o ho; cases ho
    refine ⟨{ uo with u := (setU uo.cfg I st uo.u v).url }, ?_, rfl, rfl⟩
    show (H.setValue i _).urls[i]? = _
    rw [Heap.setValue_urls_self, h]; rfl

/-- lazily creating the list establishes the invariant: the new list is the urlencoded parse of the current query and points back -/
theorem C12_lazy_creation (H : Heap) (i : Nat) (o : UrlObj) (ho : H.urls[i]? = some o) (hn : o.sp = none) :
    let r := H.searchParams i
    ∃ s so o', r.2 = some s ∧ r.1.urls[i]? = some o' ∧ o'.sp = some s ∧ o'.u = o.u ∧ r.1.sps[s]? = some so ∧ so.url = some i ∧
      so.params = (match o.u.query with | some q => spInit o.cfg q | none => []) := by
  intro r
  have hu : (H.newUrlSearchParams i).urls[i]? = some { o with sp := some H.sps.length } := by
    rw [Heap.newUrlSearchParams_urls H i o ho]; simp
  have hr : r = (H.newUrlSearchParams i, some H.sps.length) := by
    show H.searchParams i = _
    unfold Heap.searchParams
    simp only [ho, hn, hu]
    rfl
  refine ⟨H.sps.length, { url := some i, params := (match o.u.query with | some q => spInit o.cfg q | none => []) },
    { o with sp := some H.sps.length }, ?_, ?_, rfl, rfl, ?_, rfl, ?_⟩
  · rw [hr]
  · rw [hr]; exact hu
  · rw [hr]; show (H.newUrlSearchParams i).sps[H.sps.length]? = _
    rw [Heap.newUrlSearchParams_sps H i o ho]; simp
    cases o.u.query <;> rfl
  · cases o.u.query <;> rfl

/-! ### non-vacuity: the hypotheses of the theorems above hold on concrete heaps, and a concrete write-through run -/

/-- `http://h/?a=1` -/
def exU : Url := { scheme := lit "http", host := some (lit "h"), path := ⟨[[]], false⟩, query := some (lit "a=1") }
/-- one url object, no list yet -/
def exH0 : Heap := { urls := [{ u := exU, sp := none, cfg := {} }], sps := [] }
/-- the same object with its own list holding `p` -/
def exH1 (p : Pairs) : Heap := { urls := [{ u := exU, sp := some 0, cfg := {} }], sps := [{ url := some 0, params := p }] }
/-- an IDNA oracle (not consulted by the query state) -/
def exI : Idna := fun b => (b, false)

/-- lazy creation on `exH0` yields `exH1` with the parsed query
    (`decodePercent` is compiled by well-founded recursion, so `spInit` has to be evaluated by `simp`, not `decide`) -/
theorem ex_spInit : spInit {} (lit "a=1") = [(lit "a", lit "1")] := by
  have h1 : lit "a=1" = [0x61, 0x3d, 0x31] := by decide
  have h2 : lit "a" = [0x61] := by decide
  have h3 : lit "1" = [0x31] := by decide
  rw [h1, h2, h3]
  simp [spInit, splitOn, splitFirst, replaceByte, decodePercent]

theorem ex_lazy : (exH0.searchParams 0).1 = exH1 [(lit "a", lit "1")] := by
  show exH1 (spInit {} (lit "a=1")) = _
  rw [ex_spInit]

-- hypotheses of `C12_lazy_creation` (an object without a list) and its instance
example : exH0.urls[0]? = some { u := exU, sp := none, cfg := {} } ∧ (exH0.searchParams 0).2 = some 0 := ⟨rfl, rfl⟩
example := C12_lazy_creation exH0 0 _ rfl rfl

-- hypotheses of `C12_write_through` (object 0 has list 0, which points back at 0) and its instance
example (p : Pairs) (m : Heap.SpMut) := C12_write_through (exH1 p) 0 0 m _ _ rfl rfl rfl rfl
example (p : Pairs) : OwnSp (exH1 p) 0 := by
  intro o ho s hs
  cases ho; cases hs
  exact ⟨_, rfl, rfl⟩

/-- the concrete run: `http://h/?a=1`, `SearchParams()`, `Append("b","2")` gives query `a=1&b=2`, search `?a=1&b=2`,
    href `http://h/?a=1&b=2`, and the list `[(a,1),(b,2)]` -/
example :
    ((((exH0.searchParams 0).1.spMutate 0 (.append (lit "b") (lit "2"))).urls[0]?).map
        fun o => (queryG o.u, search o.u, href o.u false)) =
      some (lit "a=1&b=2", lit "?a=1&b=2", lit "http://h/?a=1&b=2") ∧
    ((((exH0.searchParams 0).1.spMutate 0 (.append (lit "b") (lit "2"))).sps[0]?).map (·.params)) =
      some [(lit "a", lit "1"), (lit "b", lit "2")] := by
  rw [ex_lazy]; decide +kernel

/-- deleting the only parameter: the list serializes to the empty string, `Query()` and `Search()` are empty -/
example :
    ((((exH1 [(lit "a", lit "1")]).spMutate 0 (.delete (lit "a"))).urls[0]?).map fun o => (o.u.query, search o.u)) =
      some (some [], []) := by decide +kernel

-- hypotheses of `C12_reinit`: the inner parser call does not panic (it returns the url), for a non-empty and for the empty value
theorem ex_reinit_ret (p : Pairs) : ((exH1 p).setSearch exI 0 (lit "?x=1&y=2")).2 = .url := by
  have : ∀ q, ((exH1 q).setSearch exI 0 (lit "?x=1&y=2")).2 = ((exH1 []).setSearch exI 0 (lit "?x=1&y=2")).2 := fun _ => rfl
  rw [this]; decide +kernel
example (p : Pairs) : ∀ n, ((exH1 p).setSearch exI 0 (lit "?x=1&y=2")).2 ≠ .panic n := by
  intro n; rw [ex_reinit_ret]; exact fun h => by cases h
example (p : Pairs) : ∀ n, ((exH1 p).setSearch exI 0 []).2 ≠ .panic n := by
  have : ((exH1 p).setSearch exI 0 []).2 = .url := rfl
  intro n; rw [this]; exact fun h => by cases h
example (p : Pairs) := C12_reinit exI (exH1 p) 0 0 (lit "?x=1&y=2") _ _ rfl rfl rfl rfl
/-- the new query after `SetSearch("?x=1&y=2")` -/
example : ((((exH1 []).setSearch exI 0 (lit "?x=1&y=2")).1.urls[0]?).map fun o => o.u.query) = some (some (lit "x=1&y=2")) := by
  decide +kernel

-- hypothesis of `C12_frame_list`
example : Setter.hash ≠ Setter.search := by decide
example (p : Pairs) := (C12_frame_list exI (exH1 p) 0 .hash (lit "f") (by decide)).2 _ rfl

end WhatwgUrl.Props.C12
