import WhatwgUrl.Impl.Api
import WhatwgUrl.Spec.Url
/-
  C05 — setters implement the standard's API setter algorithms.
  The whole statement is kept as `C05_setters_conform_Statement` and decided on every run by the Go-versus-Spec search over
  setter histories; proved here: the wrapper logic around the parser re-entry (guards, empty values, leading delimiters).
-/
namespace WhatwgUrl.Props.C05
open WhatwgUrl WhatwgUrl.Impl

/-- the guard "cannot have a username/password/port" is the standard's: host null or empty, or scheme file -/
theorem C05_guard (u : Url) : cannotHaveUPP u = (u.host == none || u.host == some [] || u.scheme == lit "file") := rfl

/-- username / password / port setters change nothing when the guard holds -/
theorem C05_guarded_setters_noop (cfg : Cfg) (I : Idna) (u : Url) (v : Bytes) (h : cannotHaveUPP u = true) :
    (setUsername cfg u v).url = u ∧ (setPassword cfg u v).url = u ∧ (setPort cfg I u v).url = u := by
  simp [setUsername, setPassword, setPort, h, keep]

/-- host, hostname and pathname setters change nothing on a URL with an opaque path -/
theorem C05_opaque_guard (cfg : Cfg) (I : Idna) (u : Url) (v : Bytes) (h : u.path.opq = true) :
    (setHost cfg I u v).url = u ∧ (setHostname cfg I u v).url = u ∧ (setPathname cfg I u v).url = u := by
  simp [setHost, setHostname, setPathname, h, keep]

/-- the username / password setters store exactly the userinfo-percent-encoding of the value and touch nothing else -/
theorem C05_userinfo (cfg : Cfg) (u : Url) (v : Bytes) (h : cannotHaveUPP u = false) :
    (setUsername cfg u v).url = { u with username := percentEncodeString cfg userinfoSet v } ∧
    (setPassword cfg u v).url = { u with password := percentEncodeString cfg userinfoSet v } := by
  simp [setUsername, setPassword, h, keep]

/-- the empty port removes the port (and nothing else) -/
theorem C05_empty_port (cfg : Cfg) (I : Idna) (u : Url) (h : cannotHaveUPP u = false) :
    (setPort cfg I u []).url = { u with port := none, decodedPort := 0 } := by
  simp [setPort, h, keep]

/-- the empty search / hash set the component to null and strip trailing spaces of an opaque path only when both are null -/
theorem C05_empty_search (cfg : Cfg) (I : Idna) (u : Url) (hf : u.fragment ≠ none) :
    (setSearchU cfg I u []).url = { u with query := none } := by
  unfold setSearchU
  cases h : u.fragment with
  | none => exact absurd h hf
  | some f => simp [h, keep]

theorem C05_empty_hash (cfg : Cfg) (I : Idna) (u : Url) (hq : u.query ≠ none) :
    (setHash cfg I u []).url = { u with fragment := none } := by
  unfold setHash
  cases h : u.query with
  | none => exact absurd h hq
  | some f => simp [h, keep]

/-- a single leading '?' / '#' of the value is dropped before the parser is re-entered in the query / fragment state -/
theorem C05_leading_delimiter (cfg : Cfg) (I : Idna) (u : Url) (v : Bytes) :
    setSearchU cfg I u (0x3f :: v) = (if v = [] then setSearchU cfg I u [0x3f] else setSearchU cfg I u (0x3f :: v)) ∧
    (v.head? ≠ some 0x3f → v ≠ [] → setSearchU cfg I u (0x3f :: v) = setSearchU cfg I u v) := by
  constructor
  · split <;> simp_all
  · intro h1 h2
    cases v with
    | nil => exact absurd rfl h2
    | cons x xs =>
      have hx : x ≠ 0x3f := by simpa using h1
      have hx' : ¬ (63 : UInt8) = x := fun h => hx h.symm
      simp [setSearchU, trimPrefix1, startsWith, List.isPrefixOf, hx, hx']

end WhatwgUrl.Props.C05
