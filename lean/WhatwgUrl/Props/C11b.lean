import WhatwgUrl.Proofs.SpExactD
/-
  C11b — `SearchParams`: the EXACT class of lists that survive serialize-then-parse under the default configuration.

  The clause "serializing any list of pairs and parsing the result returns the same list" is false for the code (finding
  F8, `Props/C11.lean`: `C11_roundtrip_false`).  Here the finding is delimited by an iff: `RtExact l` (decidable) says that
  every name and value is well-formed UTF-8 and contains no `%` followed by two hex digits, no name contains `&`, `=`, `+`,
  and no value contains `&`, `+`.  (A `=` inside a value, a `%` that starts no escape — also as the last byte of a name,
  right before the `=` separator —, the pair `("","")` and the empty list all survive.)

  Proof idea (`Proofs/SpExact*.lean`): the serializer is `E ∘ join`, where `E` escapes byte by byte and the parser does
  not see `E` (`spInit (E s) = spInit s`); the parse of a join is the concatenation of the parses of the pairs, each of
  which is non-empty, so the list survives iff every pair does; for one pair, bytes ≥ 0x80 never disappear in the parser
  (so Go's U+FFFD substitution cannot be undone) and lengths never grow (so there is no `&`, `+`, escape or `=` in a name).

  `C11b_lost_pairs_Statement` ("stable after one round": the parse of the serialization serializes to the same text) is
  FALSE as well: `a&b=` parses to two pairs, which serialize to `a=&b=`.
-/
namespace WhatwgUrl.Props.C11b
open WhatwgUrl WhatwgUrl.Impl
open WhatwgUrl.Proofs.SpExact (RtExact goodName goodValue noPct nameByte valueByte goodName_spec goodValue_spec)

/-- serialize, then parse -/
abbrev rt (l : Pairs) : Pairs := spInit Cfg.default (spString Cfg.default l)

/-- `←` for the whole class (strictly extends `C11.RtPairs`: well-formed non-ASCII text, `=` in values, a `%` that
    starts no escape) -/
theorem C11b_roundtrip_utf8_partial (l : Pairs) (h : RtExact l) :
    spInit Cfg.default (spString Cfg.default l) = l :=
  Proofs.SpExact.rt_of_exact l h

/-- the exact class -/
theorem C11b_roundtrip_iff (l : Pairs) : spInit Cfg.default (spString Cfg.default l) = l ↔ RtExact l :=
  Proofs.SpExact.rt_iff l

/-- the list survives iff each of its pairs survives on its own -/
theorem C11b_roundtrip_pairwise (l : Pairs) : rt l = l ↔ ∀ p ∈ l, rt [p] = [p] := by
  simp only [rt, C11b_roundtrip_iff, RtExact]
  constructor
  · intro h p hp q hq
    rw [List.mem_singleton] at hq
    subst hq
    exact h q hp
  · intro h p hp
    exact h p hp p (by simp)

/-- what comes back is the concatenation of what comes back for each pair -/
theorem C11b_roundtrip_flatMap (l : Pairs) : rt l = l.flatMap (fun p => rt [p]) :=
  Proofs.SpExact.rt_flatMap l

/-! ### `→`, clause by clause, for every list containing such a pair -/

theorem C11b_roundtrip_only_if_utf8 (l : Pairs) (p : Bytes × Bytes) (hp : p ∈ l)
    (h : validUtf8 p.1 = false ∨ validUtf8 p.2 = false) : rt l ≠ l := by
  intro e
  have := (C11b_roundtrip_iff l).mp e p hp
  have h1 := (goodName_spec this.1).1
  have h2 := (goodValue_spec this.2).1
  rcases h with h | h <;> simp_all

theorem C11b_roundtrip_only_if_name (l : Pairs) (p : Bytes × Bytes) (hp : p ∈ l)
    (h : 0x26 ∈ p.1 ∨ 0x3d ∈ p.1 ∨ 0x2b ∈ p.1) : rt l ≠ l := by
  intro e
  have h1 := (goodName_spec ((C11b_roundtrip_iff l).mp e p hp).1).2.2
  rcases h with h | h | h
  · exact (h1 _ h).1 rfl
  · exact (h1 _ h).2.1 rfl
  · exact (h1 _ h).2.2 rfl

theorem C11b_roundtrip_only_if_value (l : Pairs) (p : Bytes × Bytes) (hp : p ∈ l)
    (h : 0x26 ∈ p.2 ∨ 0x2b ∈ p.2) : rt l ≠ l := by
  intro e
  have h1 := (goodValue_spec ((C11b_roundtrip_iff l).mp e p hp).2).2.2
  rcases h with h | h
  · exact (h1 _ h).1 rfl
  · exact (h1 _ h).2 rfl

theorem C11b_roundtrip_only_if_escape (l : Pairs) (p : Bytes × Bytes) (hp : p ∈ l)
    (h : noPct p.1 = false ∨ noPct p.2 = false) : rt l ≠ l := by
  intro e
  have := (C11b_roundtrip_iff l).mp e p hp
  have h1 := (goodName_spec this.1).2.1
  have h2 := (goodValue_spec this.2).2.1
  rcases h with h | h <;> simp_all

/-! ### "stable after one round" -/

/-- FALSE: the parse of the serialization does not serialize to the same text in general -/
def C11b_lost_pairs_Statement : Prop :=
  ∀ l : Pairs, spString Cfg.default (spInit Cfg.default (spString Cfg.default l)) = spString Cfg.default l

theorem C11b_lost_pairs_counterexample :
    spString Cfg.default (spInit Cfg.default (spString Cfg.default [(lit "a&b", [])])) ≠
      spString Cfg.default [(lit "a&b", [])] := by
  rw [Proofs.SearchParams.spInit_default_eval]; decide

theorem C11b_lost_pairs_false : ¬ C11b_lost_pairs_Statement :=
  fun h => C11b_lost_pairs_counterexample (h _)

-- "a&b=" comes back as two pairs, which serialize to "a=&b="
example : spString Cfg.default (rt [(lit "a&b", [])]) = lit "a=&b=" := by
  simp only [rt]; rw [Proofs.SearchParams.spInit_default_eval]; decide
-- nor is the list stable after one round: "%2541" ↦ "%41" ↦ "A"
example : rt [(lit "%2541", [])] = [(lit "%41", [])] ∧ rt [(lit "%41", [])] = [(lit "A", [])] := by
  simp only [rt]; rw [Proofs.SearchParams.spInit_default_eval, Proofs.SearchParams.spInit_default_eval]; decide

/-- what does hold: the class is closed under the round trip, so on it every further round is the identity -/
theorem C11b_lost_pairs_partial (l : Pairs) (h : RtExact l) :
    spString Cfg.default (spInit Cfg.default (spString Cfg.default l)) = spString Cfg.default l := by
  rw [C11b_roundtrip_utf8_partial l h]

/-! ### non-vacuity, on both sides of the boundary -/

set_option maxRecDepth 100000 in
-- inside: non-ASCII text (é, €, 😀), `=` in a value, lone `%`, `%zz`, `%` at the end of a name, empty name and value
example : RtExact [([0xc3, 0xa9], [0xe2, 0x82, 0xac]), (lit "a%", lit "=b=%zz%4"), ([], []),
    ([0xf0, 0x9f, 0x98, 0x80, 0x20], lit "100%")] := by decide +kernel
example : RtExact [] := by decide
set_option maxRecDepth 100000 in
-- … and the text that is serialized and parsed back
example : spString Cfg.default [([0xc3, 0xa9], [0xe2, 0x82, 0xac]), (lit "a%", lit "=b=%zz%4"), ([], [])] =
    lit "%C3%A9=%E2%82%AC&a%==b=%zz%4&=" := by decide +kernel
set_option maxRecDepth 100000 in
example : spInit Cfg.default (lit "%C3%A9=%E2%82%AC&a%==b=%zz%4&=") =
    [([0xc3, 0xa9], [0xe2, 0x82, 0xac]), (lit "a%", lit "=b=%zz%4"), ([], [])] := by
  rw [Proofs.SearchParams.spInit_default_eval]; decide +kernel
set_option maxRecDepth 100000 in
-- outside: each clause
example : ¬ RtExact [([0xff], [])] ∧ ¬ RtExact [([], [0xc3])] ∧ ¬ RtExact [(lit "a&b", [])] ∧
    ¬ RtExact [(lit "a=", [])] ∧ ¬ RtExact [(lit "a+b", [])] ∧ ¬ RtExact [(lit "%41", [])] ∧
    ¬ RtExact [([], lit "a&b")] ∧ ¬ RtExact [([], lit "a+b")] ∧ ¬ RtExact [([], lit "%4f")] := by decide +kernel
set_option maxRecDepth 100000 in
-- the hypotheses of the clause theorems are satisfiable
example : validUtf8 ([0xe2, 0x82] : Bytes) = false ∧ noPct (lit "x%4F") = false := by decide +kernel
-- a pair that does not survive spoils every list it is in
example : rt [(lit "a", lit "1"), (lit "k", lit "a+b")] = [(lit "a", lit "1"), (lit "k", lit "a b")] := by
  simp only [rt]; rw [Proofs.SearchParams.spInit_default_eval]; decide

section AxiomCheck
#print axioms C11b_roundtrip_utf8_partial
#print axioms C11b_roundtrip_iff
#print axioms C11b_roundtrip_pairwise
#print axioms C11b_roundtrip_flatMap
#print axioms C11b_roundtrip_only_if_utf8
#print axioms C11b_roundtrip_only_if_name
#print axioms C11b_roundtrip_only_if_value
#print axioms C11b_roundtrip_only_if_escape
#print axioms C11b_lost_pairs_counterexample
#print axioms C11b_lost_pairs_false
#print axioms C11b_lost_pairs_partial
end AxiomCheck

end WhatwgUrl.Props.C11b
