import WhatwgUrl.Props.C03c
import WhatwgUrl.Props.C16
import WhatwgUrl.Proofs.RTcInvProfile
/-
  C17b — the canonical output of the WhatWg profile is a fixed point of the profile.

  The WhatWg profile is the profile without options (`C16_profiles`: `("WhatWg", [])`): `Parse` = parse with the default
  parser options, no post-processing (`C16_no_options_profile`), and the canonical text is `String()` = `Href(false)` of the
  returned object.  So idempotence of the profile is idempotence of `href ∘ parse`, which is the round-trip theorem for
  parse results (`C03_roundtrip_parse`, Props/C03c) + `href_of_Same`.

  Stated at two levels:
   * value level (`C17_whatwg_idempotent`): `whatwgOut I raw = some s → HostStable … → whatwgOut I s = some s`, where
     `whatwgOut I raw` is `href (parse {} I raw).url false` when the parse returns a url;
   * heap level (`C17_whatwg_idempotent_heap`): the same for `canonParse I whatWg H raw` (which allocates the object and
     runs `canonicalize`), through `canonText_whatWg : canonText (canonParse I whatWg H raw) = whatwgOut I raw`.
  The hypothesis `HostStable I u` (the host text is a fixed point of the host parser) is needed for IDN hosts only
  (finding F6); it is discharged for the other host kinds in the corollaries.
-/
namespace WhatwgUrl.Props.C17b
open WhatwgUrl WhatwgUrl.Impl
open WhatwgUrl.Proofs.HostWF (Same)
open WhatwgUrl.Proofs.RoundTrip (HostStable)
open WhatwgUrl.Proofs.Sim (IdnaLaws)
open WhatwgUrl.Props.C03b (href_of_Same)
open WhatwgUrl.Props.C03c

/-- the WhatWg profile: `canonicalizer.New()` without options -/
def whatWg : Profile := {}

/-- the canonical text of the WhatWg profile at value level: parse, then serialize -/
def whatwgOut (I : Idna) (raw : Bytes) : Option Bytes :=
  if (parse {} I raw).ret = .url then some (href (parse {} I raw).url false) else none

/-- what the caller of `(*profile).Parse` sees: `String()` of the returned object, when the error is nil -/
def canonText (x : Heap × Option Nat × Ret) : Option Bytes :=
  match x.2.2, x.2.1 with
  | .url, some i => (x.1.urls[i]?).map fun o => href o.u false
  | _, _ => none

/-! ### the model's `canonParse` for the WhatWg profile is `href ∘ parse` -/

theorem canonParseBase_whatWg (I : Idna) (raw : Bytes) : canonParseBase I whatWg raw = parse {} I raw :=
  C16.C16_default_scheme_neutral I whatWg raw (Or.inr (Or.inl rfl))

theorem canonText_whatWg (I : Idna) (H : Heap) (raw : Bytes) : canonText (canonParse I whatWg H raw) = whatwgOut I raw := by
  unfold canonParse whatwgOut
  rw [canonParseBase_whatWg]
  unfold Heap.allocRes
  cases hr : (parse {} I raw).ret with
  | url =>
    simp only [hr, Heap.allocUrl, if_true]
    rw [show canonicalize I whatWg _ _ = _ from C16.C16_no_options_profile I _ _]
    simp [canonText, whatWg]
  | nilNil => simp [hr, canonText]
  | err e w => simp [hr, canonText]
  | panic n => simp [hr, canonText]
  | outOfFuel => simp [hr, canonText]

/-! ### idempotence -/

/-- value level, in terms of the record -/
theorem C17_href_parse_idempotent (I : Idna) (hI : IdnaLaws I) (raw : Bytes) (hr : (parse {} I raw).ret = .url)
    (hh : HostStable I (parse {} I raw).url) :
    (parse {} I (href (parse {} I raw).url false)).ret = .url ∧
    href (parse {} I (href (parse {} I raw).url false)).url false = href (parse {} I raw).url false := by
  obtain ⟨u', h1, h2⟩ := C03_roundtrip_parse I hI raw (parse {} I raw).url (by rw [← hr]) hh
  rw [h1]
  exact ⟨rfl, href_of_Same h2 false⟩

/-- … and the record itself is reproduced (up to the diagnostic fields) -/
theorem C17_parse_href_same (I : Idna) (hI : IdnaLaws I) (raw : Bytes) (hr : (parse {} I raw).ret = .url)
    (hh : HostStable I (parse {} I raw).url) :
    (parse {} I (href (parse {} I raw).url false)).ret = .url ∧
    Same (parse {} I (href (parse {} I raw).url false)).url (parse {} I raw).url := by
  obtain ⟨u', h1, h2⟩ := C03_roundtrip_parse I hI raw (parse {} I raw).url (by rw [← hr]) hh
  rw [h1]
  exact ⟨rfl, h2⟩

/-- **C17 for the WhatWg profile, value level**: the canonical output `s` of `raw` is its own canonical output -/
theorem C17_whatwg_idempotent (I : Idna) (hI : IdnaLaws I) (raw s : Bytes) (h : whatwgOut I raw = some s)
    (hh : HostStable I (parse {} I raw).url) : whatwgOut I s = some s := by
  unfold whatwgOut at h
  split at h
  · rename_i hr
    simp only [Option.some.injEq] at h
    subst h
    obtain ⟨h1, h2⟩ := C17_href_parse_idempotent I hI raw hr hh
    unfold whatwgOut
    rw [if_pos h1, h2]
  · cases h

/-- **C17 for the WhatWg profile, heap level** (`(*profile).Parse` of the model, any two heaps) -/
theorem C17_whatwg_idempotent_heap (I : Idna) (hI : IdnaLaws I) (H H' : Heap) (raw s : Bytes)
    (h : canonText (canonParse I whatWg H raw) = some s) (hh : HostStable I (parse {} I raw).url) :
    canonText (canonParse I whatWg H' s) = some s := by
  rw [canonText_whatWg] at h ⊢
  exact C17_whatwg_idempotent I hI raw s h hh

/-- `ParseRef` of the profile: the canonical output of a resolved reference is a fixed point of `Parse` -/
theorem C17_whatwg_ref_idempotent (I : Idna) (hI : IdnaLaws I) (raw ref : Bytes) (u : Url)
    (hp : parseRef {} I raw ref = ⟨u, .url⟩) (hh : HostStable I u) : whatwgOut I (href u false) = some (href u false) := by
  obtain ⟨u', h1, h2⟩ := C03_roundtrip_parseRef I hI raw ref u hp hh
  unfold whatwgOut
  rw [h1]
  simp only [if_true]
  rw [href_of_Same h2 false]

/-! ### the host hypothesis discharged -/

/-- a decidable sufficient condition on the record for `HostStable` under the oracle laws: no host, the empty host, an
    opaque host of a non-special scheme that is not an IPv6 literal, or an L1-domain (`AsciiDomain`: pure ASCII, lower
    case, no `xn--` label; includes every serialized IPv4 address) -/
def HostEasy (u : Url) : Prop :=
  ∀ h ∈ u.host, h = [] ∨ (Cfg.isSpecial {} u.scheme = false ∧ h.head? ≠ some 0x5b) ∨
    (Cfg.isSpecial {} u.scheme = true ∧ AsciiDomain h)

instance (u : Url) : Decidable (HostEasy u) := by unfold HostEasy; infer_instance

theorem hostStable_of_easy (I : Idna) (hI : IdnaLaws I) (u : Url) (hc : C04c.WFc u) (he : HostEasy u) : HostStable I u := by
  intro h hh
  rcases he h hh with rfl | ⟨hns, hb⟩ | ⟨hsp, hd⟩
  · rfl
  · exact C03b.C03_hostStable_opaque I u hns (fun h' hh' => by
      have : h' = h := by
        rw [Option.mem_def] at hh hh'
        rw [hh] at hh'; exact (Option.some.inj hh').symm
      subst this
      exact opaqueHost_of_WFc u hc hns h' hh hb) h hh
  · exact C03_hostStable_ascii_domain I hI u hsp (fun h' hh' => by
      have : h' = h := by
        rw [Option.mem_def] at hh hh'
        rw [hh] at hh'; exact (Option.some.inj hh').symm
      subst this
      exact hd) h hh

/-- the WhatWg profile is idempotent on every input whose parsed host is not an IDN / ACE / IPv6 host … -/
theorem C17_whatwg_idempotent_easy (I : Idna) (hI : IdnaLaws I) (raw s : Bytes) (h : whatwgOut I raw = some s)
    (he : HostEasy (parse {} I raw).url) : whatwgOut I s = some s :=
  C17_whatwg_idempotent I hI raw s h
    (hostStable_of_easy I hI _ (C04c.C04_parse_WFc_nobase I hI.out_ascii hI.nonempty raw) he)

/-- … and on every input whose parsed host is the serialization of an IPv6 address -/
theorem C17_whatwg_idempotent_ipv6 (I : Idna) (hI : IdnaLaws I) (raw s : Bytes) (h : whatwgOut I raw = some s)
    (a : List Nat) (ha : C08.Addr a) (hh : (parse {} I raw).url.host = some ([0x5b] ++ ipv6String a ++ [0x5d])) :
    whatwgOut I s = some s :=
  C17_whatwg_idempotent I hI raw s h (C03b.C03_hostStable_ipv6 I _ a ha hh)

/-- **the host hypothesis reduced to domains** (host provenance, `Props/C03c.lean`): idempotent as soon as the domain of a
    special url — if the parse result has one — is a fixed point of the host parser; non-special urls and bracketed
    hosts need nothing -/
theorem C17_whatwg_idempotent_domain (I : Idna) (hI : IdnaLaws I) (raw s : Bytes) (h : whatwgOut I raw = some s)
    (hd : DomainStable I (parse {} I raw).url) : whatwgOut I s = some s := by
  have hc := C04c.C04_parse_WFc_nobase I hI.out_ascii hI.nonempty raw
  have hv : HostAll V6h (parse {} I raw).url := C03_parse_V6 I raw none (by intro b h; cases h)
  exact C17_whatwg_idempotent I hI raw s h (hostStable_of_domainStable I _ hc hv hd)

/-- **only IDN / ACE domains keep a hypothesis**: idempotent whenever the parsed url is not special, or its host is
    bracketed, or its domain is an `AsciiDomain` -/
theorem C17_whatwg_idempotent_noIDN (I : Idna) (hI : IdnaLaws I) (raw s : Bytes) (h : whatwgOut I raw = some s)
    (hd : Cfg.isSpecial {} (parse {} I raw).url.scheme = true → ∀ h ∈ (parse {} I raw).url.host, h.head? ≠ some 0x5b → AsciiDomain h) :
    whatwgOut I s = some s :=
  C17_whatwg_idempotent_domain I hI raw s h (domainStable_of_ascii I hI _ hd)

theorem C17_whatwg_idempotent_nonspecial (I : Idna) (hI : IdnaLaws I) (raw s : Bytes) (h : whatwgOut I raw = some s)
    (hns : Cfg.isSpecial {} (parse {} I raw).url.scheme = false) : whatwgOut I s = some s :=
  C17_whatwg_idempotent_domain I hI raw s h (fun hsp => by rw [hns] at hsp; cases hsp)

/-! ### non-vacuity -/

private abbrev I0 := WhatwgUrl.Proofs.Sim.I0
private theorem hI0 : IdnaLaws I0 := WhatwgUrl.Proofs.Sim.I0_laws

private def raw1 : Bytes := lit "  HTTP://u@[0::1]:80/a/../b c?q'#f` "
private def raw2 : Bytes := lit "sc://H%41!/a\\b/%2e/x"
private def raw3 : Bytes := lit "mailto:a b  \t#"
example : whatwgOut I0 raw1 = some (lit "http://u@[::1]/b%20c?q%27#f%60") := by decide +kernel
example : whatwgOut I0 raw2 = some (lit "sc://H%41!/a\\b/x") := by decide +kernel
example : whatwgOut I0 raw3 = some (lit "mailto:a b  #") := by decide +kernel
example : HostEasy (parse {} I0 raw2).url ∧ HostEasy (parse {} I0 raw3).url := by decide +kernel
/-- the conclusions through the theorems … -/
example : whatwgOut I0 (lit "sc://H%41!/a\\b/x") = some (lit "sc://H%41!/a\\b/x") :=
  C17_whatwg_idempotent_easy I0 hI0 raw2 _ (by decide +kernel) (by decide +kernel)
example : whatwgOut I0 (lit "http://u@[::1]/b%20c?q%27#f%60") = some (lit "http://u@[::1]/b%20c?q%27#f%60") :=
  C17_whatwg_idempotent_ipv6 I0 hI0 raw1 _ (by decide +kernel) [0, 0, 0, 0, 0, 0, 0, 1] (by unfold C08.Addr; decide +kernel)
    (by decide +kernel)
example : whatwgOut I0 (lit "http://u@[::1]/b%20c?q%27#f%60") = some (lit "http://u@[::1]/b%20c?q%27#f%60") :=
  C17_whatwg_idempotent_noIDN I0 hI0 raw1 _ (by decide +kernel) (by decide +kernel)
example : whatwgOut I0 (lit "mailto:a b  #") = some (lit "mailto:a b  #") :=
  C17_whatwg_idempotent_nonspecial I0 hI0 raw3 _ (by decide +kernel) (by decide +kernel)
/-- … and by evaluation -/
example : whatwgOut I0 (lit "mailto:a b  #") = some (lit "mailto:a b  #") := by decide +kernel
/-- heap level: `(*profile).Parse` on the empty heap returns object 0, whose text is the value-level output -/
example : (canonParse I0 whatWg {} raw3).2.1 = some 0 ∧ (canonParse I0 whatWg {} raw3).2.2 = .url ∧
    canonText (canonParse I0 whatWg {} raw3) = some (lit "mailto:a b  #") := by decide +kernel
/-- a failing parse has no canonical text -/
example : whatwgOut I0 (lit "//x") = none ∧ canonText (canonParse I0 whatWg {} (lit "//x")) = none := by decide +kernel

/-- the hypothesis `HostStable` cannot be dropped: `Props/C03c.lean` (`I1`, `I1_laws`, `I1_not_fixed`) has an oracle that
    satisfies the four laws and under which the host `xn--a` re-parses to `xn--aa`, so `http://xn--a` + `/` (the canonical
    output of `http://xn--` + `/` under that oracle) is not a fixed point (finding F6; a statement about the IDNA library) -/
example : IdnaLaws C03c.I1 ∧ (parseHost {} C03c.I1 {} (lit "xn--a") false).out = .ok (lit "xn--aa") :=
  ⟨C03c.I1_laws, C03c.I1_not_fixed⟩

/-! ### stretch: the profiles with remove-port / remove-user-info / remove-fragment (and a default scheme)

  `canonicalize` applies `SetPort("")`, `SetUsername("")`, `SetPassword("")`, `SetHash("")` to the parse result
  (`postU`, `Proofs/RTcInvProfile.lean`; heap level: `canonicalize_post`).  These setters do not call the parser; they keep
  the three invariants (`WFs`, `WFc`, `RTx` — `SetHash("")` strips the trailing spaces of an opaque path exactly so that
  clause 6 of `RTx` survives), so the post-processed record round-trips, and on the re-parsed record nothing is left to
  remove (`postU_fix`). -/

open WhatwgUrl.Proofs.RTcInv (postU postRet Inv3 Done)

/-- the profiles covered: default parser options, no repeated percent-decoding, no query sorting; the three remove
    options and the default scheme are arbitrary -/
structure Plain (p : Profile) : Prop where
  hcfg : p.cfg = {}
  hrpd : p.repeatedPercentDecoding = false
  hsq : p.sortQuery = .noSort

/-- the canonical text at value level: parse (with the default-scheme retry), post-process, serialize -/
def profileOut (I : Idna) (p : Profile) (raw : Bytes) : Option Bytes :=
  if (canonParseBase I p raw).ret = .url then some (href (postU I p (canonParseBase I p raw).url) false) else none

/-- with or without the retry, the base parse is a parse -/
theorem canonParseBase_parse (I : Idna) (p : Profile) (hcfg : p.cfg = {}) (raw : Bytes) :
    ∃ x, canonParseBase I p raw = parse {} I x := by
  unfold canonParseBase
  rw [hcfg]
  dsimp only
  split
  · split
    · exact ⟨_, rfl⟩
    · exact ⟨_, rfl⟩
  · exact ⟨_, rfl⟩

theorem canonParseBase_inv (I : Idna) (hI : IdnaLaws I) (p : Profile) (hcfg : p.cfg = {}) (raw : Bytes)
    (hr : (canonParseBase I p raw).ret = .url) : Inv3 (canonParseBase I p raw).url := by
  obtain ⟨x, hx⟩ := canonParseBase_parse I p hcfg raw
  rw [hx] at hr ⊢
  have := C03_parse_invariants I hI x none BaseOk_none hr
  exact ⟨this.1, this.2.1, WhatwgUrl.Proofs.RTcInv.RTx_of_RTc _ this.1 this.2.2⟩

theorem hostStable_postU (I : Idna) (p : Profile) (u : Url) (h : HostStable I u) : HostStable I (postU I p u) := by
  unfold HostStable at h ⊢
  rw [(WhatwgUrl.Proofs.RTcInv.postU_scheme_host I p u).1, (WhatwgUrl.Proofs.RTcInv.postU_scheme_host I p u).2]
  exact h

/-- **C17 for the remove-* profiles, value level** -/
theorem C17_profile_idempotent (I : Idna) (hI : IdnaLaws I) (p : Profile) (hp : Plain p) (raw s : Bytes)
    (h : profileOut I p raw = some s) (hh : HostStable I (canonParseBase I p raw).url) : profileOut I p s = some s := by
  unfold profileOut at h
  split at h
  · rename_i hr
    simp only [Option.some.injEq] at h
    have hi0 := canonParseBase_inv I hI p hp.hcfg raw hr
    generalize (canonParseBase I p raw).url = u0 at h hh hi0
    have hi1 := WhatwgUrl.Proofs.RTcInv.Inv3_postU I hI.out_ascii hI.nonempty p hp.hcfg u0 hi0
    have hd1 := WhatwgUrl.Proofs.RTcInv.postU_done I hI.out_ascii hI.nonempty p hp.hcfg u0 hi0
    have hh1 := hostStable_postU I p u0 hh
    generalize postU I p u0 = u1 at h hi1 hd1 hh1
    subst h
    obtain ⟨u', h1, h2⟩ := C03b.C03_roundtrip_record I u1 hi1.1 (RTc_of_WFc u1 hi1.1 hi1.2.1 hi1.2.2) hh1
    have hb : canonParseBase I p (href u1 false) = parse {} I (href u1 false) := by
      have := C16.C16_default_scheme_neutral I p (href u1 false) (Or.inl (by rw [hp.hcfg, h1]))
      rw [this, hp.hcfg]
    have hs' : Same u1 u' := by
      obtain ⟨a1, a2, a3, a4, a5, a6, a7, a8, a9⟩ := h2
      exact ⟨a1.symm, a2.symm, a3.symm, a4.symm, a5.symm, a6.symm, a7.symm, a8.symm, a9.symm⟩
    have hfix : postU I p u' = u' := by
      apply WhatwgUrl.Proofs.RTcInv.postU_fix I p u' (WhatwgUrl.Proofs.RTcInv.Done_same hs' hd1)
      · intro ho
        exact (((C04b.WFs_same hs').mpr hi1.1).2.2.1 ho).2
      · exact ((WhatwgUrl.Proofs.RTcInv.RTx_same hs').mpr hi1.2.2).2.2.1
    unfold profileOut
    rw [hb, h1]
    simp only [if_true]
    rw [hfix, href_of_Same h2 false]
  · cases h

/-- … with the host hypothesis reduced to domains -/
theorem C17_profile_idempotent_domain (I : Idna) (hI : IdnaLaws I) (p : Profile) (hp : Plain p) (raw s : Bytes)
    (h : profileOut I p raw = some s) (hd : DomainStable I (canonParseBase I p raw).url) : profileOut I p s = some s := by
  obtain ⟨x, hx⟩ := canonParseBase_parse I p hp.hcfg raw
  have hc : C04c.WFc (canonParseBase I p raw).url := by
    rw [hx]; exact C04c.C04_parse_WFc_nobase I hI.out_ascii hI.nonempty x
  have hv : HostAll V6h (canonParseBase I p raw).url := by
    rw [hx]; exact C03_parse_V6 I x none (by intro b h; cases h)
  exact C17_profile_idempotent I hI p hp raw s h (hostStable_of_domainStable I _ hc hv hd)

/-- heap level: the text of the object `(*profile).Parse` returns is the value-level output -/
theorem canonText_plain (I : Idna) (hI : IdnaLaws I) (p : Profile) (hp : Plain p) (H : Heap) (raw : Bytes) :
    canonText (canonParse I p H raw) = profileOut I p raw := by
  unfold canonParse profileOut
  unfold Heap.allocRes
  cases hr : (canonParseBase I p raw).ret with
  | url =>
    have hi0 := canonParseBase_inv I hI p hp.hcfg raw hr
    have hret := WhatwgUrl.Proofs.RTcInv.postRet_url I hI.out_ascii hI.nonempty p hp.hcfg _ hi0
    simp only [hr, Heap.allocUrl, if_true]
    have hu : ({ H with urls := H.urls ++ [⟨(canonParseBase I p raw).url, none, p.cfg⟩] } : Heap).urls[H.urls.length]? =
        some ⟨(canonParseBase I p raw).url, none, p.cfg⟩ := by simp
    have hc := WhatwgUrl.Proofs.RTcInv.canonicalize_post I p _ H.urls.length _ hp.hrpd hp.hsq hu rfl hret
    simp only [canonText, hc.1, hc.2, Option.map_some]
  | nilNil => simp [hr, canonText]
  | err e w => simp [hr, canonText]
  | panic n => simp [hr, canonText]
  | outOfFuel => simp [hr, canonText]

/-- **C17 for the remove-* profiles, heap level** -/
theorem C17_profile_idempotent_heap (I : Idna) (hI : IdnaLaws I) (p : Profile) (hp : Plain p) (H H' : Heap) (raw s : Bytes)
    (h : canonText (canonParse I p H raw) = some s) (hh : HostStable I (canonParseBase I p raw).url) :
    canonText (canonParse I p H' s) = some s := by
  rw [canonText_plain I hI p hp] at h ⊢
  exact C17_profile_idempotent I hI p hp raw s h hh

/-- the WhatWg profile is the instance without options -/
example : Plain whatWg := ⟨rfl, rfl, rfl⟩
theorem profileOut_whatWg (I : Idna) (raw : Bytes) : profileOut I whatWg raw = whatwgOut I raw := by
  unfold profileOut whatwgOut
  rw [canonParseBase_whatWg]
  rfl

/-- non-vacuity: a profile with all three remove options and a default scheme -/
private def pRm : Profile := { removeUserInfo := true, removePort := true, removeFragment := true, defaultScheme := lit "sc" }
example : Plain pRm := ⟨rfl, rfl, rfl⟩
private def raw4 : Bytes := lit "wss://u:p@[0::1]:81/a?q#f"
private def raw5 : Bytes := lit "mailto:a b  #f"
private def raw6 : Bytes := lit "u@h:8/x#f"
example : profileOut I0 pRm raw4 = some (lit "wss://[::1]/a?q") := by decide +kernel
/-- `SetHash("")` strips the trailing spaces of the opaque path: without that the output would not be a fixed point -/
example : profileOut I0 pRm raw5 = some (lit "mailto:a b") := by decide +kernel
/-- the default-scheme retry -/
example : (parse {} I0 raw6).ret ≠ .url ∧ profileOut I0 pRm raw6 = some (lit "sc://h/x") := by decide +kernel
example : profileOut I0 pRm (lit "wss://[::1]/a?q") = some (lit "wss://[::1]/a?q") :=
  C17_profile_idempotent I0 hI0 pRm ⟨rfl, rfl, rfl⟩ raw4 _ (by decide +kernel)
    (C03b.C03_hostStable_ipv6 I0 _ [0, 0, 0, 0, 0, 0, 0, 1] (by unfold C08.Addr; decide +kernel) (by decide +kernel))
example : profileOut I0 pRm (lit "mailto:a b") = some (lit "mailto:a b") ∧ profileOut I0 pRm (lit "sc://h/x") = some (lit "sc://h/x") := by
  decide +kernel
example : canonText (canonParse I0 pRm {} raw4) = some (lit "wss://[::1]/a?q") := by decide +kernel

end WhatwgUrl.Props.C17b

section AxiomCheck
open WhatwgUrl.Props.C17b
#print axioms canonText_whatWg
#print axioms C17_href_parse_idempotent
#print axioms C17_parse_href_same
#print axioms C17_whatwg_idempotent
#print axioms C17_whatwg_idempotent_heap
#print axioms C17_whatwg_ref_idempotent
#print axioms C17_whatwg_idempotent_easy
#print axioms C17_whatwg_idempotent_ipv6
#print axioms C17_whatwg_idempotent_domain
#print axioms C17_whatwg_idempotent_noIDN
#print axioms C17_whatwg_idempotent_nonspecial
#print axioms C17_profile_idempotent
#print axioms C17_profile_idempotent_domain
#print axioms canonText_plain
#print axioms C17_profile_idempotent_heap
end AxiomCheck
