import WhatwgUrl.Props.C17c
import WhatwgUrl.Props.C18e
/-
  C17d — C17 for the REAL GoogleSafeBrowsing and Semantic profiles, with no hypothesis left about the configuration.

  `Props/C17c.lean` proves idempotence on ordinary web urls for every repeated-decoding profile relative to "Half B" of the
  configuration (`HalfB cfg I`: the parse of `scheme://host/seg…?q#f` is the record with exactly these components), and
  `Props/C18e.lean` proves Half B for every configuration satisfying `WebCfg` — in particular for `gsbCfg` and `semanticCfg`
  (`WhatwgUrl/Impl/Profiles.lean`, tied to the Go profile objects by the `LPROF` leaf of the correspondence). This file joins
  the two.
-/
namespace WhatwgUrl.Props.C17d
open WhatwgUrl WhatwgUrl.Impl WhatwgUrl.Proofs.Pipeline
open WhatwgUrl.Props.C17b (canonText)
open WhatwgUrl.Props.C18d (render WebText)
open WhatwgUrl.Proofs.Spelling (hostText)
open WhatwgUrl.Proofs.Web (WebCfg)

/-- Half B (as C17c states it) holds for every configuration that C18e covers -/
theorem halfB_of_webCfg (cfg : Cfg) (hW : WebCfg cfg) (I : Idna) : C17c.HalfB cfg I := by
  intro s dp a hsd hdp ha segs q f hw
  rw [C18e.C18e_parse_render cfg hW I s dp a hsd hdp ha segs q f hw]
  rfl

theorem halfB_gsb (I : Idna) : C17c.HalfB gsbCfg I := halfB_of_webCfg _ C18e.C18e_webCfg_gsb I
theorem halfB_semantic (I : Idna) : C17c.HalfB semanticCfg I := halfB_of_webCfg _ C18e.C18e_webCfg_semantic I

/-- **C17, GoogleSafeBrowsing**: canonicalizing the canonical text of an ordinary web url returns it unchanged — for every
    oracle `I`, any two heaps; the only hypothesis besides the grammar is that the serialized host is stable under the
    profile's own host parser (`hst`; it fails only for hosts that went through IDNA — known finding F6) -/
theorem C17_gsb_idempotent (I : Idna) (s dp a : Bytes) (hsd : gsbCfg.special? s = some dp) (hdp : dp ≠ [])
    (ha : hostText a = true) (segs : List Bytes) (q : Option (List (Bytes × Bytes))) (f : Option Bytes) (hw : WebText segs q f)
    (hst : ∀ h, (parseHost gsbCfg I {} a false).out = .ok h →
      hostText h = true ∧ decodeEncode hostSet h = h ∧ (parseHost gsbCfg I {} h false).out = .ok h)
    (H H' : Heap) (t : Bytes)
    (ht : canonText (canonParse I gsbProfile H (render (s ++ lit "://" ++ a) segs q f)) = some t) :
    canonText (canonParse I gsbProfile H' t) = some t :=
  C17c.C17c_gsb_idempotent I (halfB_gsb I) s dp a hsd hdp ha segs q f hw hst H H' t ht

/-- **C17, Semantic** -/
theorem C17_semantic_idempotent (I : Idna) (s dp a : Bytes) (hsd : semanticCfg.special? s = some dp) (hdp : dp ≠ [])
    (ha : hostText a = true) (segs : List Bytes) (q : Option (List (Bytes × Bytes))) (f : Option Bytes) (hw : WebText segs q f)
    (hst : ∀ h, (parseHost semanticCfg I {} a false).out = .ok h →
      hostText h = true ∧ decodeEncode hostSet h = h ∧ (parseHost semanticCfg I {} h false).out = .ok h)
    (H H' : Heap) (t : Bytes)
    (ht : canonText (canonParse I semanticProfile H (render (s ++ lit "://" ++ a) segs q f)) = some t) :
    canonText (canonParse I semanticProfile H' t) = some t :=
  C17c.C17c_semantic_idempotent I (halfB_semantic I) s dp a hsd hdp ha segs q f hw hst H H' t ht

/-- … and for every profile built on a configuration that C18e covers (any combination of the canonicalizer's own options
    on top of parser options satisfying `WebCfg` and `CfgWeb`, hooks that ignore the record) -/
theorem C17_web_idempotent (I : Idna) (p : Profile) (hp : p.repeatedPercentDecoding = true) (hk : HooksOk p.cfg)
    (hc : WhatwgUrl.Proofs.Idem.CfgWeb p.cfg) (hW : WebCfg p.cfg) (s dp a : Bytes) (hsd : p.cfg.special? s = some dp) (hdp : dp ≠ [])
    (ha : hostText a = true) (segs : List Bytes) (q : Option (List (Bytes × Bytes))) (f : Option Bytes) (hw : WebText segs q f)
    (hst : C17c.HostStableC p.cfg I s a) (H H' : Heap) (t : Bytes)
    (ht : canonText (canonParse I p H (render (s ++ lit "://" ++ a) segs q f)) = some t) :
    canonText (canonParse I p H' t) = some t :=
  C17c.C17c_web_idempotent I p hp hk hc (halfB_of_webCfg _ hW I) s dp a hsd hdp ha segs q f hw hst H H' t ht

end WhatwgUrl.Props.C17d
#print axioms WhatwgUrl.Props.C17d.C17_gsb_idempotent
#print axioms WhatwgUrl.Props.C17d.C17_semantic_idempotent
#print axioms WhatwgUrl.Props.C17d.C17_web_idempotent
