import WhatwgUrl.Impl.Api
/-
  C04 — every reachable URL is a well-formed record with coherent getters.
  This file: the getter-composition half (stated on the model of the serializer and getters, which the
  correspondence run compares with Href and the getters of the Go code field by field).
-/
namespace WhatwgUrl.Props.C04
open WhatwgUrl WhatwgUrl.Impl

def authorityPart (u : Url) : Bytes :=
  match u.host with
  | none => []
  | some _ =>
    [0x2f, 0x2f] ++
    (if username u != [] || password u != [] then
       username u ++ (if password u != [] then 0x3a :: password u else []) ++ [0x40]
     else []) ++ hostG u
where
  username (u : Url) : Bytes := u.username
  password (u : Url) : Bytes := u.password

def dotGuard (u : Url) : Bytes :=
  if u.host == none && !u.path.opq && u.path.segs.length > 1 && u.path.segs.head? == some [] then [0x2f, 0x2e] else []

/-- `?` + query when the query is non-null (the getters cannot tell a null query from an empty one, `Href` can) -/
def queryPart (u : Url) : Bytes := match u.query with | some q => 0x3f :: q | none => []
def fragmentPart (u : Url) : Bytes := match u.fragment with | some f => 0x23 :: f | none => []

/-- the serialization is the composition protocol + [// + userinfo + host] + ['/.'] + pathname + query + fragment -/
theorem C04_href_composition (u : Url) :
    href u false = protocol u ++ authorityPart u ++ dotGuard u ++ pathname u ++ queryPart u ++ fragmentPart u := by
  unfold href protocol authorityPart dotGuard pathname queryPart fragmentPart hostG authorityPart.username authorityPart.password
  cases u.host <;> cases u.port <;> simp [List.append_assoc] <;> rfl

/-- `Search` is the query part whenever it is non-empty, and the query part is `""` or `"?"` otherwise -/
theorem C04_search_vs_query (u : Url) :
    (search u ≠ [] → queryPart u = search u) ∧ (search u = [] → queryPart u = [] ∨ queryPart u = [0x3f]) := by
  unfold search queryPart
  cases h : u.query with
  | none => simp
  | some q => cases q <;> simp

theorem C04_hash_vs_fragment (u : Url) :
    (hashG u ≠ [] → fragmentPart u = hashG u) ∧ (hashG u = [] → fragmentPart u = [] ∨ fragmentPart u = [0x23]) := by
  unfold hashG fragmentPart
  cases h : u.fragment with
  | none => simp
  | some q => cases q <;> simp

/-- Host = Hostname plus optional ':' port -/
theorem C04_host_composition (u : Url) :
    u.host ≠ none → hostG u = hostname u ++ (if portG u = [] then [] else 0x3a :: portG u) ∨ (u.port = some []) := by
  intro hh
  unfold hostG hostname portG
  cases h : u.host with
  | none => exact absurd h hh
  | some x =>
    cases hp : u.port with
    | none => simp
    | some p => cases p <;> simp

/-- Href(true) is Href(false) without the fragment -/
theorem C04_href_exclude_fragment (u : Url) : href u true ++ fragmentPart u = href u false := by
  unfold href fragmentPart
  cases u.fragment <;> simp [List.append_assoc]

/-- non-vacuity: a concrete record on which the composition is not trivial -/
example : href { scheme := lit "http", host := some (lit "h"), port := some (lit "8"), username := lit "u",
                 path := ⟨[lit "a"], false⟩, query := some [], fragment := some (lit "f") } false = lit "http://u@h:8/a?#f" := by decide

end WhatwgUrl.Props.C04
