import WhatwgUrl.Impl.Api
import WhatwgUrl.Spec.Url
import WhatwgUrl.Proofs.Ranges
/-
  C01 — parsing conforms to the WHATWG basic URL parser.
  The whole-machine conformance statement is kept as `C01_parse_conforms_Statement`; it is decided on every run by the
  Go-versus-Spec search over the property's stream, and proved leaf by leaf (this file, C07, C08, C10).
-/
namespace WhatwgUrl.Props.C01
open WhatwgUrl WhatwgUrl.Impl

/-- observation of a Go-side result: failure or the serialization plus the nine getters -/
def obsImpl (r : Res) : Option (List Bytes) :=
  match r.ret with
  | .url => some [href r.url false, protocol r.url, r.url.username, r.url.password, hostG r.url, hostname r.url, portG r.url,
                  pathname r.url, search r.url, hashG r.url]
  | _ => none

def obsSpec (r : Option Spec.SUrl) : Option (List Bytes) :=
  r.map fun u => [utf8 (Spec.serialize u false), utf8 (Spec.getProtocol u), utf8 u.username, utf8 u.password, utf8 (Spec.getHost u),
                  utf8 (Spec.getHostname u), utf8 (Spec.getPort u), utf8 (Spec.pathSerialize u), utf8 (Spec.getSearch u), utf8 (Spec.getHash u)]

/-- how the Spec-side IDNA oracle is derived from the library's answers ("taken as given") -/
def specIdna (I : Idna) : Spec.SIdna := fun d =>
  if (I (utf8 d)).2 && !asciiOrMiscNoPuny d 0 then none
  else if (I (utf8 d)).1.isEmpty then none else some (goRunes (I (utf8 d)).1)

/-- full statement (not proved as a whole): for every input and optional base the default parser agrees with the standard -/
def C01_parse_conforms_Statement : Prop :=
  ∀ (I : Idna) (input : Bytes) (base : Option Bytes),
    obsImpl (match base with | none => parse {} I input | some b => parseRef {} I b input) =
    obsSpec (Spec.apiParse (specIdna I) (goRunes input) (base.map goRunes))

/-- the statement is false today (known finding F3): tab/newline removal at byte level splices an ill-formed sequence -/
theorem C01_parse_conforms_counterexample : ¬ C01_parse_conforms_Statement := by
  intro h
  -- "x:\xC3\n\xA9": Go gives the opaque path %C3%A9, the scalar-value reading gives %EF%BF%BD%EF%BF%BD
  have := h (fun s => (s, false)) [0x78, 0x3a, 0xc3, 0x0a, 0xa9] none
  revert this
  decide +kernel

end WhatwgUrl.Props.C01
