import WhatwgUrl.Impl.Parser
import WhatwgUrl.Generated.Facts
/-
  C15 — diagnostics options never change results; errors are classified.
  This file: theorems over the error sites regenerated from the Go source (T1), and the model-level facts about
  `record`/`stops` (the single choke point `handleError`).
-/
namespace WhatwgUrl.Props.C15
open WhatwgUrl WhatwgUrl.Impl

/-- every call of `handleError*` in the Go source is followed by `if err != nil { return … }`: no error is swallowed
    (regenerated from /repo on every run; the pre-fix code violated this in `endsInANumber`) -/
theorem C15_sites_guarded : ∀ s ∈ Generated.errorSites, s.2.2.2 = true := by decide

/-- the error catalogue of errors/codes.go is the enumeration the model uses (as a multiset: the constants are strings, the
    order of their declarations means nothing) -/
theorem C15_catalogue : Generated.errorCatalogue.isPerm ["DomainToASCII", "DomainToUnicode", "DomainInvalidCodePoint", "HostInvalidCodePoint",
    "IPv4EmptyPart", "IPv4TooManyParts", "IPv4NonNumericPart", "IPv4NonDecimalPart", "IPv4OutOfRangePart", "IPv6Unclosed",
    "IPv6InvalidCompression", "IPv6TooManyPieces", "IPv6MultipleCompression", "IPv6InvalidCodePoint", "IPv6TooFewPieces",
    "IPv4InIPv6TooManyPieces", "IPv4InIPv6InvalidCodePoint", "IPv4InIPv6OutOfRangePart", "IPv4InIPv6TooFewParts", "InvalidURLUnit",
    "SpecialSchemeMissingFollowingSolidus", "MissingSchemeNonRelativeURL", "InvalidReverseSolidus", "InvalidCredentials", "HostMissing",
    "PortMissing", "PortOutOfRange", "PortInvalid", "FileInvalidWindowsDriveLetter", "FileInvalidWindowsDriveLetterHost"] = true ∧
    Generated.errorCatalogue.length = ErrT.all.length := by decide

/-- the classification of every site (function, type, failure flag) as the model replays it. A flipped flag, a new or a
    removed site in the Go source changes the regenerated list and breaks this theorem. -/
def modelledSites : List (String × String × Bool) := [
  ("parser.parseHost", "IPv6Unclosed", true),
  ("parser.parseHost", "DomainToASCII", true),
  ("parser.parseHost", "DomainToASCII", true),
  ("parser.parseHost", "DomainInvalidCodePoint", true),
  ("parser.parseIPv4Number", "IPv4EmptyPart", true),
  ("parser.parseIPv4", "IPv4EmptyPart", false),
  ("parser.parseIPv4", "IPv4TooManyParts", true),
  ("parser.parseIPv4", "IPv4NonNumericPart", true),
  ("parser.parseIPv4", "IPv4NonDecimalPart", false),
  ("parser.parseIPv4", "IPv4OutOfRangePart", false),
  ("parser.parseIPv4", "IPv4OutOfRangePart", true),
  ("parser.parseIPv4", "IPv4OutOfRangePart", true),
  ("parser.parseIPv6", "IPv6InvalidCompression", true),
  ("parser.parseIPv6", "IPv6TooManyPieces", true),
  ("parser.parseIPv6", "IPv6MultipleCompression", true),
  ("parser.parseIPv6", "IPv4InIPv6InvalidCodePoint", true),
  ("parser.parseIPv6", "IPv4InIPv6TooManyPieces", true),
  ("parser.parseIPv6", "IPv4InIPv6InvalidCodePoint", true),
  ("parser.parseIPv6", "IPv4InIPv6InvalidCodePoint", true),
  ("parser.parseIPv6", "IPv4InIPv6InvalidCodePoint", true),
  ("parser.parseIPv6", "IPv4InIPv6OutOfRangePart", true),
  ("parser.parseIPv6", "IPv4InIPv6TooFewParts", true),
  ("parser.parseIPv6", "IPv6InvalidCodePoint", true),
  ("parser.parseIPv6", "IPv6InvalidCodePoint", true),
  ("parser.parseIPv6", "IPv6TooFewPieces", true),
  ("parser.parseOpaqueHost", "HostInvalidCodePoint", true),
  ("parser.parseOpaqueHost", "InvalidURLUnit", false),
  ("parser.parseOpaqueHost", "InvalidURLUnit", false),
  ("parser.BasicParser", "InvalidURLUnit", false),
  ("parser.BasicParser", "InvalidURLUnit", false),
  ("parser.BasicParser", "InvalidURLUnit", true),
  ("parser.BasicParser", "SpecialSchemeMissingFollowingSolidus", false),
  ("parser.BasicParser", "InvalidURLUnit", true),
  ("parser.BasicParser", "MissingSchemeNonRelativeURL", true),
  ("parser.BasicParser", "SpecialSchemeMissingFollowingSolidus", false),
  ("parser.BasicParser", "InvalidReverseSolidus", false),
  ("parser.BasicParser", "InvalidReverseSolidus", false),
  ("parser.BasicParser", "SpecialSchemeMissingFollowingSolidus", false),
  ("parser.BasicParser", "SpecialSchemeMissingFollowingSolidus", false),
  ("parser.BasicParser", "InvalidCredentials", false),
  ("parser.BasicParser", "InvalidCredentials", true),
  ("parser.BasicParser", "HostMissing", true),
  ("parser.BasicParser", "HostMissing", true),
  ("parser.BasicParser", "PortOutOfRange", true),
  ("parser.BasicParser", "PortMissing", true),
  ("parser.BasicParser", "PortInvalid", true),
  ("parser.BasicParser", "InvalidReverseSolidus", false),
  ("parser.BasicParser", "FileInvalidWindowsDriveLetter", false),
  ("parser.BasicParser", "InvalidReverseSolidus", false),
  ("parser.BasicParser", "FileInvalidWindowsDriveLetterHost", false),
  ("parser.BasicParser", "InvalidReverseSolidus", false),
  ("parser.BasicParser", "InvalidReverseSolidus", false),
  ("parser.BasicParser", "InvalidURLUnit", false),
  ("parser.BasicParser", "InvalidURLUnit", false),
  ("parser.BasicParser", "InvalidURLUnit", false),
  ("parser.BasicParser", "InvalidURLUnit", false),
  ("parser.BasicParser", "InvalidURLUnit", false),
  ("parser.BasicParser", "InvalidURLUnit", false),
  ("parser.BasicParser", "InvalidURLUnit", false),
  ("parser.BasicParser", "InvalidURLUnit", false)]

/-- the sites of the Go source, as (error type, failure flag), are — as a SET — exactly the sites the model replays:
    moving a site to another function, merging several equal sites into one helper (harmless patch H25: the three copies of
    the URL-unit validation became one method) or reordering changes nothing; a flag that no site of that type had, a new
    (type, flag) pair or a pair that disappears does. (Which of several equal sites runs is decided by the correspondence
    and the property's oracle, not by this fact.) -/
theorem C15_sites_classified :
    (Generated.errorSites.map (fun s => (s.2.1, s.2.2.1))).all (fun p => (modelledSites.map (fun s => (s.2.1, s.2.2))).contains p) = true ∧
    (modelledSites.map (fun s => (s.2.1, s.2.2))).all (fun p => (Generated.errorSites.map (fun s => (s.2.1, s.2.2.1))).contains p) = true := by
  decide +kernel

/-- `handleError` with `failure = true` always hands the error back, whatever the configuration -/
theorem C15_fatal_always_stops (cfg : Cfg) : stops cfg true = true := by simp [stops]

/-- `handleError` without reporting records nothing; with reporting it appends exactly one entry with the given flag
    and changes nothing else -/
theorem C15_record (cfg : Cfg) (u : Url) (t : ErrT) (f : Bool) :
    (cfg.report = false → record cfg u t f = u) ∧
    (cfg.report = true → record cfg u t f = { u with verrs := u.verrs ++ [⟨t, f⟩] }) := by
  constructor <;> intro h <;> simp [record, h]

/-- reporting never influences whether a `handleError` call makes the caller return -/
theorem C15_stops_independent_of_reporting (cfg : Cfg) (f b : Bool) : stops { cfg with report := b } f = stops cfg f := rfl

end WhatwgUrl.Props.C15
