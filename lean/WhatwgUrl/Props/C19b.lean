import WhatwgUrl.Proofs.Frame
import WhatwgUrl.Proofs.OpaqueSlash
import WhatwgUrl.Props.C04b
import WhatwgUrl.Props.C08
import WhatwgUrl.Props.C09b
import WhatwgUrl.Props.C19
/-
  C19b — derived accessors on reachable states: `IsIPv4`, `IsIPv6`, `DecodedPort`, `OpaquePath` agree with how the
  primary components were produced (host parser branch, port state, scheme state).

  1. `C19_ipv4_iff_parser`   — a domain host is four canonical octets exactly when it came out of the IPv4 parser
  2. `C19_ipv6_iff_bracket`  — a host starts with `[` exactly when the host-parser input did (IPv6 literal)
  3. `C19_decoded_port_sync` — on a well-formed record `DecodedPort()` is the number written in `Port()` (or the default)
  4. `C19_opaque_path`       — on a well-formed record an opaque path means no host and a one-element path;
     `C19_opaque_path_no_slash` — on every reachable record its text does not start with `/` (NOT a consequence of
     `WFs`: a separate machine invariant, `Proofs/OpaqueSlash.lean`)
-/
namespace WhatwgUrl.Props.C19b
open WhatwgUrl WhatwgUrl.Impl WhatwgUrl.Proofs.IPv4 WhatwgUrl.Proofs.Frame
open WhatwgUrl.Props.C04b (WFs portOk Reach CfgOk C04_reachable_WFs)

/-! ### 1. `IsIPv4` -/

/-- a domain host (special scheme, not bracketed) is dotted-decimal with four canonical octets exactly when it was
    produced by the IPv4 branch of the host parser -/
theorem C19_ipv4_iff_parser (cfg : Cfg) (I : Idna) (u0 : Url) (s : Bytes) (h : Bytes)
    (hc : cfg.preHost = none ∧ cfg.postHost = none ∧ cfg.laxHost = false ∧ cfg.failOnVErr = false)
    (hp : (parseHost cfg I u0 s false).out = .ok h) (hb : s.head? ≠ some 0x5b) :
    ((splitOn 0x2e h).length = 4 ∧ (splitOn 0x2e h).all isCanonicalOctet = true) ↔ (∃ n, n < 2^32 ∧ h = ipv4String n) := by
  obtain ⟨hpre, hpost, hlax, hf⟩ := hc
  constructor
  · rintro ⟨hl, ha⟩
    obtain ⟨a, -, -, hcase⟩ := Props.C09b.C09_output_shape cfg hpre hpost hlax hf I u0 s h hp hb
    rcases hcase with ⟨he, rfl⟩ | ⟨-, n, -, hn, rfl⟩
    · rw [endsInANumber_of_octets cfg u0 h hl ha] at he
      cases he
    · exact ⟨n, hn, rfl⟩
  · rintro ⟨n, -, rfl⟩
    exact ipv4String_octets n

/-- (←) alone needs nothing: the serialization of ANY number is four canonical octets -/
theorem C19_ipv4String_canonical (n : Nat) :
    (splitOn 0x2e (ipv4String n)).length = 4 ∧ (splitOn 0x2e (ipv4String n)).all isCanonicalOctet = true :=
  ipv4String_octets n

/-- the accessor form: for a url with a special scheme whose host is what the host parser returned -/
theorem C19_isIPv4_iff (cfg : Cfg) (I : Idna) (u0 u : Url) (s h : Bytes)
    (hc : cfg.preHost = none ∧ cfg.postHost = none ∧ cfg.laxHost = false ∧ cfg.failOnVErr = false)
    (hp : (parseHost cfg I u0 s false).out = .ok h) (hb : s.head? ≠ some 0x5b)
    (hu : u.host = some h) (hsp : cfg.isSpecial u.scheme = true) :
    isIPv4 cfg u = true ↔ ∃ n, n < 2^32 ∧ h = ipv4String n := by
  rw [← C19_ipv4_iff_parser cfg I u0 s h hc hp hb]
  unfold isIPv4
  simp only [hu, hsp, Bool.true_and, Bool.and_eq_true, beq_iff_eq]

/-! ### 2. `IsIPv6` -/

private theorem parseIPv6_head (cfg : Cfg) (u : Url) (t h : Bytes) (hh : (parseIPv6 cfg u t).out = .ok h) :
    h.head? = some 0x5b := by
  have := Props.C08.C08_parse_conforms cfg u t
  rw [hh] at this
  cases hs : Spec.parseIPv6 (goRunes t) with
  | none => rw [hs] at this; exact absurd this id
  | some a => rw [hs] at this; simp only at this; rw [this]; rfl

private theorem ipv4String_head (n : Nat) : (ipv4String n).head? ≠ some 0x5b := by
  intro e
  have hm : (0x5b : UInt8) ∈ ipv4String n := List.mem_of_mem_head? e
  rcases Props.C09b.ipv4String_bytes n _ hm with h | h
  · exact absurd h (by decide)
  · exact absurd h (by decide)

/-- an accepted host starts with `[` exactly when the input of the host parser did, i.e. exactly when it came out of
    the IPv6 branch (strict mode, no hooks; special and non-special schemes) -/
theorem C19_ipv6_iff_bracket (cfg : Cfg) (I : Idna) (u0 : Url) (s : Bytes) (ns : Bool) (h : Bytes)
    (hc : cfg.preHost = none ∧ cfg.postHost = none ∧ cfg.laxHost = false ∧ cfg.failOnVErr = false)
    (hp : (parseHost cfg I u0 s ns).out = .ok h) :
    h.head? = some 0x5b ↔ s.head? = some 0x5b := by
  obtain ⟨hpre, hpost, hlax, hf⟩ := hc
  by_cases hb : s.head? = some 0x5b
  · refine ⟨fun _ => hb, fun _ => ?_⟩
    match s, hb with
    | b0 :: tl, hb =>
      have hb0 : b0 = 0x5b := by simpa using hb
      subst hb0
      unfold parseHost at hp
      simp only [hpre, beq_self_eq_true, if_true] at hp
      split at hp
      · simp [fail6] at hp
      · exact parseIPv6_head _ _ _ _ hp
  · refine ⟨fun hh => ?_, fun hh => absurd hh hb⟩
    exfalso
    match s, hb with
    | [], _ =>
      rw [WhatwgUrl.Proofs.HostWF.parseHost_nil _ _ _ _ hpre] at hp
      cases hp
      simp at hh
    | b0 :: tl, hb =>
      have hb0 : b0 ≠ 0x5b := by intro e; apply hb; simp [e]
      cases ns with
      | true =>
        have hb' : (b0 == 0x5b) = false := by simpa using hb0
        unfold parseHost at hp
        simp only [hpre, hb', Bool.false_eq_true, if_false, if_true] at hp
        exact parseOpaqueHost_head cfg hlax _ _ _ hp hh
      | false =>
        obtain ⟨a, -, hforb, hcase⟩ := Props.C09b.C09_output_shape cfg hpre hpost hlax hf I u0 _ h hp hb
        rcases hcase with ⟨-, rfl⟩ | ⟨-, n, -, -, rfl⟩
        · match h, hh with
          | x :: rest, hh =>
            have hx : x = 0x5b := by simpa using hh
            subst hx
            obtain ⟨rs, hrs⟩ := goRunes_bracket rest
            have := hforb '[' (by rw [hrs]; simp)
            exact absurd this (by decide)
        · exact ipv4String_head n hh

/-- … and in that case it is the bracketed serialization of the address the standard's IPv6 parser finds -/
theorem C19_ipv6_is_literal (cfg : Cfg) (I : Idna) (u0 : Url) (s : Bytes) (ns : Bool) (h : Bytes)
    (hpre : cfg.preHost = none) (hp : (parseHost cfg I u0 s ns).out = .ok h) (hb : s.head? = some 0x5b) :
    ∃ a, Spec.parseIPv6 (goRunes (trimSuffix1 (trimPrefix1 s [0x5b]) [0x5d])) = some a ∧ h = [0x5b] ++ ipv6String a ++ [0x5d] := by
  match s, hb with
  | b0 :: tl, hb =>
    have hb0 : b0 = 0x5b := by simpa using hb
    subst hb0
    unfold parseHost at hp
    simp only [hpre, beq_self_eq_true, if_true] at hp
    split at hp
    · simp [fail6] at hp
    · have := Props.C08.C08_parse_conforms cfg u0 (trimSuffix1 (trimPrefix1 (0x5b :: tl) [0x5b]) [0x5d])
      rw [hp] at this
      cases hs : Spec.parseIPv6 (goRunes (trimSuffix1 (trimPrefix1 (0x5b :: tl) [0x5b]) [0x5d])) with
      | none => rw [hs] at this; exact absurd this id
      | some a => rw [hs] at this; exact ⟨a, rfl, this⟩

/-- the accessor form -/
theorem C19_isIPv6_iff (cfg : Cfg) (I : Idna) (u0 u : Url) (s : Bytes) (ns : Bool) (h : Bytes)
    (hc : cfg.preHost = none ∧ cfg.postHost = none ∧ cfg.laxHost = false ∧ cfg.failOnVErr = false)
    (hp : (parseHost cfg I u0 s ns).out = .ok h) (hu : u.host = some h) :
    isIPv6 u = true ↔ s.head? = some 0x5b := by
  rw [← C19_ipv6_iff_bracket cfg I u0 s ns h hc hp]
  unfold isIPv6
  simp only [hu, beq_iff_eq]

/-! ### 3. `DecodedPort` -/

/-- `strconv.Atoi(strconv.Itoa(n)) = n` for every `n` -/
theorem C19_atoi_itoa (n : Nat) : digitsVal 10 (itoa n) = n := digitsVal_itoa n

/-- on a well-formed record the cached number is the value of the port text: `DecodedPort()` is the number written in
    `Port()`, or the scheme's default when there is no port -/
theorem C19_decoded_port_sync (cfg : Cfg) (u : Url) (h : WFs cfg u) :
    decodedPortG cfg u = match u.port with | some p => digitsVal 10 p | none => defaultPort cfg u := by
  unfold decodedPortG
  cases hp : u.port with
  | none => simp
  | some p =>
    have hpo := h.2.2.2.2.1
    unfold portOk at hpo
    rw [hp] at hpo
    simp only [Bool.and_eq_true, beq_iff_eq] at hpo
    simp only [reduceCtorEq, beq_iff_eq, if_false]
    rw [hpo.1.1, digitsVal_itoa]

/-- … and the port text is the canonical decimal of `DecodedPort()`, which is at most 65535 -/
theorem C19_port_text (cfg : Cfg) (u : Url) (h : WFs cfg u) (p : Bytes) (hp : u.port = some p) :
    p = itoa (decodedPortG cfg u) ∧ decodedPortG cfg u ≤ 65535 := by
  have hpo := h.2.2.2.2.1
  unfold portOk at hpo
  rw [hp] at hpo
  simp only [Bool.and_eq_true, beq_iff_eq, decide_eq_true_eq] at hpo
  unfold decodedPortG
  simp only [hp, reduceCtorEq, beq_iff_eq, if_false]
  exact ⟨hpo.1.1, hpo.1.2⟩

/-- for every url reachable through the API (parse, resolve, setters) -/
theorem C19_decoded_port_reachable (cfg : Cfg) (I : Idna) (hcfg : CfgOk cfg I) (hfile : cfg.isSpecial (lit "file") = true)
    (hfail : cfg.failOnVErr = false) (u : Url) (h : Reach cfg I u) :
    decodedPortG cfg u = match u.port with | some p => digitsVal 10 p | none => defaultPort cfg u :=
  C19_decoded_port_sync cfg u (C04_reachable_WFs cfg I hcfg hfile hfail u h)

/-! ### 4. `OpaquePath` -/

/-- what `WFs` gives for an opaque path: no host, no credentials, no port, not a special scheme, and the path is its
    single element (which is what `Pathname()` returns) -/
theorem C19_opaque_path (cfg : Cfg) (u : Url) (h : WFs cfg u) (ho : u.path.opq = true) :
    u.host = none ∧ u.username = [] ∧ u.password = [] ∧ u.port = none ∧ cfg.isSpecial u.scheme = false ∧
      ∃ s, u.path.segs = [s] ∧ pathname u = s := by
  obtain ⟨-, h2, h3, h4, -, -⟩ := h
  have hh := (h3 ho).1
  obtain ⟨s, hs⟩ : ∃ s, u.path.segs = [s] := List.length_eq_one_iff.mp (h3 ho).2
  have hcred : ¬ (u.username ≠ [] ∨ u.password ≠ [] ∨ u.port ≠ none) := fun hc => (h4 hc).1 hh
  simp only [not_or, ne_eq, Decidable.not_not] at hcred
  refine ⟨hh, hcred.1, hcred.2.1, hcred.2.2, ?_, s, hs, ?_⟩
  · cases hsp : cfg.isSpecial u.scheme with
    | false => rfl
    | true => exact absurd hh (h2 hsp).1
  · simp [pathname, Path.str, Path.str?, ho, hs]

/-- the part that `WFs` does not record: the text of an opaque path never starts with `/` (the scheme state enters the
    opaque-path state only when the remaining input does not start with `/`, and the text only grows at its end; the
    setters for search / hash strip trailing spaces only) -/
def C19_opaque_path_no_slash_Statement : Prop :=
  ∀ (cfg : Cfg) (I : Idna), CfgOk cfg I → cfg.isSpecial (lit "file") = true → cfg.failOnVErr = false →
    ∀ u : Url, Reach cfg I u → u.path.opq = true → (pathname u).head? ≠ some 0x2f

/-- proved in full: `NoSl` (Proofs/OpaqueSlash.lean) is an invariant of the fresh parse (next to the structural
    invariant of C04b, with a positional clause for the opaque-path state) and of every setter -/
theorem C19_reachable_NoSl (cfg : Cfg) (I : Idna) (hcfg : CfgOk cfg I) (hfile : cfg.isSpecial (lit "file") = true)
    (hfail : cfg.failOnVErr = false) (u : Url) (h : Reach cfg I u) : WhatwgUrl.Proofs.OpaqueSlash.NoSl u := by
  induction h with
  | parse input _ =>
    exact WhatwgUrl.Proofs.OpaqueSlash.basicParser_NoSl cfg I input none hcfg (by intro b h; cases h) (by intro b h; cases h)
  | resolve b ref hb _ ih =>
    exact WhatwgUrl.Proofs.OpaqueSlash.basicParser_NoSl cfg I ref (some b) hcfg
      (by intro b' h; cases h; exact C04_reachable_WFs cfg I hcfg hfile hfail b hb) (by intro b' h; cases h; exact ih)
  | set s u v _ ih => exact WhatwgUrl.Proofs.OpaqueSlash.setU_NoSl cfg I s u v ih

theorem C19_opaque_path_no_slash : C19_opaque_path_no_slash_Statement := by
  intro cfg I hcfg hfile hfail u h ho
  exact (WhatwgUrl.Proofs.OpaqueSlash.NoSl_iff_pathname u).mp (C19_reachable_NoSl cfg I hcfg hfile hfail u h) ho

/-- the accessor statement for reachable urls: an opaque path means no host, and `Pathname()` is the single path
    element, which does not start with `/` -/
theorem C19_opaque_path_reachable (cfg : Cfg) (I : Idna) (hcfg : CfgOk cfg I) (hfile : cfg.isSpecial (lit "file") = true)
    (hfail : cfg.failOnVErr = false) (u : Url) (h : Reach cfg I u) (ho : u.path.opq = true) :
    u.host = none ∧ (∃ s, u.path.segs = [s] ∧ pathname u = s) ∧ (pathname u).head? ≠ some 0x2f :=
  have hw := C19_opaque_path cfg u (C04_reachable_WFs cfg I hcfg hfile hfail u h) ho
  ⟨hw.1, hw.2.2.2.2.2, C19_opaque_path_no_slash cfg I hcfg hfile hfail u h ho⟩

/-- a parse result (any return value), with the hypotheses that this part really needs -/
theorem C19_opaque_path_parse (cfg : Cfg) (I : Idna) (hcfg : CfgOk cfg I) (input : Bytes)
    (ho : (parse cfg I input).url.path.opq = true) : (pathname (parse cfg I input).url).head? ≠ some 0x2f :=
  (WhatwgUrl.Proofs.OpaqueSlash.NoSl_iff_pathname _).mp
    (WhatwgUrl.Proofs.OpaqueSlash.basicParser_NoSl cfg I input none hcfg (by intro b h; cases h) (by intro b h; cases h)) ho

/-- it does NOT follow from `WFs` alone: a well-formed record with the opaque path `/x` -/
example : WFs {} { scheme := lit "sc", path := ⟨[lit "/x"], true⟩ } ∧
    (pathname { scheme := lit "sc", path := ⟨[lit "/x"], true⟩ }).head? = some 0x2f := by decide

/-! ### non-vacuity -/

section Examples
open WhatwgUrl.Props.C09b (I0 exS exS_out)

example : ({} : Cfg).preHost = none ∧ ({} : Cfg).postHost = none ∧ ({} : Cfg).laxHost = false ∧ ({} : Cfg).failOnVErr = false :=
  ⟨rfl, rfl, rfl, rfl⟩

/-- an IPv4 host in a non-canonical spelling: the host parser's output (evaluated through the closed form of C09b,
    since `decodePercent` does not reduce under `decide`) -/
theorem ex4_out : (parseHost {} I0 {} (lit "0X7f.1") false).out = .ok (lit "127.0.0.1") := by
  have hdec : decodePercent {} (lit "0X7f.1") = lit "0X7f.1" := WhatwgUrl.Proofs.Domain.decodePercent_no_pct {} _ (by decide)
  rw [Props.C09b.C09_ascii_host {} rfl rfl rfl I0 (fun _ _ => rfl) {} _ (by decide) (by decide) (by rw [hdec]; decide), hdec]
  decide +kernel

-- hypotheses of `C19_ipv4_iff_parser`, both sides true
example : (lit "0X7f.1").head? ≠ some 0x5b := by decide
example : ∃ n, n < 2^32 ∧ lit "127.0.0.1" = ipv4String n := ⟨2130706433, by decide, by decide +kernel⟩
example : (splitOn 0x2e (lit "127.0.0.1")).length = 4 ∧ (splitOn 0x2e (lit "127.0.0.1")).all isCanonicalOctet = true :=
  (C19_ipv4_iff_parser {} I0 {} _ _ ⟨rfl, rfl, rfl, rfl⟩ ex4_out (by decide)).mpr ⟨2130706433, by decide, by decide +kernel⟩
-- … and both sides false: a domain host
example : exS.head? ≠ some 0x5b := by decide
example : ¬ ((splitOn 0x2e (lit "example.com")).length = 4 ∧ (splitOn 0x2e (lit "example.com")).all isCanonicalOctet = true) := by
  decide
example : ¬ ∃ n, n < 2^32 ∧ lit "example.com" = ipv4String n := fun hn =>
  absurd ((C19_ipv4_iff_parser {} I0 {} _ _ ⟨rfl, rfl, rfl, rfl⟩ exS_out (by decide)).mpr hn) (by decide)
example : isIPv4 {} { scheme := lit "http", host := some (lit "127.0.0.1") } = true := by decide
-- four octets that are not canonical do not count (and cannot come out of the parser)
example : isCanonicalOctet (lit "01") = false ∧ isCanonicalOctet (lit "256") = false ∧ isCanonicalOctet [] = false := by decide

-- hypotheses of `C19_ipv6_iff_bracket`: the three branches of the host parser
example : (parseHost {} I0 {} (lit "[::1]") false).out = .ok (lit "[::1]") := by decide +kernel
example : (parseHost {} I0 {} (lit "[0:0::0:1]") true).out = .ok (lit "[::1]") := by decide +kernel
example : (parseHost {} I0 {} (lit "h%41") true).out = .ok (lit "h%41") := by decide +kernel
example : (lit "[::1]").head? = some 0x5b ∧ (lit "h%41").head? ≠ some 0x5b := by decide
-- a `[` later in an opaque host is rejected, so it cannot be produced
example : (parseHost {} I0 {} (lit "h[") true).out = .err ⟨.HostInvalidCodePoint, true⟩ := by decide +kernel
-- in lax mode the statement fails (the input is returned unchanged at the first forbidden code point): `laxHost = false`
-- is needed
example : (parseHost { laxHost := true } I0 {} (lit "h[") true).out = .ok (lit "h[") := by decide +kernel

-- hypothesis of `C19_decoded_port_sync`: a well-formed record with a port, and one without
def exP : Url := { scheme := lit "http", host := some (lit "h"), port := some (lit "8080"), decodedPort := 8080, path := ⟨[[]], false⟩ }
example : WFs {} exP := by decide
example : decodedPortG {} exP = 8080 ∧ digitsVal 10 (lit "8080") = 8080 := by decide
example : WFs {} { exP with port := none, decodedPort := 0 } ∧ decodedPortG {} { exP with port := none, decodedPort := 0 } = 80 := by
  decide
-- a record whose cache is out of sync is not well-formed (so the hypothesis matters)
example : ¬ WFs {} { exP with decodedPort := 1 } := by decide
example : digitsVal 10 (itoa 65535) = 65535 := by decide +kernel

-- hypothesis of `C19_opaque_path` / `C19_opaque_path_parse`: parses that produce an opaque path
example : (parse {} I0 (lit "mailto:a@b")).url.path = ⟨[lit "a@b"], true⟩ ∧ (parse {} I0 (lit "mailto:a@b")).ret = .url := by
  decide +kernel
example : (parse {} I0 (lit "sc:x/y")).url.path = ⟨[lit "x/y"], true⟩ := by decide +kernel
-- `sc:/x` is NOT opaque (path-or-authority state): that is why the text of an opaque path cannot start with `/`
example : (parse {} I0 (lit "sc:/x")).url.path = ⟨[lit "x"], false⟩ := by decide +kernel
example : WFs {} { scheme := lit "mailto", path := ⟨[lit "a@b"], true⟩ } := by decide
example : pathname { scheme := lit "mailto", path := ⟨[lit "a@b"], true⟩ } = lit "a@b" := by decide

end Examples

end WhatwgUrl.Props.C19b

section AxiomCheck
open WhatwgUrl.Props.C19b
#print axioms C19_ipv4_iff_parser
#print axioms C19_ipv4String_canonical
#print axioms C19_isIPv4_iff
#print axioms C19_ipv6_iff_bracket
#print axioms C19_ipv6_is_literal
#print axioms C19_isIPv6_iff
#print axioms C19_atoi_itoa
#print axioms C19_decoded_port_sync
#print axioms C19_port_text
#print axioms C19_decoded_port_reachable
#print axioms C19_opaque_path
#print axioms C19_reachable_NoSl
#print axioms C19_opaque_path_no_slash
#print axioms C19_opaque_path_reachable
#print axioms C19_opaque_path_parse
end AxiomCheck
