import WhatwgUrl.Proofs.NoPanic
import WhatwgUrl.Proofs.SaneInv4
/-
  C02b — absence of Go run-time panics (nil dereference, index out of range) in the host parser, in a fresh
  `BasicParser` call and in the nine setters.

  Panics are an explicit outcome of the model (`HOut.panic n`, `Ret.panic n`); the theorems say that this outcome is
  never produced.  Technique (see `Proofs/NoPanic.lean`): the compositional shape predicate of `Proofs/Termination.lean`
  generalised to "every `.cont ps'` satisfies the loop invariant `InvP e ps'` and every `.done x` is not a panic".

  Part 4: the record invariant `Sane` needed by the setters is NOT inductive as first formulated (refuted below,
  `C02_sane_invariant_Statement_false`); the corrected invariant `SaneC cfg` is (`Proofs/SaneInv*.lean`: same technique
  with a per-state invariant `J`), provided "file" is a special scheme of the configuration.
-/
namespace WhatwgUrl.Props.C02b
open WhatwgUrl WhatwgUrl.Impl WhatwgUrl.Proofs.NoPanic
open WhatwgUrl.Proofs.SaneInv (SP SaneC Core K J Hq basicParser_sg SaneC_core)

/-! ### 1. host level -/

/-- site 1 (`numbers[len(numbers)-1]` on an empty slice) is unreachable -/
theorem C02_parseIPv4_no_panic (cfg : Cfg) (u : Url) (s : Bytes) : ∀ n, (parseIPv4 cfg u s).out ≠ .panic n :=
  parseIPv4_np cfg u s

/-- sites 2, 3 (`address[pieceIndex] = …` out of range) and 4 (the swap loop) are unreachable -/
theorem C02_parseIPv6_no_panic (cfg : Cfg) (u : Url) (s : Bytes) : ∀ n, (parseIPv6 cfg u s).out ≠ .panic n :=
  parseIPv6_np cfg u s

theorem C02_parseHost_no_panic (cfg : Cfg) (I : Idna) (u : Url) (s : Bytes) (ns : Bool) :
    ∀ n, (parseHost cfg I u s ns).out ≠ .panic n :=
  parseHost_np cfg I u s ns

/-! ### 2. a fresh parse -/

theorem C02_parse_no_panic (cfg : Cfg) (I : Idna) (input : Bytes) (base : Option Url) :
    ∀ n, (basicParser cfg I input base none none).ret ≠ .panic n := by
  apply basicParser_np
  intro e u hb ho hs hh hq
  simp [InvP, relSt, ovSt, schSt, ho]

/-! ### 3. the setters -/

/-- what every url produced by the parser satisfies and what the setters need -/
def Sane (u : Url) : Prop := (u.scheme = lit "file" → u.host ≠ none) ∧ (u.path.opq = true → u.path.segs ≠ [])

instance (u : Url) : Decidable (Sane u) := by unfold Sane; infer_instance

/-- a state-override call of `basicParser` from one of the seven override states used by the setters -/
private theorem ov_np (cfg : Cfg) (I : Idna) (input : Bytes) (u : Url) (s : State)
    (hs : s = .schemeStart ∨ s = .host ∨ s = .hostname ∨ s = .port ∨ s = .pathStart ∨ s = .query ∨ s = .fragment)
    (hf : u.scheme = lit "file" → u.host ≠ none) (hq : s = .query → u.query.isSome = true) :
    ∀ n, (basicParser cfg I input none (some u) (some s)).ret ≠ .panic n := by
  apply basicParser_np
  intro e u' hb ho hs' hh hq'
  simp only [Option.getD_some] at hs' hh hq' ⊢
  rcases hs with rfl | rfl | rfl | rfl | rfl | rfl | rfl <;>
    simp_all [InvP, relSt, ovSt, schSt]

theorem C02_setter_no_panic (cfg : Cfg) (I : Idna) (s : Setter) (u : Url) (v : Bytes) (hu : Sane u) :
    ∀ n, (setU cfg I s u v).ret ≠ .panic n := by
  obtain ⟨hf, hp⟩ := hu
  cases s <;> unfold setU <;> dsimp only
  · exact ov_np _ _ _ _ _ (by simp) hf (by simp)
  · unfold setUsername keep; split <;> (intro n; simp)
  · unfold setPassword keep; split <;> (intro n; simp)
  · unfold setHost keep
    split
    · intro n; simp
    · exact ov_np _ _ _ _ _ (by simp) hf (by simp)
  · unfold setHostname keep
    split
    · intro n; simp
    · exact ov_np _ _ _ _ _ (by simp) hf (by simp)
  · unfold setPort keep
    split
    · intro n; simp
    · split
      · intro n; simp
      · exact ov_np _ _ _ _ _ (by simp) hf (by simp)
  · unfold setPathname keep
    split
    · intro n; simp
    · exact ov_np _ _ _ _ _ (by simp) hf (by simp)
  · unfold setSearchU keep stripTrailingSpacesIfOpaque
    dsimp only
    split
    · split
      · split
        · intro n; simp
        · rename_i h
          split at h
          · split at h
            · cases h
            · rename_i hopq _ hsegs; exact absurd hsegs (hp hopq)
          · cases h
      · intro n; simp
    · apply ov_np _ _ _ _ _ (by simp)
      · split <;> exact hf
      · intro _
        split
        · rfl
        · rename_i h; cases hq : u.query <;> simp_all
  · unfold setHash keep stripTrailingSpacesIfOpaque
    dsimp only
    split
    · split
      · split
        · intro n; simp
        · rename_i h
          split at h
          · split at h
            · cases h
            · rename_i hopq _ hsegs; exact absurd hsegs (hp hopq)
          · cases h
      · intro n; simp
    · exact ov_np _ _ _ _ _ (by simp) hf (by simp)

/-! ### non-vacuity -/

private def idI : Idna := fun s => (s, false)

/-- the host parsers return hosts and errors (so "not a panic" is not vacuous), including on the paths next to the
    guarded stores: 8 pieces, a 9th piece, an IPv4 tail after 6 and after 7 pieces -/
example : (parseIPv4 {} {} (lit "1.2.3.4")).out = .ok (lit "1.2.3.4") := by decide +kernel
example : (parseIPv4 {} {} (lit "0x7f.1")).out = .ok (lit "127.0.0.1") := by decide +kernel
example : (parseIPv6 {} {} (lit "1::2:1.2.3.4")).out = .ok (lit "[1::2:102:304]") := by decide +kernel
example : (parseIPv6 {} {} (lit "1:2:3:4:5:6:7:8")).out = .ok (lit "[1:2:3:4:5:6:7:8]") := by decide +kernel
example : (parseIPv6 {} {} (lit "1:2:3:4:5:6:1.2.3.4")).out = .ok (lit "[1:2:3:4:5:6:102:304]") := by decide +kernel
example : (parseIPv6 {} {} (lit "1:2:3:4:5:6:7:8:9")).out = .err ⟨.IPv6TooManyPieces, true⟩ := by decide +kernel
example : (parseIPv6 {} {} (lit "1:2:3:4:5:6:7:1.2.3.4")).out = .err ⟨.IPv4InIPv6TooManyPieces, true⟩ := by decide +kernel
example : (parseHost {} idI {} (lit "[::1]") false).out = .ok (lit "[::1]") := by decide +kernel
example : (parseHost {} idI {} (lit "a b") true).out = .err ⟨.HostInvalidCodePoint, true⟩ := by decide +kernel
/-- the modelled panics of the host level are real outcomes of the primitives when the index invariants are violated -/
example : setPiece (List.replicate 8 0) 8 1 = none := by decide +kernel
example : swap6 8 (List.replicate 8 0) 7 5 4 = none := by decide +kernel

/-- `Sane` holds of a concrete parsed url, and a setter call on it returns `.url` -/
example : Sane (basicParser {} idI (lit "http://[::1]:8/a?q#f") none none none).url := by decide +kernel
example : (setU {} idI .port (basicParser {} idI (lit "http://[::1]:8/a?q#f") none none none).url (lit "81")).ret = .url := by
  decide +kernel
example : (setU {} idI .protocol (basicParser {} idI (lit "http://[::1]:8/a?q#f") none none none).url (lit "ws")).ret = .url := by
  decide +kernel

/-- the `Sane` hypothesis of `C02_setter_no_panic` cannot be dropped: sites 20, 21 (and 10, see `Props/C02bSite10.lean`)
    are reached from non-`Sane` urls -/
example : (setU {} idI .search { scheme := lit "a", path := ⟨[], true⟩ } []).ret = .panic 20 := by decide +kernel
example : (setU {} idI .hash { scheme := lit "a", path := ⟨[], true⟩ } []).ret = .panic 21 := by decide +kernel
/-- … and the restriction to the override states used by the setters / to the loop invariant matters: sites 11, 12, 15 are
    reached from the states `relative`, `relativeSlash` (no base) and `query` (nil query) -/
example : (basicParser {} idI (lit "x") none (some {}) (some .relative)).ret = .panic 11 := by decide +kernel
example : (basicParser {} idI (lit "x") none (some {}) (some .relativeSlash)).ret = .panic 12 := by decide +kernel
example : (loop { cfg := {}, I := idI, src := lit "#", runes := goRunes (lit "#"), base := none, ov := none } 5
    { state := .query, pointer := -1, eof := false, buffer := [], atFlag := false, bracketFlag := false, pwSeen := false,
      url := {} }).ret = .panic 15 := by decide +kernel

/-! ### 4. `Sane` as an invariant: the statement as first formulated is FALSE -/

/-- the first formulation of "`Sane` is an invariant of the parser and of the setters" -/
def C02_sane_invariant_Statement : Prop :=
  (∀ (cfg : Cfg) (I : Idna) (input : Bytes) (base : Option Url),
      (basicParser cfg I input base none none).ret = .url → (∀ b, base = some b → Sane b) →
      Sane (basicParser cfg I input base none none).url) ∧
  (∀ (cfg : Cfg) (I : Idna) (s : Setter) (u : Url) (v : Bytes), Sane u → Sane (setU cfg I s u v).url)

/-- a `Sane` base with scheme "file" and an opaque path: the fragment-only reference copies scheme and path but not the host -/
private def bFileOpq : Url := { scheme := lit "file", host := some [], path := ⟨[lit "x"], true⟩ }
/-- a `Sane` url with a special scheme and no host -/
private def uHttpNoHost : Url := { scheme := lit "http", host := none, path := ⟨[lit "x"], false⟩ }

theorem C02_sane_invariant_parser_false :
    ¬ (∀ (cfg : Cfg) (I : Idna) (input : Bytes) (base : Option Url),
      (basicParser cfg I input base none none).ret = .url → (∀ b, base = some b → Sane b) →
      Sane (basicParser cfg I input base none none).url) := by
  intro h
  have := h {} idI (lit "#f") (some bFileOpq) (by decide +kernel) (by intro b hb; cases hb; decide +kernel)
  revert this
  decide +kernel

theorem C02_sane_invariant_setter_false :
    ¬ (∀ (cfg : Cfg) (I : Idna) (s : Setter) (u : Url) (v : Bytes), Sane u → Sane (setU cfg I s u v).url) := by
  intro h
  have := h {} idI .protocol uHttpNoHost (lit "file") (by decide +kernel)
  revert this
  decide +kernel

theorem C02_sane_invariant_Statement_false : ¬ C02_sane_invariant_Statement :=
  fun h => C02_sane_invariant_parser_false h.1

/-- FINDING.  With a configuration whose special-scheme table does not contain "file", a url PRODUCED BY THE PARSER leaves
    `Sane` through the protocol setter: parse "foo:/x", set protocol "file" (accepted: both schemes are non-special) gives
    scheme "file" with a nil host.  In the model version with panic site 10 (`*url.host` on nil in the scheme state) the next
    protocol setter call then panics — see `Props/C02bSite10.lean`. -/
private def cfgNoFile : Cfg := { specialSchemes := [(lit "http", lit "80")] }
example : (basicParser cfgNoFile idI (lit "foo:/x") none none none).ret = .url ∧
    Sane (basicParser cfgNoFile idI (lit "foo:/x") none none none).url := by decide +kernel
example : (setU cfgNoFile idI .protocol (basicParser cfgNoFile idI (lit "foo:/x") none none none).url (lit "file")).ret = .url ∧
    ¬ Sane (setU cfgNoFile idI .protocol (basicParser cfgNoFile idI (lit "foo:/x") none none none).url (lit "file")).url := by
  decide +kernel

/-! ### 4'. the corrected invariant

  `SaneC cfg u` (defined in `Proofs/SaneInv.lean`):
      (u.scheme = "file" ∨ cfg.isSpecial u.scheme → u.host ≠ none ∧ u.path.opq = false) ∧ (u.path.opq = true → u.path.segs ≠ [])
  It implies `Sane`, every url returned by a fresh parse satisfies it (given a `SaneC` base), and every setter preserves it
  — for EVERY outcome of the setter, since Go mutates the url in place — provided "file" is a special scheme of the
  configuration (without that hypothesis the FINDING above is a counterexample). -/

theorem SaneC_Sane {cfg : Cfg} {u : Url} (h : SaneC cfg u) : Sane u :=
  ⟨fun hs => (h.1 (Or.inl hs)).1, h.2⟩

instance (cfg : Cfg) (u : Url) : Decidable (SaneC cfg u) := by unfold SaneC SP; infer_instance

/-- a url returned by a fresh parse is `SaneC` (the base, if any, being `SaneC`) -/
theorem C02_parse_saneC (cfg : Cfg) (I : Idna) (input : Bytes) (base : Option Url)
    (hB : ∀ b, base = some b → SaneC cfg b) (h : (basicParser cfg I input base none none).ret = .url) :
    SaneC cfg (basicParser cfg I input base none none).url := by
  refine basicParser_sg cfg I input base none none hB (by simp) (by simp) ?_ (Or.inl h)
  intro e u hc hb ho hcore
  refine ⟨fun _ => ?_, fun h => by rw [ho] at h; cases h⟩
  show u.path.opq = false
  rw [hcore.2.2]
  rfl

/-- hence it is `Sane`: the strongest true variant of the first half of `C02_sane_invariant_Statement` -/
theorem C02_parse_sane (cfg : Cfg) (I : Idna) (input : Bytes) (base : Option Url)
    (hB : ∀ b, base = some b → SaneC cfg b) (h : (basicParser cfg I input base none none).ret = .url) :
    Sane (basicParser cfg I input base none none).url :=
  SaneC_Sane (C02_parse_saneC cfg I input base hB h)

/-- without a base no hypothesis is needed -/
theorem C02_parse_sane_nobase (cfg : Cfg) (I : Idna) (input : Bytes)
    (h : (basicParser cfg I input none none none).ret = .url) : Sane (basicParser cfg I input none none none).url :=
  C02_parse_sane cfg I input none (by intro b hb; cases hb) h

/-- a state-override call from one of the seven override states of the setters keeps `SaneC`, whatever the outcome -/
private theorem ov_sane (cfg : Cfg) (I : Idna) (input : Bytes) (u : Url) (s : State)
    (hF : cfg.isSpecial (lit "file") = true)
    (hs : s = .schemeStart ∨ s = .host ∨ s = .hostname ∨ s = .port ∨ s = .pathStart ∨ s = .query ∨ s = .fragment)
    (hu : SaneC cfg u) (hp : s = .pathStart → u.path.opq = false) :
    SaneC cfg (basicParser cfg I input none (some u) (some s)).url := by
  refine basicParser_sg cfg I input none (some u) (some s) (by intro b hb; cases hb) (fun _ => hF) (fun _ => hu) ?_
    (Or.inr rfl)
  intro e u' hc hb ho hcore
  have hu' : SaneC e.cfg u' := by rw [hc]; exact SaneC_core hcore hu
  refine ⟨fun h => (by rw [ho] at h; cases h), fun _ => ⟨?_, hu', ?_⟩⟩
  · rcases hs with rfl | rfl | rfl | rfl | rfl | rfl | rfl <;> rfl
  · simp only [Option.getD_some] at hcore ⊢
    rcases hs with rfl | rfl | rfl | rfl | rfl | rfl | rfl <;> intro h <;>
      first | (rw [hcore.2.2]; exact hp rfl) | cases h

/-- every setter preserves `SaneC` (for every outcome) when "file" is a special scheme of the configuration:
    the strongest true variant of the second half of `C02_sane_invariant_Statement` -/
theorem C02_setter_saneC (cfg : Cfg) (I : Idna) (s : Setter) (u : Url) (v : Bytes)
    (hF : cfg.isSpecial (lit "file") = true) (hu : SaneC cfg u) : SaneC cfg (setU cfg I s u v).url := by
  have hstrip : ∀ (u' : Url) (p : Path), SaneC cfg u' → stripTrailingSpacesIfOpaque u'.path = some p →
      SaneC cfg { u' with path := p } := by
    intro u' p hu' hp
    unfold stripTrailingSpacesIfOpaque at hp
    split at hp
    · split at hp
      · rename_i hopq s0 rest hsegs
        cases hp
        refine ⟨fun hs => ?_, fun _ => by simp⟩
        exact hu'.1 hs
      · cases hp
    · cases hp; exact hu'
  cases s <;> unfold setU <;> dsimp only
  · exact ov_sane _ _ _ _ _ hF (by simp) hu (by simp)
  · unfold setUsername keep; split <;> exact hu
  · unfold setPassword keep; split <;> exact hu
  · unfold setHost keep
    split
    · exact hu
    · exact ov_sane _ _ _ _ _ hF (by simp) hu (by simp)
  · unfold setHostname keep
    split
    · exact hu
    · exact ov_sane _ _ _ _ _ hF (by simp) hu (by simp)
  · unfold setPort keep
    split
    · exact hu
    · split
      · exact hu
      · exact ov_sane _ _ _ _ _ hF (by simp) hu (by simp)
  · unfold setPathname keep
    split
    · exact hu
    · rename_i hopq
      refine ov_sane _ _ _ _ _ hF (by simp) ⟨fun hs => ⟨(hu.1 hs).1, rfl⟩, fun h => by cases h⟩ (fun _ => rfl)
  · unfold setSearchU keep
    dsimp only
    split
    · split
      · split
        · rename_i p hp; exact hstrip { u with query := none } p hu hp
        · exact hu
      · exact hu
    · refine ov_sane _ _ _ _ _ hF (by simp) ?_ (by simp)
      split <;> exact hu
  · unfold setHash keep
    dsimp only
    split
    · split
      · split
        · rename_i p hp; exact hstrip { u with fragment := none } p hu hp
        · exact hu
      · exact hu
    · exact ov_sane _ _ _ _ _ hF (by simp) hu (by simp)

/-- so, with "file" special, no sequence of setter calls on a parsed url ever panics: `SaneC` is preserved and implies the
    hypothesis of `C02_setter_no_panic` -/
theorem C02_setter_no_panic_saneC (cfg : Cfg) (I : Idna) (s : Setter) (u : Url) (v : Bytes)
    (hF : cfg.isSpecial (lit "file") = true) (hu : SaneC cfg u) :
    (∀ n, (setU cfg I s u v).ret ≠ .panic n) ∧ SaneC cfg (setU cfg I s u v).url :=
  ⟨C02_setter_no_panic cfg I s u v (SaneC_Sane hu), C02_setter_saneC cfg I s u v hF hu⟩

/-- non-vacuity: the default configuration has "file" special; a parsed url is `SaneC`; a `SaneC` base -/
example : (Cfg.default).isSpecial (lit "file") = true := by decide +kernel
example : SaneC {} (basicParser {} idI (lit "http://[::1]:8/a?q#f") none none none).url := by decide +kernel
example : SaneC {} { scheme := lit "http", host := some (lit "h"), path := ⟨[lit "a"], false⟩ } ∧
    (basicParser {} idI (lit "../b") (some { scheme := lit "http", host := some (lit "h"), path := ⟨[lit "a"], false⟩ }) none none).ret
      = .url := by decide +kernel
/-- the hypothesis "file is special" of `C02_setter_saneC` cannot be dropped (the FINDING above, on `SaneC`) -/
example : SaneC cfgNoFile (basicParser cfgNoFile idI (lit "foo:/x") none none none).url ∧
    ¬ SaneC cfgNoFile (setU cfgNoFile idI .protocol (basicParser cfgNoFile idI (lit "foo:/x") none none none).url (lit "file")).url := by
  decide +kernel
/-- the two counterexample urls above are `Sane` but not `SaneC` -/
example : Sane bFileOpq ∧ ¬ SaneC {} bFileOpq := by decide +kernel
example : Sane uHttpNoHost ∧ ¬ SaneC {} uHttpNoHost := by decide +kernel

end WhatwgUrl.Props.C02b

#print axioms WhatwgUrl.Props.C02b.C02_parseIPv4_no_panic
#print axioms WhatwgUrl.Props.C02b.C02_parseIPv6_no_panic
#print axioms WhatwgUrl.Props.C02b.C02_parseHost_no_panic
#print axioms WhatwgUrl.Props.C02b.C02_parse_no_panic
#print axioms WhatwgUrl.Props.C02b.C02_setter_no_panic
#print axioms WhatwgUrl.Props.C02b.C02_sane_invariant_Statement_false
#print axioms WhatwgUrl.Props.C02b.C02_parse_saneC
#print axioms WhatwgUrl.Props.C02b.C02_parse_sane
#print axioms WhatwgUrl.Props.C02b.C02_setter_saneC
#print axioms WhatwgUrl.Props.C02b.C02_setter_no_panic_saneC
