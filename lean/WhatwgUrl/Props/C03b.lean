import WhatwgUrl.Proofs.RoundTripD
import WhatwgUrl.Proofs.RoundTripStable
import WhatwgUrl.Props.C04b
/-
  C03b — serialize-then-parse is the identity on url RECORDS that satisfy explicit, decidable side conditions.

  `theorem C03_roundtrip_record (I) (u) : WFs {} u → RTc u → HostStable I u →
      ∃ u', parse {} I (href u false) = ⟨u', .url⟩ ∧ Same u' u`

  * `WFs {} u`       structural well-formedness (`Proofs/WellFormed.lean`; established for every reachable record by
                     `Props/C04b.lean`);
  * `RTc u`          character (and one cache) conditions, `Proofs/RoundTrip.lean`:
       - `u.port = none → u.decodedPort = 0`                                   (the cache of the port is in sync);
       - fragment / query / user name / password contain no byte of their percent-encode sets
         (query: the special-query set when the scheme is special); this excludes every byte ≥ 0x7f and ≤ 0x20 and the
         delimiters `#`, resp. `: @ / ? # \ …`;
       - opaque path (`RTopq`): every byte is in 0x20 … 0x7e and is not `?` `#`; the text does not start with `/`; it does
         not end in a space unless a query or a fragment follows;
       - list path (`RTlist`): every segment consists of bytes outside the path set other than `/` (and `\` when the
         scheme is special) and is not a dot segment (the model's own `isSingleDot` / `isDoubleDot`); it is not empty when
         there is no host; for `file` the first segment is not a non-normalised drive letter (`C|`);
       - host (`RThost`): every byte is in 0x21 … 0x7e and is none of `/ ? # @` (nor `\` when special); no `:` outside
         `[ … ]` and the brackets are closed at the end (`hostScan`); for `file`: the host is not `localhost` and not a
         Windows drive letter;
  * `HostStable I u` `∀ h ∈ u.host, (parseHost {} I {} h (!isSpecial u.scheme)).out = .ok h`: the host text is a fixed
                     point of the host parser (the record handed to the parser is irrelevant: `parseHost_ok_indep`).

  `Same u' u` (`Proofs/HostWF.lean`) = all of scheme, username, password, host, port, decodedPort, path, query, fragment
  are equal; in particular the serializations are equal (`href_of_Same`).

  The proof is by symbolic execution of the machine (bulk-step lemmas per state, `Proofs/RoundTrip*.lean`) in four stages.
-/
namespace WhatwgUrl.Props.C03b
open WhatwgUrl WhatwgUrl.Impl
open WhatwgUrl.Props.C04b (WFs)
open WhatwgUrl.Proofs.HostWF (Same IdnaNonEmpty)
open WhatwgUrl.Proofs.RoundTrip

/-- the two serializations agree when the records agree up to the diagnostic fields -/
theorem href_of_Same {u' u : Url} (h : Same u' u) (x : Bool) : href u' x = href u x := by
  obtain ⟨h1, h2, h3, h4, h5, h6, h7, h8, h9⟩ := h
  unfold href
  rw [h1, h2, h3, h4, h5, h7, h8, h9]

private def I0 : Idna := fun s => (s, false)

/-! ### stage A: opaque paths -/

theorem C03_roundtrip_opaque (I : Idna) (u : Url) (hwf : WFs {} u) (hc : RTc u) (ho : u.path.opq = true) :
    ∃ u', parse {} I (href u false) = ⟨u', .url⟩ ∧ Same u' u :=
  roundtrip_opaque I u hwf hc ho

private def exA : Url := { scheme := lit "mailto", path := ⟨[lit "a@b c%zz"], true⟩, query := some (lit "x=1&y"), fragment := some (lit "f") }
example : WFs {} exA ∧ RTc exA ∧ exA.path.opq = true := by decide +kernel
example : href exA false = lit "mailto:a@b c%zz?x=1&y#f" := by decide +kernel
/-- the conclusion, evaluated -/
example : parse {} I0 (href exA false) = ⟨exA, .url⟩ := by decide +kernel
/-- an opaque path that ends in a space round-trips only when a query or fragment follows -/
example : RTc { scheme := lit "sc", path := ⟨[lit "a "], true⟩, fragment := some [] } ∧
    ¬ RTc { scheme := lit "sc", path := ⟨[lit "a "], true⟩ } := by decide +kernel

/-! ### stage B: list paths without a host (`sc:/a/b?q#f`, and the `/.` guard `sc:/.//x`) -/

theorem C03_roundtrip_nohost (I : Idna) (u : Url) (hwf : WFs {} u) (hc : RTc u) (hh : u.host = none) (ho : u.path.opq = false) :
    ∃ u', parse {} I (href u false) = ⟨u', .url⟩ ∧ Same u' u :=
  roundtrip_nohost I u hwf hc hh ho

private def exB1 : Url := { scheme := lit "sc", path := ⟨[lit "a", lit "b%2F", []], false⟩, query := some (lit "q"), fragment := some (lit "f") }
private def exB2 : Url := { scheme := lit "sc", path := ⟨[[], lit "x"], false⟩ }
example : WFs {} exB1 ∧ RTc exB1 ∧ exB1.host = none ∧ exB1.path.opq = false := by decide +kernel
example : WFs {} exB2 ∧ RTc exB2 ∧ exB2.host = none ∧ exB2.path.opq = false := by decide +kernel
example : href exB1 false = lit "sc:/a/b%2F/?q#f" ∧ href exB2 false = lit "sc:/.//x" := by decide +kernel
example : parse {} I0 (href exB1 false) = ⟨exB1, .url⟩ ∧ parse {} I0 (href exB2 false) = ⟨exB2, .url⟩ := by decide +kernel

/-! ### stage C: authority (credentials, host, port), non-special and special non-file schemes -/

theorem C03_roundtrip_authority (I : Idna) (u : Url) (hwf : WFs {} u) (hc : RTc u) (hh : HostStable I u)
    (hhost : u.host ≠ none) (hnf : u.scheme ≠ lit "file") :
    ∃ u', parse {} I (href u false) = ⟨u', .url⟩ ∧ Same u' u := by
  cases hx : u.host with
  | none => exact absurd hx hhost
  | some h => exact roundtrip_authority I u hwf hc hh h hx hnf

private def exC1 : Url :=
  { scheme := lit "foo", username := lit "u", password := lit "p%40", host := some (lit "H%41"), port := some (lit "8"), decodedPort := 8,
    path := ⟨[lit "a", []], false⟩, query := some (lit "q"), fragment := some (lit "f") }
private def exC2 : Url :=
  { scheme := lit "http", username := lit "u", host := some (lit "[::1]"), port := some (lit "8080"), decodedPort := 8080,
    path := ⟨[lit "a", lit "b"], false⟩ }
private def exC3 : Url := { scheme := lit "foo", host := some [] }
private def exC4 : Url := { scheme := lit "foo", password := lit "p", host := some (lit "h"), query := some [] }
example : WFs {} exC1 ∧ RTc exC1 ∧ HostStable I0 exC1 ∧ exC1.host ≠ none ∧ exC1.scheme ≠ lit "file" := by decide +kernel
example : WFs {} exC2 ∧ RTc exC2 ∧ HostStable I0 exC2 ∧ exC2.host ≠ none ∧ exC2.scheme ≠ lit "file" := by decide +kernel
example : WFs {} exC3 ∧ RTc exC3 ∧ HostStable I0 exC3 ∧ exC3.host ≠ none ∧ exC3.scheme ≠ lit "file" := by decide +kernel
example : WFs {} exC4 ∧ RTc exC4 ∧ HostStable I0 exC4 ∧ exC4.host ≠ none ∧ exC4.scheme ≠ lit "file" := by decide +kernel
example : href exC1 false = lit "foo://u:p%40@H%41:8/a/?q#f" ∧ href exC2 false = lit "http://u@[::1]:8080/a/b" ∧
    href exC3 false = lit "foo://" ∧ href exC4 false = lit "foo://:p@h?" := by decide +kernel
example : parse {} I0 (href exC1 false) = ⟨exC1, .url⟩ ∧ parse {} I0 (href exC2 false) = ⟨exC2, .url⟩ ∧
    parse {} I0 (href exC3 false) = ⟨exC3, .url⟩ ∧ parse {} I0 (href exC4 false) = ⟨exC4, .url⟩ := by decide +kernel

/-- a domain host of a special scheme, with the toy oracle of `Proofs/SimHost.lean` (ASCII: lower-casing): `HostStable` holds
    for `example.com` (the percent-decoder is compiled by well-founded recursion, hence `eval_domain` instead of `decide`) -/
private def exC5 : Url := { scheme := lit "https", host := some (lit "example.com"), path := ⟨[[]], false⟩ }
example : WFs {} exC5 ∧ RTc exC5 ∧ exC5.host ≠ none ∧ exC5.scheme ≠ lit "file" := by decide +kernel
example : HostStable Proofs.Sim.I0 exC5 := by
  intro h hh
  have hh' : h = lit "example.com" := by simpa [exC5] using hh.symm
  subst hh'
  have e := (Proofs.Sim.eval_domain Proofs.Sim.I0 {} "example.com".toList (lit "example.com") (by decide) (by decide)
    (by rw [show utf8 "example.com".toList = lit "example.com" by decide +kernel]; exact Proofs.Sim.pd_nopct _ (by decide))).1
  rw [show utf8 "example.com".toList = lit "example.com" by decide +kernel] at e
  rw [show (!Cfg.isSpecial {} exC5.scheme) = false by decide, e]
  decide +kernel

/-- `HostStable` is a real restriction: an IPv6 literal that is not in its canonical form is not a fixed point, nor is an
    upper-case domain under a lower-casing oracle; and this is exactly where the round trip changes the record -/
example : ¬ HostStable I0 { scheme := lit "http", host := some (lit "[0::1]") } := by decide +kernel
example : (parse {} I0 (lit "http://[0::1]/")).url.host = some (lit "[::1]") := by decide +kernel

/-! ### stage D: the file scheme -/

theorem C03_roundtrip_file (I : Idna) (u : Url) (hwf : WFs {} u) (hc : RTc u) (hh : HostStable I u) (hf : u.scheme = lit "file") :
    ∃ u', parse {} I (href u false) = ⟨u', .url⟩ ∧ Same u' u :=
  roundtrip_file I u hwf hc hh hf

private def exD1 : Url := { scheme := lit "file", host := some [], path := ⟨[lit "C:", lit "x"], false⟩, fragment := some (lit "f") }
private def exD2 : Url := { scheme := lit "file", host := some (lit "[::1]"), path := ⟨[[]], false⟩, query := some (lit "q") }
example : WFs {} exD1 ∧ RTc exD1 ∧ HostStable I0 exD1 ∧ exD1.scheme = lit "file" := by decide +kernel
example : WFs {} exD2 ∧ RTc exD2 ∧ HostStable I0 exD2 ∧ exD2.scheme = lit "file" := by decide +kernel
example : href exD1 false = lit "file:///C:/x#f" ∧ href exD2 false = lit "file://[::1]/?q" := by decide +kernel
example : parse {} I0 (href exD1 false) = ⟨exD1, .url⟩ ∧ parse {} I0 (href exD2 false) = ⟨exD2, .url⟩ := by decide +kernel

/-! ### the union -/

/-- the full statement -/
def C03_roundtrip_record_Statement : Prop :=
  ∀ (I : Idna) (u : Url), WFs {} u → RTc u → HostStable I u →
    ∃ u', parse {} I (href u false) = ⟨u', .url⟩ ∧ Same u' u

/-- **C03, record form.**  Every well-formed record whose components are in stored (encoded) form and whose host is a fixed
    point of the host parser is reproduced by parsing its serialization. -/
theorem C03_roundtrip_record (I : Idna) (u : Url) (hwf : WFs {} u) (hc : RTc u) (hh : HostStable I u) :
    ∃ u', parse {} I (href u false) = ⟨u', .url⟩ ∧ Same u' u :=
  roundtrip_record I u hwf hc hh

theorem C03_roundtrip_record_holds : C03_roundtrip_record_Statement := C03_roundtrip_record

/-- … in particular the serialization is reproduced (the form of `C03_roundtrip_Statement` in `Props/C03.lean`) -/
theorem C03_roundtrip_href (I : Idna) (u : Url) (hwf : WFs {} u) (hc : RTc u) (hh : HostStable I u) :
    ∃ u', parse {} I (href u false) = ⟨u', .url⟩ ∧ href u' false = href u false := by
  obtain ⟨u', h1, h2⟩ := C03_roundtrip_record I u hwf hc hh
  exact ⟨u', h1, href_of_Same h2 false⟩

/-- the round trip is a fixed point: parsing the serialization once more gives the same record again -/
theorem C03_roundtrip_twice (I : Idna) (u : Url) (hwf : WFs {} u) (hc : RTc u) (hh : HostStable I u) :
    ∃ u', parse {} I (href u false) = ⟨u', .url⟩ ∧ parse {} I (href u' false) = ⟨u', .url⟩ := by
  obtain ⟨u', h1, h2⟩ := C03_roundtrip_record I u hwf hc hh
  exact ⟨u', h1, by rw [href_of_Same h2 false]; exact h1⟩

/-- composition with C04b: for a record produced by the parser (or reachable through the API) `WFs` comes for free -/
theorem C03_roundtrip_parsed (I : Idna) (hI : IdnaNonEmpty I) (input : Bytes) (u : Url) (hp : parse {} I input = ⟨u, .url⟩)
    (hc : RTc u) (hh : HostStable I u) :
    ∃ u', parse {} I (href u false) = ⟨u', .url⟩ ∧ Same u' u := by
  have hw := C04b.C04_parse_WFs_default I hI input none (by intro b h; cases h) (by
    show (parse {} I input).ret = .url
    rw [hp])
  have hu : (basicParser {} I input none none none).url = u := by
    show (parse {} I input).url = u
    rw [hp]
  rw [hu] at hw
  exact C03_roundtrip_record I u hw hc hh

theorem C03_roundtrip_reachable (I : Idna) (hI : IdnaNonEmpty I) (u : Url) (hr : C04b.Reach {} I u) (hc : RTc u) (hh : HostStable I u) :
    ∃ u', parse {} I (href u false) = ⟨u', .url⟩ ∧ Same u' u :=
  C03_roundtrip_record I u (C04b.C04_reachable_WFs_default I hI u hr) hc hh

example : IdnaNonEmpty I0 := by intro s _ h; cases h
example : parse {} I0 (lit "  HTTP://u@[0::1]:081/a/../b c?q#f ") =
    ⟨{ scheme := lit "http", username := lit "u", host := some (lit "[::1]"), port := some (lit "81"), decodedPort := 81,
       path := ⟨[lit "b%20c"], false⟩, query := some (lit "q"), fragment := some (lit "f") }, .url⟩ := by decide +kernel

/-! ### `HostStable` without assumptions on the oracle: opaque hosts and IPv6 literals -/

/-- a non-special url whose (opaque) host is printable ASCII without forbidden host code points -/
theorem C03_hostStable_opaque (I : Idna) (u : Url) (hns : Cfg.isSpecial {} u.scheme = false)
    (hok : ∀ h ∈ u.host, ∀ b ∈ h, opaqueHostB b = true) : HostStable I u :=
  HostStable_opaque I u hns hok

/-- any url whose host is the serialization of an IPv6 address (all 2^128 of them) -/
theorem C03_hostStable_ipv6 (I : Idna) (u : Url) (a : List Nat) (ha : C08.Addr a)
    (hh : u.host = some ([0x5b] ++ ipv6String a ++ [0x5d])) : HostStable I u :=
  HostStable_ipv6 I u a ha hh

example : Cfg.isSpecial {} exC1.scheme = false ∧ ∀ h ∈ exC1.host, ∀ b ∈ h, opaqueHostB b = true := by decide +kernel
example : C08.Addr [0, 0, 0, 0, 0, 0, 0, 1] ∧ exC2.host = some ([0x5b] ++ ipv6String [0, 0, 0, 0, 0, 0, 0, 1] ++ [0x5d]) := by
  unfold C08.Addr; decide +kernel

/-- so for these two classes the round trip needs only the structural and the character conditions -/
theorem C03_roundtrip_opaque_host (I : Idna) (u : Url) (hwf : WFs {} u) (hc : RTc u) (hns : Cfg.isSpecial {} u.scheme = false)
    (hok : ∀ h ∈ u.host, ∀ b ∈ h, opaqueHostB b = true) :
    ∃ u', parse {} I (href u false) = ⟨u', .url⟩ ∧ Same u' u :=
  roundtrip_record I u hwf hc (HostStable_opaque I u hns hok)

theorem C03_roundtrip_ipv6_host (I : Idna) (u : Url) (hwf : WFs {} u) (hc : RTc u) (a : List Nat) (ha : C08.Addr a)
    (hh : u.host = some ([0x5b] ++ ipv6String a ++ [0x5d])) :
    ∃ u', parse {} I (href u false) = ⟨u', .url⟩ ∧ Same u' u :=
  roundtrip_record I u hwf hc (HostStable_ipv6 I u a ha hh)

/-! ### every clause of `RTc` is needed: records (all `WFs`) that violate exactly one clause and do NOT round-trip -/

/-- opaque path ending in a space, nothing after it: the prologue trims the space (the standard's own exception) -/
example : WFs {} { scheme := lit "sc", path := ⟨[lit "a "], true⟩ } ∧
    (parse {} I0 (href { scheme := lit "sc", path := ⟨[lit "a "], true⟩ } false)).url.path = ⟨[lit "a"], true⟩ := by decide +kernel
/-- opaque path starting with `/`: re-parsed as a list path -/
example : WFs {} { scheme := lit "sc", path := ⟨[lit "/a"], true⟩ } ∧
    (parse {} I0 (href { scheme := lit "sc", path := ⟨[lit "/a"], true⟩ } false)).url.path = ⟨[lit "a"], false⟩ := by decide +kernel
/-- an empty list path without a host: re-parsed as an (empty) opaque path -/
example : WFs {} { scheme := lit "sc", path := ⟨[], false⟩ } ∧
    (parse {} I0 (href { scheme := lit "sc", path := ⟨[], false⟩ } false)).url.path = ⟨[[]], true⟩ := by decide +kernel
/-- a dot segment in any spelling is dropped -/
example : WFs {} { scheme := lit "sc", path := ⟨[lit "%2E", lit "x"], false⟩ } ∧
    (parse {} I0 (href { scheme := lit "sc", path := ⟨[lit "%2E", lit "x"], false⟩ } false)).url.path = ⟨[lit "x"], false⟩ := by decide +kernel
/-- `\` in a segment of a special url is a separator -/
example : WFs {} { scheme := lit "http", host := some (lit "[::1]"), path := ⟨[lit "a\\b"], false⟩ } ∧
    (parse {} I0 (href { scheme := lit "http", host := some (lit "[::1]"), path := ⟨[lit "a\\b"], false⟩ } false)).url.path =
      ⟨[lit "a", lit "b"], false⟩ := by decide +kernel
/-- `file`: a non-normalised drive letter in front is normalised (the standard's own exception) -/
example : WFs {} { scheme := lit "file", host := some [], path := ⟨[lit "C|"], false⟩ } ∧
    (parse {} I0 (href { scheme := lit "file", host := some [], path := ⟨[lit "C|"], false⟩ } false)).url.path = ⟨[lit "C:"], false⟩ := by
  decide +kernel
/-- a byte of the component's encode set is escaped on the way back in (here: a space in the query) -/
example : WFs {} { scheme := lit "sc", path := ⟨[lit "p"], true⟩, query := some (lit "a b") } ∧
    (parse {} I0 (href { scheme := lit "sc", path := ⟨[lit "p"], true⟩, query := some (lit "a b") } false)).url.query = some (lit "a%20b") := by
  decide +kernel
/-- `:` in a user name moves the rest into the password -/
example : WFs {} { scheme := lit "sc", username := lit "a:b", host := some (lit "h") } ∧
    (parse {} I0 (href { scheme := lit "sc", username := lit "a:b", host := some (lit "h") } false)).url.password = lit "b" := by
  decide +kernel
/-- the port cache: `Same` compares `decodedPort`, the serialization does not see it -/
example : WFs {} { scheme := lit "sc", host := some (lit "h"), decodedPort := 5 } ∧
    (parse {} I0 (href { scheme := lit "sc", host := some (lit "h"), decodedPort := 5 } false)).url.decodedPort = 0 := by decide +kernel

end WhatwgUrl.Props.C03b

#print axioms WhatwgUrl.Props.C03b.C03_roundtrip_opaque
#print axioms WhatwgUrl.Props.C03b.C03_roundtrip_nohost
#print axioms WhatwgUrl.Props.C03b.C03_roundtrip_authority
#print axioms WhatwgUrl.Props.C03b.C03_roundtrip_file
#print axioms WhatwgUrl.Props.C03b.C03_roundtrip_record
#print axioms WhatwgUrl.Props.C03b.C03_roundtrip_href
#print axioms WhatwgUrl.Props.C03b.C03_roundtrip_parsed
#print axioms WhatwgUrl.Props.C03b.C03_roundtrip_reachable
#print axioms WhatwgUrl.Props.C03b.C03_hostStable_opaque
#print axioms WhatwgUrl.Props.C03b.C03_hostStable_ipv6
