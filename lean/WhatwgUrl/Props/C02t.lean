import WhatwgUrl.Proofs.Termination
import WhatwgUrl.Generated.Facts
import WhatwgUrl.Props.C02
/-
  C02t — the part of C02 that is stated over facts REGENERATED from the Go source on every run (T1).
  Kept in a module of its own (imported by nothing) so that a change of the source that breaks one of these
  obligations does not take the model-level theorems of other properties down with it.
-/
namespace WhatwgUrl.Props.C02t
open WhatwgUrl WhatwgUrl.Impl WhatwgUrl.Proofs.Termination
open WhatwgUrl.Props.C02

/-! ### the same rank argument on the transition skeleton regenerated from the Go source (T1) -/

/-- the termination rank on the Go state names (`none` for an unknown name: a new state breaks the theorem) -/
def rankOf (s : String) : Option Nat :=
  match s with
  | "StateSchemeStart" => some 21 | "StateScheme" => some 20 | "StateNoScheme" => some 19
  | "StateSpecialRelativeOrAuthority" => some 18 | "StateSpecialAuthoritySlashes" => some 18 | "StatePathOrAuthority" => some 18
  | "StateRelative" => some 17 | "StateRelativeSlash" => some 16 | "StateFile" => some 15 | "StateFileSlash" => some 14
  | "StateSpecialAuthorityIgnoreSlashes" => some 13 | "StateAuthority" => some 12 | "StateHost" => some 11 | "StateHostname" => some 11
  | "StateFileHost" => some 10 | "StatePort" => some 9 | "StatePathStart" => some 8 | "StatePath" => some 7 | "StateOpaquePath" => some 7
  | "StateQuery" => some 6 | "StateFragment" => some 5
  | _ => none

/-- every `state = StateY` assignment inside `case StateX` of the Go `BasicParser` goes strictly down the rank
    (a `fallthrough` shares the next case's body). Regenerated from /repo on every run: a new back edge breaks this theorem. -/
def lowers (l t : String) : Bool :=
  match rankOf l, rankOf t with
  | some a, some b => decide (b < a)
  | _, _ => false

/-- a `fallthrough` is reported as `FALLTHROUGH:<label of the following clause>` (resolved before the cases are put
    into canonical order): the only one is Host → Hostname, two states of the same rank sharing one body -/
def fallsTo (t : String) : Option String :=
  match t with
  | "FALLTHROUGH:StateHostname" => some "StateHostname"
  | _ => none

def sameRank (l t : String) : Bool :=
  match rankOf l, rankOf t with
  | some a, some b => a == b
  | _, _ => false

theorem C02_skeleton_ranked : ∀ c ∈ Generated.skeleton, ∀ l ∈ c.1, ∀ t ∈ c.2.1,
    (∃ s, fallsTo t = some s ∧ sameRank l s = true) ∨ lowers l t = true := by decide

/-- all 21 states have a case and the self-looping states never call `reset`/`rewind` on the cursor… the cursor calls per case
    (cases in canonical order, calls inside helpers that receive the cursor included) are exactly these: a rewind added
    inside a consuming loop changes the list -/
theorem C02_skeleton_cursor_calls : Generated.skeleton.map (fun c => (c.1, c.2.2)) = [
    (["StateAuthority"], ["rewind"]), (["StateFile"], ["rewindLast", "rewindLast"]), (["StateFileHost"], ["rewindLast"]),
    (["StateFileSlash"], ["rewindLast"]), (["StateFragment"], []), (["StateHost"], []), (["StateHostname"], ["rewindLast", "rewindLast"]),
    (["StateNoScheme"], ["rewindLast", "rewindLast"]), (["StateOpaquePath"], []), (["StatePath"], []), (["StatePathOrAuthority"], ["rewindLast"]),
    (["StatePathStart"], ["rewindLast", "rewindLast"]), (["StatePort"], ["rewindLast"]), (["StateQuery"], []), (["StateRelative"], ["rewindLast"]),
    (["StateRelativeSlash"], ["rewindLast"]), (["StateScheme"], ["nextCodePoint", "reset"]), (["StateSchemeStart"], ["rewindLast"]),
    (["StateSpecialAuthorityIgnoreSlashes"], ["rewindLast"]), (["StateSpecialAuthoritySlashes"], ["nextCodePoint", "rewindLast"]),
    (["StateSpecialRelativeOrAuthority"], ["nextCodePoint", "rewindLast"])] := by decide


end WhatwgUrl.Props.C02t
