import WhatwgUrl.Proofs.Domain
/-
  C09b — domain hosts of special-scheme URLs: the ASCII pipeline around the IDNA oracle.

  The x/net IDNA library is an oracle `I : Idna`; the theorems assume the single law `L1` of the library that the
  property needs (checked against the real library by differential testing on every verification run):
  on a pure-ASCII input without an ACE (`xn--`) label the library returns the ASCII-lower-cased input
  (possibly together with an error flag).

  1. `C09_ascii_host`        — the pipeline in closed form (`finishDomain`)
  2. `C09_case_independent`  — the result does not depend on ASCII letter case
  3. `C09_decode_spelling`   — … nor on which bytes are written as `%XX` (`C09_escape_independent`)
  4. `C09_output_shape`      — an accepted host has no forbidden domain code point or is a serialized IPv4 address
  5. `C09_file_localhost`    — in a file URL `localhost` (in any such spelling) becomes the empty host
-/
namespace WhatwgUrl.Props.C09b
open WhatwgUrl WhatwgUrl.Impl WhatwgUrl.Proofs.IPv4 WhatwgUrl.Proofs.Domain

export WhatwgUrl.Proofs.Domain (PureAsciiNoAce L1 finishDomain Spelling hasEscape withQ)

/-- the idealised library on ASCII: lower-casing, never an error -/
def I0 : Idna := fun s => (asciiLower s, false)

/-- non-vacuity of `L1` -/
example : L1 I0 := fun _ _ => rfl
/-- … also with the error flag raised (the library flags e.g. STD3-disallowed characters but still returns the string) -/
example : L1 (fun s => (asciiLower s, true)) := fun _ _ => rfl

/-! ### 1. the ASCII pipeline in closed form -/

/-- Full form: the whole result (url and outcome); the only trace of the oracle is the ghost field `qlog`. Needs
    `cfg.preHost = none` (the hook may rewrite the input) and `cfg.encOverride = none` (the override re-encodes the
    domain before ToASCII); `laxHost`, `postHost` and the error options are arbitrary (they are part of `finishDomain`). -/
theorem C09_ascii_host_full (cfg : Cfg) (hpre : cfg.preHost = none) (henc : cfg.encOverride = none)
    (I : Idna) (hI : L1 I) (u : Url) (s : Bytes) (hne : s ≠ []) (hb : s.head? ≠ some 0x5b)
    (hd : PureAsciiNoAce (decodePercent cfg s)) :
    parseHost cfg I u s false =
      finishDomain cfg (withQ (u.qlog ++ [decodePercent cfg s]) u) (asciiLower (decodePercent cfg s)) := by
  match s, hne, hb, hd with
  | b0 :: tl, _, hb, hd =>
    have hb0 : b0 ≠ 0x5b := by intro e; apply hb; simp [e]
    rw [parseHost_domain_eq cfg hpre I u b0 tl hb0]
    have hv := validUtf8_ascii _ hd.1
    have hdne := decodePercent_ne_nil cfg (b0 :: tl) (by simp)
    rw [toASCII_pure cfg henc I hI u _ hd hdne]
    simp only [hv, Bool.not_true, Bool.false_and, Bool.false_eq_true, if_false]
    rfl

/-- **C09, closed form** (the statement asked for): outcome of the host parser on a pure-ASCII host without ACE label.
    `cfg.postHost = none` is needed only because the hook is handed the url (with its `qlog`). -/
theorem C09_ascii_host (cfg : Cfg) (hpre : cfg.preHost = none) (hpost : cfg.postHost = none)
    (henc : cfg.encOverride = none) (I : Idna) (hI : L1 I) (u : Url) (s : Bytes) (hne : s ≠ [])
    (hb : s.head? ≠ some 0x5b) (hd : PureAsciiNoAce (decodePercent cfg s)) :
    (parseHost cfg I u s false).out = (finishDomain cfg u (asciiLower (decodePercent cfg s))).out := by
  rw [C09_ascii_host_full cfg hpre henc I hI u s hne hb hd, finishDomain_out_withQ cfg hpost]

/-- … and the url agrees too once the ghost field is erased (set to any fixed `q`) -/
theorem C09_ascii_host_url (cfg : Cfg) (hpre : cfg.preHost = none) (hpost : cfg.postHost = none)
    (henc : cfg.encOverride = none) (I : Idna) (hI : L1 I) (u : Url) (s : Bytes) (hne : s ≠ [])
    (hb : s.head? ≠ some 0x5b) (hd : PureAsciiNoAce (decodePercent cfg s)) (q : List Bytes) :
    withQ q (parseHost cfg I u s false).url =
      withQ q (finishDomain cfg u (asciiLower (decodePercent cfg s))).url := by
  rw [C09_ascii_host_full cfg hpre henc I hI u s hne hb hd, finishDomain_withQ cfg hpost]
  rfl

/-- the oracle is consulted exactly once, with the percent-decoded host -/
theorem C09_ascii_host_qlog (cfg : Cfg) (hpre : cfg.preHost = none) (hpost : cfg.postHost = none)
    (henc : cfg.encOverride = none) (I : Idna) (hI : L1 I) (u : Url) (s : Bytes) (hne : s ≠ [])
    (hb : s.head? ≠ some 0x5b) (hd : PureAsciiNoAce (decodePercent cfg s)) :
    (parseHost cfg I u s false).url =
      withQ (u.qlog ++ [decodePercent cfg s]) (finishDomain cfg u (asciiLower (decodePercent cfg s))).url := by
  rw [C09_ascii_host_full cfg hpre henc I hI u s hne hb hd, finishDomain_withQ cfg hpost]
  rfl

/-! ### 2. case independence -/

theorem C09_case_independent (cfg : Cfg) (hpre : cfg.preHost = none) (hpost : cfg.postHost = none)
    (henc : cfg.encOverride = none) (I : Idna) (hI : L1 I) (u : Url) (s t : Bytes)
    (hst : asciiLower (decodePercent cfg s) = asciiLower (decodePercent cfg t))
    (hnes : s ≠ []) (hbs : s.head? ≠ some 0x5b) (hds : PureAsciiNoAce (decodePercent cfg s))
    (hnet : t ≠ []) (hbt : t.head? ≠ some 0x5b) (hdt : PureAsciiNoAce (decodePercent cfg t)) :
    (parseHost cfg I u s false).out = (parseHost cfg I u t false).out := by
  rw [C09_ascii_host cfg hpre hpost henc I hI u s hnes hbs hds,
    C09_ascii_host cfg hpre hpost henc I hI u t hnet hbt hdt, hst]

/-- `PureAsciiNoAce` only looks at the lower-cased string -/
theorem pureAsciiNoAce_congr {a b : Bytes} (h : asciiLower a = asciiLower b) (ha : PureAsciiNoAce a) :
    PureAsciiNoAce b := by
  refine ⟨?_, ?_⟩
  · apply ascii_of_asciiLower
    rw [← h]
    exact asciiLower_ascii ha.1
  · rw [← h]; exact ha.2

/-- literal ASCII spellings (no `%` at all): the ASCII letter case of the host does not matter -/
theorem C09_case_independent_literal (cfg : Cfg) (hpre : cfg.preHost = none) (hpost : cfg.postHost = none)
    (henc : cfg.encOverride = none) (I : Idna) (hI : L1 I) (u : Url) (s t : Bytes)
    (hps : (0x25 : UInt8) ∉ s) (hpt : (0x25 : UInt8) ∉ t) (hst : asciiLower s = asciiLower t)
    (hne : s ≠ []) (hb : s.head? ≠ some 0x5b) (hd : PureAsciiNoAce s) :
    (parseHost cfg I u s false).out = (parseHost cfg I u t false).out := by
  have hdt : PureAsciiNoAce t := pureAsciiNoAce_congr hst hd
  have hnet : t ≠ [] := by
    intro e; subst e
    cases s with
    | nil => exact hne rfl
    | cons x xs => simp [asciiLower] at hst
  have hbt : t.head? ≠ some 0x5b := by
    cases s with
    | nil => exact absurd rfl hne
    | cons x xs =>
      cases t with
      | nil => exact absurd rfl hnet
      | cons y ys =>
        simp only [asciiLower, List.map_cons, List.cons.injEq] at hst
        simp only [List.head?_cons, ne_eq, Option.some.injEq] at hb ⊢
        intro e; subst e
        have : ∀ x : UInt8, lowerB x = lowerB 0x5b → x = 0x5b := forall_uint8 (by decide +kernel)
        exact hb (this x hst.1)
  apply C09_case_independent cfg hpre hpost henc I hI u s t
  · rw [decodePercent_no_pct cfg s hps, decodePercent_no_pct cfg t hpt, hst]
  · exact hne
  · exact hb
  · rw [decodePercent_no_pct cfg s hps]; exact hd
  · exact hnet
  · exact hbt
  · rw [decodePercent_no_pct cfg t hpt]; exact hdt

/-! ### 3. escape independence -/

/-- every spelling of `d` (each byte literal or `%XX`, hex digits in either case) decodes to `d`, provided `d` itself
    contains no `%` followed by two hex digits (`hasEscape d = false`: such a literal `%hh` in `d`, spelled literally,
    would be decoded).  This is the right side condition: an escape starts with `%`, never with a hex digit, so a
    literal `%` of `d` can only be completed to an escape by two literal hex digits of `d`. -/
theorem C09_decode_spelling (d s : Bytes) (h : Spelling d s) (hfix : hasEscape d = false) :
    decodePercent {} s = d :=
  decodePercent_spelling {} rfl h hfix

/-- the same for every configuration without encoding override -/
theorem C09_decode_spelling_cfg (cfg : Cfg) (henc : cfg.encOverride = none) (d s : Bytes) (h : Spelling d s)
    (hfix : hasEscape d = false) : decodePercent cfg s = d :=
  decodePercent_spelling cfg henc h hfix

/-- for hosts the relevant `d` has no `%` at all (it is a forbidden domain code point) -/
theorem C09_decode_spelling_no_pct (cfg : Cfg) (henc : cfg.encOverride = none) (d s : Bytes) (h : Spelling d s)
    (hp : (0x25 : UInt8) ∉ d) : decodePercent cfg s = d :=
  decodePercent_spelling cfg henc h (hasEscape_of_no_pct d hp)

/-- the side condition is necessary: "%41" spells itself (literally) but decodes to "A" -/
example : Spelling (lit "%41") (lit "%41") ∧ hasEscape (lit "%41") = true ∧ decodePercent {} (lit "%41") = lit "A" := by
  refine ⟨?_, by decide, ?_⟩
  · show Spelling [0x25, 0x34, 0x31] [0x25, 0x34, 0x31]
    exact .lit _ (.lit _ (.lit _ .nil))
  · show decodePercent {} [0x25, 0x34, 0x31] = [0x41]
    rw [decodePercent_esc {} rfl _ _ _ (by decide) (by decide), decodePercent_nil]
    decide

/-- a spelling of a non-empty text that does not start with `[` is non-empty and does not start with `[` -/
theorem spelling_head {d s : Bytes} (h : Spelling d s) (hne : d ≠ []) (hb : d.head? ≠ some 0x5b) :
    s ≠ [] ∧ s.head? ≠ some 0x5b := by
  cases h with
  | nil => exact absurd rfl hne
  | lit x h' => exact ⟨by simp, by simpa using hb⟩
  | esc a b ha hb' h' => exact ⟨by simp, by simp⟩

/-- **escape independence of the host parser**: all spellings of a pure-ASCII host (without ACE label and without `%`)
    are parsed to the same result, namely that of its lower-cased literal form -/
theorem C09_escape_independent (cfg : Cfg) (hpre : cfg.preHost = none) (hpost : cfg.postHost = none)
    (henc : cfg.encOverride = none) (I : Idna) (hI : L1 I) (u : Url) (d s : Bytes) (h : Spelling d s)
    (hne : d ≠ []) (hb : d.head? ≠ some 0x5b) (hp : (0x25 : UInt8) ∉ d) (hd : PureAsciiNoAce d) :
    (parseHost cfg I u s false).out = (finishDomain cfg u (asciiLower d)).out := by
  have hdec := C09_decode_spelling_no_pct cfg henc d s h hp
  obtain ⟨h1, h2⟩ := spelling_head h hne hb
  rw [C09_ascii_host cfg hpre hpost henc I hI u s h1 h2 (by rw [hdec]; exact hd), hdec]

theorem C09_spellings_agree (cfg : Cfg) (hpre : cfg.preHost = none) (hpost : cfg.postHost = none)
    (henc : cfg.encOverride = none) (I : Idna) (hI : L1 I) (u : Url) (d s t : Bytes) (hs : Spelling d s)
    (ht : Spelling d t) (hne : d ≠ []) (hb : d.head? ≠ some 0x5b) (hp : (0x25 : UInt8) ∉ d)
    (hd : PureAsciiNoAce d) :
    (parseHost cfg I u s false).out = (parseHost cfg I u t false).out := by
  rw [C09_escape_independent cfg hpre hpost henc I hI u d s hs hne hb hp hd,
    C09_escape_independent cfg hpre hpost henc I hI u d t ht hne hb hp hd]

/-! ### 4. output shape -/

/-- what `forbiddenLoop` returning `none` means -/
theorem C09_forbidden_none (cfg : Cfg) (a : Bytes) (u u' : Url) (h : forbiddenLoop cfg a (goRunes a) u = (u', none)) :
    ∀ c ∈ goRunes a, forbiddenDomain c.toNat = false :=
  (forbiddenLoop_none_iff cfg a (goRunes a) u).mp (by rw [h])

/-- **Output shape** (no law about the oracle is needed).  In strict mode without hooks, whenever the host parser
    accepts a special-scheme host that does not start with `[`, ToASCII succeeded with some `a` without forbidden
    domain code point, and the host is `a` itself, or — if `a` ends in a number — the serialization of the IPv4
    address that the standard's IPv4 parser finds in `a`. -/
theorem C09_output_shape (cfg : Cfg) (hpre : cfg.preHost = none) (hpost : cfg.postHost = none)
    (hlax : cfg.laxHost = false) (hf : cfg.failOnVErr = false) (I : Idna) (u : Url) (s h : Bytes)
    (hok : (parseHost cfg I u s false).out = .ok h) (hb : s.head? ≠ some 0x5b) :
    ∃ a, (toASCII cfg I u (decodePercent cfg s)).1 = .ok a ∧
      (∀ c ∈ goRunes a, forbiddenDomain c.toNat = false) ∧
      ((endsInANumber cfg u a = false ∧ h = a) ∨
       (endsInANumber cfg u a = true ∧
          ∃ n, Spec.parseIPv4 (asStr a) = some n ∧ n < 2 ^ 32 ∧ h = ipv4String n)) := by
  match s, hb with
  | [], _ =>
    have : h = [] := by
      simp only [parseHost, hpre] at hok
      injection hok with hok
      exact hok.symm
    subst this
    refine ⟨[], by simp [toASCII], by simp [goRunes, goDecode, goDecodeAux], Or.inl ⟨rfl, rfl⟩⟩
  | b0 :: tl, hb =>
    have hb0 : b0 ≠ 0x5b := by intro e; apply hb; simp [e]
    rw [parseHost_domain_eq cfg hpre I u b0 tl hb0] at hok
    simp only [hlax, Bool.and_false, Bool.false_eq_true, if_false] at hok
    split at hok
    · simp [fail6] at hok
    · split at hok
      · simp [fail6] at hok
      · rename_i a ha
        refine ⟨a, ha, ?_⟩
        generalize (toASCII cfg I u (decodePercent cfg (b0 :: tl))).2 = u1 at hok
        unfold finishDomain at hok
        simp only [hpost] at hok
        cases hfl : (forbiddenLoop cfg a (goRunes a) u1).2 with
        | some o =>
          rw [hfl] at hok
          simp only [] at hok
          have := forbiddenLoop_strict cfg hlax a (goRunes a) u1 o hfl
          rw [this] at hok
          cases hok
        | none =>
          rw [hfl] at hok
          simp only [] at hok
          refine ⟨(forbiddenLoop_none_iff cfg a (goRunes a) u1).mp hfl, ?_⟩
          rw [endsInANumber_url cfg _ u] at hok
          cases he : endsInANumber cfg u a with
          | false =>
            rw [he] at hok
            simp only [Bool.false_eq_true, if_false] at hok
            injection hok with hok
            exact Or.inl ⟨rfl, hok.symm⟩
          | true =>
            rw [he] at hok
            simp only [if_true] at hok
            right
            refine ⟨rfl, ?_⟩
            have hc := Props.C07.C07_parse_conforms cfg (forbiddenLoop cfg a (goRunes a) u1).1 a hf
            rw [hok] at hc
            cases hp : Spec.parseIPv4 (asStr a) with
            | none => rw [hp] at hc; exact absurd hc id
            | some n =>
              rw [hp] at hc
              exact ⟨n, rfl, hc.1, hc.2⟩

/-- the bytes of a serialized IPv4 address are digits and dots -/
theorem ipv4String_bytes (n : Nat) : ∀ x ∈ ipv4String n, isDigitN x.toNat = true ∨ x = 0x2e := by
  have hitoa : ∀ k : Fin 256, ∀ x ∈ itoa k.val, isDigitN x.toNat = true := by decide +kernel
  have hk : ∀ k, k < 256 → ∀ x ∈ itoa k, isDigitN x.toNat = true := fun k hk => hitoa ⟨k, hk⟩
  intro x hx
  unfold ipv4String at hx
  simp only [List.mem_append, List.mem_singleton] at hx
  rcases hx with ((((((hx | hx) | hx) | hx) | hx) | hx) | hx)
  · exact Or.inl (hk _ (Nat.mod_lt _ (by decide)) x hx)
  · exact Or.inr hx
  · exact Or.inl (hk _ (Nat.mod_lt _ (by decide)) x hx)
  · exact Or.inr hx
  · exact Or.inl (hk _ (Nat.mod_lt _ (by decide)) x hx)
  · exact Or.inr hx
  · exact Or.inl (hk _ (Nat.mod_lt _ (by decide)) x hx)

private theorem digit_or_dot_facts : ∀ x : UInt8, (isDigitN x.toNat = true ∨ x = 0x2e) →
    x.toNat < 0x80 ∧ lowerB x = x ∧ forbiddenDomain x.toNat = false :=
  forall_uint8 (by decide +kernel)

/-- **Output shape for pure-ASCII hosts** (with `L1`): an accepted host is pure ASCII, lower case, and none of its
    bytes is a forbidden domain code point.  It is the lower-cased decoded input, unless that ends in a number. -/
theorem C09_output_shape_ascii (cfg : Cfg) (hpre : cfg.preHost = none) (hpost : cfg.postHost = none)
    (henc : cfg.encOverride = none) (hlax : cfg.laxHost = false) (hf : cfg.failOnVErr = false)
    (I : Idna) (hI : L1 I) (u : Url) (s h : Bytes) (hne : s ≠ [])
    (hok : (parseHost cfg I u s false).out = .ok h) (hb : s.head? ≠ some 0x5b)
    (hd : PureAsciiNoAce (decodePercent cfg s)) :
    (∀ x ∈ h, x.toNat < 0x80) ∧ asciiLower h = h ∧ (∀ x ∈ h, forbiddenDomain x.toNat = false) ∧
    (endsInANumber cfg u (asciiLower (decodePercent cfg s)) = false → h = asciiLower (decodePercent cfg s)) := by
  obtain ⟨a, ha, hforb, hcase⟩ := C09_output_shape cfg hpre hpost hlax hf I u s h hok hb
  rw [toASCII_pure cfg henc I hI u _ hd (decodePercent_ne_nil cfg s hne)] at ha
  injection ha with ha
  subst ha
  have hasc : Ascii (asciiLower (decodePercent cfg s)) := asciiLower_ascii hd.1
  rcases hcase with ⟨he, rfl⟩ | ⟨he, n, -, -, rfl⟩
  · refine ⟨hasc, asciiLower_idem _, ?_, fun _ => rfl⟩
    intro x hx
    rw [goRunes_ascii _ hasc] at hforb
    have := hforb (bc x) (by simp only [asStr, List.mem_map]; exact ⟨x, hx, rfl⟩)
    rwa [bc_toNat] at this
  · have hall := fun x hx => digit_or_dot_facts x (ipv4String_bytes n x hx)
    refine ⟨fun x hx => (hall x hx).1, ?_, fun x hx => (hall x hx).2.2, fun h0 => ?_⟩
    · unfold asciiLower
      conv => rhs; rw [← List.map_id (ipv4String n)]
      exact List.map_congr_left (fun x hx => (hall x hx).2.1)
    · rw [h0] at he; cases he

/-! ### 5. file URLs: `localhost` becomes the empty host -/

theorem finishDomain_localhost (cfg : Cfg) (hpost : cfg.postHost = none) (u : Url) :
    finishDomain cfg u (lit "localhost") = ⟨u, .ok (lit "localhost")⟩ := by
  have h1 : ∀ c ∈ goRunes (lit "localhost"), forbiddenDomain c.toNat = false := by decide +kernel
  have h2 : endsInANumber cfg u (lit "localhost") = false := by
    rw [Props.C07.C07_ends_in_number_conforms]; decide +kernel
  unfold finishDomain
  simp only [forbiddenLoop_none_url cfg _ _ u h1, h2, hpost, Bool.false_eq_true, if_false]

/-- **file host state**: at a delimiter, with a buffered host that the host parser turns into `localhost`, the parser
    continues in the path start state with the EMPTY host (url/parser.go: `if host == "localhost" { host = "" }`). -/
theorem C09_file_localhost (e : Env) (hov : e.ov = none) (ps : PS) (r : Char) (s : Bytes)
    (hdelim : ps.eof = true ∨ r = '/' ∨ r = '\\' ∨ r = '?' ∨ r = '#')
    (hbuf : ps.buffer = s) (hdrive : isWindowsDriveLetter s = false) (hne : s ≠ [])
    (hhost : (parseHost e.cfg e.I ps.url s (!isSp e ps.url)).out = .ok (lit "localhost")) :
    stFileHost e ps r = .cont { (rewindLast ps) with
      url := { (parseHost e.cfg e.I ps.url s (!isSp e ps.url)).url with host := some [] },
      buffer := [], state := .pathStart } := by
  have hc : (ps.eof || r == '/' || r == '\\' || r == '?' || r == '#') = true := by
    rcases hdelim with h | h | h | h | h <;> simp [h]
  have hemp : s.isEmpty = false := by cases s <;> simp_all
  unfold stFileHost
  simp only [hc, if_true]
  simp only [rewindLast, hbuf, hdrive, hov, Bool.and_false, Bool.false_eq_true, if_false, hemp, afterHost, hhost,
    Option.isSome_none, beq_self_eq_true, if_true]

/-- … in particular the step continues in state `pathStart` with `url.host = some []` and an empty buffer -/
theorem C09_file_localhost' (e : Env) (hov : e.ov = none) (ps : PS) (r : Char) (s : Bytes)
    (hdelim : ps.eof = true ∨ r = '/' ∨ r = '\\' ∨ r = '?' ∨ r = '#')
    (hbuf : ps.buffer = s) (hdrive : isWindowsDriveLetter s = false) (hne : s ≠ [])
    (hhost : (parseHost e.cfg e.I ps.url s (!isSp e ps.url)).out = .ok (lit "localhost")) :
    ∃ ps', stFileHost e ps r = .cont ps' ∧ ps'.state = .pathStart ∧ ps'.url.host = some [] ∧ ps'.buffer = [] :=
  ⟨_, C09_file_localhost e hov ps r s hdelim hbuf hdrive hne hhost, rfl, rfl, rfl⟩

private theorem lowerB_eq_l : ∀ x : UInt8, lowerB x = 0x6c → x ≠ 0x5b ∧ x ≠ 0x25 := forall_uint8 (by decide +kernel)

/-- any host `s` whose percent-decoded, lower-cased form is `localhost` is parsed to `localhost` -/
theorem C09_localhost_spellings (cfg : Cfg) (hpre : cfg.preHost = none) (hpost : cfg.postHost = none)
    (henc : cfg.encOverride = none) (I : Idna) (hI : L1 I) (u : Url) (s : Bytes)
    (hs : asciiLower (decodePercent cfg s) = lit "localhost") :
    (parseHost cfg I u s false).out = .ok (lit "localhost") ∧ s ≠ [] ∧ isWindowsDriveLetter s = false := by
  have hpure : PureAsciiNoAce (decodePercent cfg s) := by
    apply pureAsciiNoAce_congr (a := lit "localhost")
    · rw [hs]; decide
    · decide
  have hne : s ≠ [] := by
    intro e; subst e
    rw [decodePercent_nil] at hs
    exact absurd hs (by decide)
  have hb : s.head? ≠ some 0x5b := by
    match s, hne with
    | x :: xs, _ =>
      simp only [List.head?_cons, ne_eq, Option.some.injEq]
      intro e; subst e
      rw [decodePercent_cons_ne cfg _ xs (by decide)] at hs
      have := congrArg List.head? hs
      rw [show (lit "localhost").head? = some 0x6c by decide] at this
      simp only [asciiLower, List.map_cons, List.head?_cons, Option.some.injEq] at this
      exact absurd this (by decide)
  have hdrive : isWindowsDriveLetter s = false := by
    match s with
    | [] => rfl
    | [a] => rfl
    | [a, b] =>
      exfalso
      have : decodePercent cfg [a, b] = [a, b] := by simp [decodePercent]
      rw [this] at hs
      have := congrArg List.length hs
      rw [show (lit "localhost").length = 9 by decide] at this
      simp [asciiLower] at this
    | a :: b :: c :: r => rfl
  refine ⟨?_, hne, hdrive⟩
  rw [C09_ascii_host cfg hpre hpost henc I hI u s hne hb hpure, hs, finishDomain_localhost cfg hpost]

/-- **C09, file + localhost**: in the file host state of a special (file) URL, any spelling `s` of `localhost` — ASCII
    case and `%XX` escapes at will — yields the empty host -/
theorem C09_file_localhost_spelling (e : Env) (hov : e.ov = none) (hpre : e.cfg.preHost = none)
    (hpost : e.cfg.postHost = none) (henc : e.cfg.encOverride = none) (hI : L1 e.I) (ps : PS) (r : Char)
    (hsp : isSp e ps.url = true)
    (hdelim : ps.eof = true ∨ r = '/' ∨ r = '\\' ∨ r = '?' ∨ r = '#')
    (hs : asciiLower (decodePercent e.cfg ps.buffer) = lit "localhost") :
    ∃ ps', stFileHost e ps r = .cont ps' ∧ ps'.state = .pathStart ∧ ps'.url.host = some [] ∧ ps'.buffer = [] := by
  obtain ⟨h1, h2, h3⟩ := C09_localhost_spellings e.cfg hpre hpost henc e.I hI ps.url ps.buffer hs
  exact C09_file_localhost' e hov ps r ps.buffer hdelim rfl h3 h2 (by rw [hsp]; exact h1)

/-! ### non-vacuity: concrete hosts -/

section Examples

/-- the two spellings of the task -/
def exS : Bytes := lit "EXAMPLE.com"
def exT : Bytes := lit "ex%41mple.COM"

theorem exS_decode : decodePercent {} exS = lit "EXAMPLE.com" := decodePercent_no_pct {} _ (by decide)
example : Spelling (lit "exAmple.COM") exT := spells_sound _ _ (by decide)
theorem exT_decode : decodePercent {} exT = lit "exAmple.COM" :=
  C09_decode_spelling _ _ (spells_sound _ _ (by decide)) (by decide)

/-- hypotheses of `C09_ascii_host` / `C09_case_independent` for both -/
example : exS ≠ [] ∧ exS.head? ≠ some 0x5b ∧ PureAsciiNoAce (decodePercent {} exS) := by
  rw [exS_decode]; decide
example : exT ≠ [] ∧ exT.head? ≠ some 0x5b ∧ PureAsciiNoAce (decodePercent {} exT) := by
  rw [exT_decode]; decide
example : asciiLower (decodePercent {} exS) = asciiLower (decodePercent {} exT) := by
  rw [exS_decode, exT_decode]; decide
example : ({} : Cfg).preHost = none ∧ ({} : Cfg).postHost = none ∧ ({} : Cfg).encOverride = none ∧
    ({} : Cfg).laxHost = false ∧ ({} : Cfg).failOnVErr = false := ⟨rfl, rfl, rfl, rfl, rfl⟩

/-- … and the conclusions, evaluated: both spellings give `example.com` -/
theorem exS_out : (parseHost {} I0 {} exS false).out = .ok (lit "example.com") := by
  rw [C09_ascii_host {} rfl rfl rfl I0 (fun _ _ => rfl) {} exS (by decide) (by decide) (by rw [exS_decode]; decide),
    exS_decode]
  decide +kernel
example : (parseHost {} I0 {} exT false).out = .ok (lit "example.com") := by
  rw [C09_ascii_host {} rfl rfl rfl I0 (fun _ _ => rfl) {} exT (by decide) (by decide) (by rw [exT_decode]; decide),
    exT_decode]
  decide +kernel
example : (parseHost {} I0 {} exS false).out = (parseHost {} I0 {} exT false).out :=
  C09_case_independent {} rfl rfl rfl I0 (fun _ _ => rfl) {} exS exT (by rw [exS_decode, exT_decode]; decide)
    (by decide) (by decide) (by rw [exS_decode]; decide) (by decide) (by decide) (by rw [exT_decode]; decide)

/-- literal case variants -/
example : (parseHost {} I0 {} (lit "EXAMPLE.com") false).out = (parseHost {} I0 {} (lit "example.COM") false).out :=
  C09_case_independent_literal {} rfl rfl rfl I0 (fun _ _ => rfl) {} _ _ (by decide) (by decide) (by decide)
    (by decide) (by decide) (by decide)

/-- the IPv4 branch of `finishDomain`: a pure-ASCII host that ends in a number -/
example : (parseHost {} I0 {} (lit "0X7f.1") false).out = .ok (lit "127.0.0.1") := by
  have hdec : decodePercent {} (lit "0X7f.1") = lit "0X7f.1" := decodePercent_no_pct {} _ (by decide)
  rw [C09_ascii_host {} rfl rfl rfl I0 (fun _ _ => rfl) {} _ (by decide) (by decide) (by rw [hdec]; decide), hdec]
  decide +kernel

/-- the failure branch of `finishDomain`: an escaped space is a forbidden domain code point (whatever the oracle
    says about it: here it even raises its error flag) -/
example : (parseHost {} (fun s => (asciiLower s, true)) {} (lit "a%20b") false).out =
    .err ⟨.DomainInvalidCodePoint, true⟩ := by
  have hdec : decodePercent {} (lit "a%20b") = lit "a b" :=
    C09_decode_spelling _ _ (spells_sound _ _ (by decide)) (by decide)
  rw [C09_ascii_host {} rfl rfl rfl _ (fun _ _ => rfl) {} _ (by decide) (by decide) (by rw [hdec]; decide), hdec]
  decide +kernel

/-- an ACE label is outside the scope of `L1` -/
example : ¬ PureAsciiNoAce (lit "a.XN--b") := by decide

/-- output shape on the examples: `exS_out` is a witness of the hypothesis of `C09_output_shape`(`_ascii`) -/
example : (∀ x ∈ lit "example.com", x.toNat < 0x80) ∧ asciiLower (lit "example.com") = lit "example.com" ∧
    (∀ x ∈ lit "example.com", forbiddenDomain x.toNat = false) :=
  have h := C09_output_shape_ascii {} rfl rfl rfl rfl rfl I0 (fun _ _ => rfl) {} exS (lit "example.com") (by decide)
    exS_out (by decide) (by rw [exS_decode]; decide)
  ⟨h.1, h.2.1, h.2.2.1⟩
example : (∀ x ∈ lit "example.com", forbiddenDomain x.toNat = false) ∧ asciiLower (lit "example.com") = lit "example.com" := by
  decide

/-- file host state: the buffered host `LOCAL%48ost` at end of input becomes the empty host -/
def exEnv : Env := { cfg := {}, I := I0, src := [], runes := [], base := none, ov := none }
def exPs : PS := { state := .fileHost, pointer := 20, eof := true, buffer := lit "LOCAL%48ost", atFlag := false,
                   bracketFlag := false, pwSeen := false, url := { scheme := lit "file" } }

example : asciiLower (decodePercent exEnv.cfg exPs.buffer) = lit "localhost" := by
  have : decodePercent {} (lit "LOCAL%48ost") = lit "LOCALHost" :=
    C09_decode_spelling _ _ (spells_sound _ _ (by decide)) (by decide)
  show asciiLower (decodePercent {} (lit "LOCAL%48ost")) = _
  rw [this]; decide

example : ∃ ps', stFileHost exEnv exPs repl = .cont ps' ∧ ps'.state = .pathStart ∧ ps'.url.host = some [] ∧
    ps'.buffer = [] := by
  have hdec : decodePercent {} (lit "LOCAL%48ost") = lit "LOCALHost" :=
    C09_decode_spelling _ _ (spells_sound _ _ (by decide)) (by decide)
  apply C09_file_localhost_spelling exEnv rfl rfl rfl rfl (fun _ _ => rfl) exPs repl (by decide) (Or.inl rfl)
  show asciiLower (decodePercent {} (lit "LOCAL%48ost")) = _
  rw [hdec]; decide

end Examples

end WhatwgUrl.Props.C09b

section AxiomCheck
open WhatwgUrl.Props.C09b
#print axioms C09_ascii_host_full
#print axioms C09_ascii_host
#print axioms C09_ascii_host_url
#print axioms C09_ascii_host_qlog
#print axioms C09_case_independent
#print axioms C09_case_independent_literal
#print axioms C09_decode_spelling
#print axioms C09_decode_spelling_cfg
#print axioms C09_decode_spelling_no_pct
#print axioms C09_escape_independent
#print axioms C09_spellings_agree
#print axioms C09_forbidden_none
#print axioms C09_output_shape
#print axioms C09_output_shape_ascii
#print axioms C09_file_localhost
#print axioms C09_file_localhost'
#print axioms C09_localhost_spellings
#print axioms C09_file_localhost_spelling
end AxiomCheck
