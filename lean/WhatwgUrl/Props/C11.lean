import WhatwgUrl.Proofs.SearchParams
import WhatwgUrl.Generated.Facts
/-
  C11 — `SearchParams`: the list operations have the standard's semantics, `Sort`/`SortAbsolute` are stable
  sorts by name (by name ++ value), the urlencoded parser conforms to the standard, and serialize-then-parse
  is the identity exactly as far as the Go serializer escapes (known finding: it does not escape `& = + %`).
  Property theorems only; the helper lemmas live in `WhatwgUrl/Proofs/SearchParams.lean`.
-/
namespace WhatwgUrl.Props.C11
open WhatwgUrl WhatwgUrl.Impl

/-! ### 1. the list operations -/

theorem C11_delete (l : Pairs) (n : Bytes) : spDelete l n = Spec.spDelete l n := rfl

/-- Go returns `""` for a missing name -/
theorem C11_get (l : Pairs) (n : Bytes) : spGet l n = (Spec.spGet l n).getD [] := rfl

theorem C11_getAll (l : Pairs) (n : Bytes) : spGetAll l n = Spec.spGetAll l n := rfl

theorem C11_has (l : Pairs) (n : Bytes) : spHas l n = Spec.spHas l n := rfl

/-- Go's compaction loop = "set the first, remove the others, else append" -/
theorem C11_set (l : Pairs) (n v : Bytes) : spSet l n v = Spec.spSet l n v :=
  Proofs.SearchParams.spSet_eq l n v

-- non-vacuity: a list with duplicate names (the first is set, the others are removed, order is kept)
example : spSet [(lit "a", lit "1"), (lit "b", lit "2"), (lit "a", lit "3"), (lit "c", lit "4"), (lit "a", lit "5")]
    (lit "a") (lit "x") = [(lit "a", lit "x"), (lit "b", lit "2"), (lit "c", lit "4")] := by decide
-- … and a missing name (append)
example : spSet [(lit "b", lit "2")] (lit "a") (lit "x") = [(lit "b", lit "2"), (lit "a", lit "x")] := by decide
example : spGet [(lit "b", lit "2")] (lit "a") = [] := by decide

/-! ### 2. sorting -/

/-- `a ≤ b` in Go's string order -/
def keyLe (a b : Bytes) : Prop := bytesLt b a = false

/-- `bytesLt` (Go's `<` on strings) is a strict total order -/
theorem C11_bytesLt_order :
    (∀ a, bytesLt a a = false) ∧
    (∀ a b c, bytesLt a b = true → bytesLt b c = true → bytesLt a c = true) ∧
    (∀ a b, bytesLt a b = false → bytesLt b a = false → a = b) :=
  ⟨Proofs.SearchParams.bytesLt_irrefl, Proofs.SearchParams.bytesLt_trans, Proofs.SearchParams.bytesLt_total⟩

theorem C11_sort_perm (key : Bytes × Bytes → Bytes) (l : Pairs) : (sortStable key l).Perm l := by
  simpa [sortStable] using Proofs.SearchParams.foldl_insert_perm key l []

theorem C11_sort_sorted (key : Bytes × Bytes → Bytes) (l : Pairs) :
    (sortStable key l).Pairwise (fun a b => keyLe (key a) (key b)) :=
  Proofs.SearchParams.foldl_insert_sorted key l [] List.Pairwise.nil

/-- stability: for every key, the elements with that key appear in their original relative order -/
theorem C11_sort_stable (key : Bytes × Bytes → Bytes) (l : Pairs) (k : Bytes) :
    (sortStable key l).filter (fun p => key p == k) = l.filter (fun p => key p == k) :=
  Proofs.SearchParams.sortStable_filter key l k

/-- the three properties determine the result: any list that is ordered by key and has the same per-key
    sublists as `l` (which implies being a permutation of `l`) *is* `sortStable key l` — so modelling Go's
    `sort.SliceStable` by an insertion sort loses nothing -/
theorem C11_sort_unique (key : Bytes × Bytes → Bytes) (l r : Pairs)
    (hs : r.Pairwise (fun a b => keyLe (key a) (key b)))
    (hf : ∀ k, r.filter (fun p => key p == k) = l.filter (fun p => key p == k)) :
    r = sortStable key l :=
  Proofs.SearchParams.stable_sort_unique key r (sortStable key l) hs (C11_sort_sorted key l)
    (fun k => by rw [hf k, C11_sort_stable])

/-- the specification of a stable sort by key as a function: core's merge sort with `≤` on keys -/
def specSort (key : Bytes × Bytes → Bytes) (l : Pairs) : Pairs :=
  l.mergeSort (fun a b => !bytesLt (key b) (key a))

theorem C11_sort_spec (key : Bytes × Bytes → Bytes) (l : Pairs) : sortStable key l = specSort key l :=
  Proofs.SearchParams.sortStable_eq_mergeSort key l

-- non-vacuity
example : spSort [(lit "b", lit "1"), (lit "a", lit "2"), (lit "b", lit "0"), (lit "a", lit "1")] =
    [(lit "a", lit "2"), (lit "a", lit "1"), (lit "b", lit "1"), (lit "b", lit "0")] := by decide
example : spSortAbs [(lit "b", lit "1"), (lit "a", lit "2"), (lit "b", lit "0"), (lit "a", lit "1")] =
    [(lit "a", lit "1"), (lit "a", lit "2"), (lit "b", lit "0"), (lit "b", lit "1")] := by decide
-- prefix order and bytes ≥ 0x80 (unsigned comparison)
example : spSort [([0xff], []), (lit "ab", []), (lit "a", []), ([], [])] =
    [([], []), (lit "a", []), (lit "ab", []), ([0xff], [])] := by decide
-- the hypotheses of `C11_sort_unique` are satisfiable by a list that is not given as `sortStable …`
example : ([(lit "a", lit "2"), (lit "b", lit "1")] : Pairs).Pairwise (fun a b => keyLe a.1 b.1) := by
  simp [keyLe]; decide
example : ∀ k, ([(lit "a", lit "2"), (lit "b", lit "1")] : Pairs).filter (fun p => p.1 == k) =
    ([(lit "b", lit "1"), (lit "a", lit "2")] : Pairs).filter (fun p => p.1 == k) := by
  intro k
  have hne : lit "a" ≠ lit "b" := by decide
  by_cases h1 : lit "a" = k
  · subst h1; simp [hne.symm]
  · by_cases h2 : lit "b" = k
    · subst h2; simp [hne]
    · simp [h1, h2]

/-! ### 1b. sequences of mutations refine the standard's list semantics -/

/-- one mutation according to the standard (`iterate` is not a method of the standard: the map itself) -/
def specStep (l : Pairs) (m : Heap.SpMut) : Pairs :=
  match m with
  | .append n v => Spec.spAppend l n v
  | .delete n => Spec.spDelete l n
  | .set n v => Spec.spSet l n v
  | .sort => specSort (·.1) l
  | .sortAbs => specSort (fun nv => nv.1 ++ nv.2) l
  | .iterate f => l.map f

theorem C11_step_refine (m : Heap.SpMut) (l : Pairs) : Heap.applyMut m l = specStep l m := by
  cases m with
  | append n v => rfl
  | delete n => rfl
  | set n v => exact C11_set l n v
  | sort => exact C11_sort_spec _ l
  | sortAbs => exact C11_sort_spec _ l
  | iterate f => rfl

theorem C11_ops_refine (ops : List Heap.SpMut) (l : Pairs) :
    ops.foldl (fun l m => Heap.applyMut m l) l = ops.foldl specStep l := by
  induction ops generalizing l with
  | nil => rfl
  | cons m ms ih => simp only [List.foldl_cons, C11_step_refine]

example : [Heap.SpMut.append (lit "b") (lit "1"), .append (lit "a") (lit "2"), .append (lit "b") (lit "3"),
      .set (lit "b") (lit "x"), .sort, .delete (lit "c")].foldl (fun l m => Heap.applyMut m l) [(lit "c", [])] =
    [(lit "a", lit "2"), (lit "b", lit "x")] := by decide

/-! ### 3. the urlencoded parser -/

theorem C11_decode_conforms (s : Bytes) : decodePercent Cfg.default s = Spec.percentDecode s :=
  Proofs.SearchParams.decodePercent_default s

theorem C11_parse_conforms (q : Bytes) : spInit Cfg.default q = Spec.urlencodedParse q :=
  Proofs.SearchParams.spInit_default q

example : spInit Cfg.default (lit "a=1&&b=%41+%zz=&=c&d") =
    [(lit "a", lit "1"), (lit "b", lit "A %zz="), ([], lit "c"), (lit "d", [])] := by
  rw [Proofs.SearchParams.spInit_default_eval]; decide

/-! ### 4. serialize, then parse -/

/-- the full law; FALSE for the current code: the serializer escapes with the *query* percent-encode set only,
    so `&`, `=`, `+`, `%` inside names and values are written verbatim (and ill-formed UTF-8 becomes U+FFFD) -/
def C11_roundtrip_Statement : Prop := ∀ l : Pairs, spInit Cfg.default (spString Cfg.default l) = l

theorem C11_roundtrip_counterexample :
    spInit Cfg.default (spString Cfg.default [(lit "a&b", lit "c=d")]) ≠ [(lit "a&b", lit "c=d")] := by
  rw [Proofs.SearchParams.spInit_default_eval]; decide

theorem C11_roundtrip_false : ¬ C11_roundtrip_Statement :=
  fun h => C11_roundtrip_counterexample (h _)

-- what happens instead: "a&b=c=d" is two sequences
example : spString Cfg.default [(lit "a&b", lit "c=d")] = lit "a&b=c=d" := by decide
example : spInit Cfg.default (lit "a&b=c=d") = [(lit "a", []), (lit "b", lit "c=d")] := by
  rw [Proofs.SearchParams.spInit_default_eval]; decide
-- the other three unescaped bytes, and a non-UTF-8 byte
example : spInit Cfg.default (spString Cfg.default [(lit "a+b", [])]) = [(lit "a b", [])] := by
  rw [Proofs.SearchParams.spInit_default_eval]; decide
example : spInit Cfg.default (spString Cfg.default [(lit "%41", [])]) = [(lit "A", [])] := by
  rw [Proofs.SearchParams.spInit_default_eval]; decide
example : spInit Cfg.default (spString Cfg.default [(lit "a", lit "=")]) = [(lit "a", lit "=")] := by
  rw [Proofs.SearchParams.spInit_default_eval]; decide
example : spInit Cfg.default (spString Cfg.default [(lit "a=", lit "b")]) = [(lit "a", lit "=b")] := by
  rw [Proofs.SearchParams.spInit_default_eval]; decide
example : spInit Cfg.default (spString Cfg.default [([0xff], [])]) = [([0xef, 0xbf, 0xbd], [])] := by
  rw [Proofs.SearchParams.spInit_default_eval]; decide

/-- bytes that pass through the serializer unchanged and are no urlencoded delimiter -/
def plainByte (x : UInt8) : Bool :=
  x.toNat ≥ 0x21 && x.toNat ≤ 0x7E && x != 0x26 && x != 0x3d && x != 0x2b && x != 0x25 && x != 0x23 && x != 0x22 &&
    x != 0x3c && x != 0x3e

def PlainPairs (l : Pairs) : Prop := ∀ p ∈ l, p.1 ≠ [] ∧ p.1.all plainByte = true ∧ p.2.all plainByte = true

/-- every ASCII byte except the four that the serializer should escape but does not: `& = + %`
    (space is written as `+`, the query set's members as `%XX`, everything else verbatim) -/
def rtByte (x : UInt8) : Bool := x.toNat < 0x80 && x != 0x26 && x != 0x3d && x != 0x2b && x != 0x25

/-- names (possibly empty) and values made of such bytes -/
def RtPairs (l : Pairs) : Prop := ∀ p ∈ l, p.1.all rtByte = true ∧ p.2.all rtByte = true

instance (l : Pairs) : Decidable (PlainPairs l) := by unfold PlainPairs; infer_instance
instance (l : Pairs) : Decidable (RtPairs l) := by unfold RtPairs; infer_instance

/-- the round trip holds on all ASCII pairs free of `& = + %` (this includes space, the escaped bytes, empty names
    and empty values) -/
theorem C11_roundtrip_ascii_partial (l : Pairs) (h : RtPairs l) :
    spInit Cfg.default (spString Cfg.default l) = l :=
  Proofs.SearchParams.roundtrip_rt l h

private theorem plain_rt : ∀ x : UInt8, plainByte x = true → rtByte x = true := by
  apply Proofs.SearchParams.forall_uint8
  decide +kernel

theorem PlainPairs.rt {l : Pairs} (h : PlainPairs l) : RtPairs l := by
  intro p hp
  obtain ⟨_, h1, h2⟩ := h p hp
  rw [List.all_eq_true] at h1 h2 ⊢
  exact ⟨fun x hx => plain_rt x (h1 x hx), by rw [List.all_eq_true]; exact fun x hx => plain_rt x (h2 x hx)⟩

theorem C11_roundtrip_partial (l : Pairs) (h : PlainPairs l) :
    spInit Cfg.default (spString Cfg.default l) = l :=
  C11_roundtrip_ascii_partial l h.rt

-- non-vacuity
example : PlainPairs [(lit "name", lit "value"), (lit "a/b?c", lit "~!$'()*,;:@[]"), (lit "k", [])] := by decide
example : RtPairs [(lit "a b", lit "c d#\"<>~"), ([], []), ([0x00, 0x7f], lit " ")] := by decide
example : spString Cfg.default [(lit "a b", lit "c d#\"<>~"), ([], []), ([0x00, 0x7f], lit " ")] =
    lit "a+b=c+d%23%22%3C%3E~&=&%00%7F=+" := by decide

/-! ### facts regenerated from the Go source (T1) -/

/-- `Sort` and `SortAbsolute` sort with one of the library's STABLE sorts (which the model's `sortStable` stands for), with
    none of the unstable ones, and write through -/
def stableSorts : List String := ["sort.SliceStable", "sort.Stable", "slices.SortStableFunc"]
def unstableSorts : List String := ["sort.Slice", "sort.Sort", "sort.Strings", "slices.Sort", "slices.SortFunc"]

theorem C11_sort_uses_stable : ∀ c ∈ Generated.callees, (c.1 = "SearchParams.Sort" ∨ c.1 = "SearchParams.SortAbsolute") →
    (∃ f ∈ c.2, f ∈ stableSorts) ∧ (∀ f ∈ c.2, f ∉ unstableSorts) ∧ "s.update" ∈ c.2 := by decide

end WhatwgUrl.Props.C11
