import WhatwgUrl.Props.C09b
/-
  C09c — percent-encoding independence of the host pipeline for EVERY host and EVERY oracle.

  `Props/C09b.lean` proves escape independence for pure-ASCII hosts in closed form (under law L1). The independence
  itself needs no law at all: the special-scheme branch of the host parser looks at its input only through the
  percent-decoded bytes (after the test for a leading `[`), so any two spellings of the same text — each byte literal or
  written `%XX`, in particular every whole-code-point escape of a non-ASCII host — give the same result, whatever the
  IDNA library answers.
-/
namespace WhatwgUrl.Props.C09c
open WhatwgUrl WhatwgUrl.Impl WhatwgUrl.Props.C09b

/-- the special-scheme branch of the host parser as a function of the decoded domain (and, in the lax branch for
    ill-formed UTF-8 only, of the raw input) -/
theorem parseHost_via_decoded (cfg : Cfg) (hpre : cfg.preHost = none) (I : Idna) (u : Url) (s t : Bytes)
    (hs : s ≠ []) (hsb : s.head? ≠ some 0x5b) (ht : t ≠ []) (htb : t.head? ≠ some 0x5b)
    (hd : decodePercent cfg s = decodePercent cfg t)
    (hv : validUtf8 (decodePercent cfg s) = true ∨ cfg.laxHost = false) :
    parseHost cfg I u s false = parseHost cfg I u t false := by
  cases s with
  | nil => exact absurd rfl hs
  | cons a as =>
    cases t with
    | nil => exact absurd rfl ht
    | cons b bs =>
      have ha : (a == 0x5b) = false := by
        simp only [List.head?_cons, ne_eq, Option.some.injEq] at hsb
        simpa using hsb
      have hb : (b == 0x5b) = false := by
        simp only [List.head?_cons, ne_eq, Option.some.injEq] at htb
        simpa using htb
      unfold parseHost
      simp only [hpre, ha, hb, Bool.false_eq_true, if_false]
      rw [← hd]
      rcases hv with hv | hv
      · simp only [hv, Bool.not_true, Bool.false_and, Bool.false_eq_true, if_false]
      · simp only [hv, Bool.and_false, Bool.false_eq_true, if_false]

/-- **C09, escape independence, general form**: for every configuration without a pre-parse hook and without an
    encoding override, every oracle and every text `d` that is not empty, does not start with `[` and contains no
    complete escape itself, all spellings of `d` are parsed to the same result (the whole result: record, outcome, and
    the oracle query log) — provided `d` is well-formed UTF-8 or host parsing is strict (in the lax branch an ill-formed
    host is re-encoded from its raw spelling). -/
theorem C09_spelling_independent (cfg : Cfg) (hpre : cfg.preHost = none) (henc : cfg.encOverride = none) (I : Idna)
    (u : Url) (d s t : Bytes) (hs : Spelling d s) (ht : Spelling d t) (hne : d ≠ []) (hb : d.head? ≠ some 0x5b)
    (hfix : hasEscape d = false) (hv : validUtf8 d = true ∨ cfg.laxHost = false) :
    parseHost cfg I u s false = parseHost cfg I u t false := by
  obtain ⟨h1, h2⟩ := spelling_head hs hne hb
  obtain ⟨h3, h4⟩ := spelling_head ht hne hb
  have e1 := C09_decode_spelling_cfg cfg henc d s hs hfix
  have e2 := C09_decode_spelling_cfg cfg henc d t ht hfix
  exact parseHost_via_decoded cfg hpre I u s t h1 h2 h3 h4 (by rw [e1, e2]) (by rw [e1]; exact hv)

/-- non-vacuity: a non-ASCII host (U+00E9 "é" = C3 A9) written literally and with the two bytes escaped -/
theorem ex_spelled : Spelling [0x61, 0xc3, 0xa9] [0x61, 0x25, 0x43, 0x33, 0x25, 0x61, 0x39] := by
  have h : Spelling _ _ := .lit 0x61 (.esc 0x43 0x33 (by decide) (by decide) (.esc 0x61 0x39 (by decide) (by decide) .nil))
  have e1 : (hexVal (0x43 : UInt8).toNat * 16 + hexVal (0x33 : UInt8).toNat).toUInt8 = 0xc3 := by decide
  have e2 : (hexVal (0x61 : UInt8).toNat * 16 + hexVal (0x39 : UInt8).toNat).toUInt8 = 0xa9 := by decide
  rw [e1, e2] at h
  exact h

example : Spelling [0x61, 0xc3, 0xa9] [0x61, 0xc3, 0xa9] ∧
    ([0x61, 0xc3, 0xa9] : Bytes) ≠ [] ∧ ([0x61, 0xc3, 0xa9] : Bytes).head? ≠ some 0x5b ∧
    hasEscape [0x61, 0xc3, 0xa9] = false ∧ validUtf8 [0x61, 0xc3, 0xa9] = true :=
  ⟨.lit _ (.lit _ (.lit _ .nil)), by decide, by decide, by decide, by decide⟩

/-- the theorem applied: "aé" and "a%C3%a9" give the same result under every oracle and every such configuration -/
example (cfg : Cfg) (hpre : cfg.preHost = none) (henc : cfg.encOverride = none) (I : Idna) (u : Url) :
    parseHost cfg I u [0x61, 0xc3, 0xa9] false = parseHost cfg I u [0x61, 0x25, 0x43, 0x33, 0x25, 0x61, 0x39] false :=
  C09_spelling_independent cfg hpre henc I u [0x61, 0xc3, 0xa9] _ _ (.lit _ (.lit _ (.lit _ .nil))) ex_spelled
    (by decide) (by decide) (by decide) (Or.inl (by decide))

/-- the lax branch really depends on the raw spelling of an ill-formed host (why `hv` is there) -/
example : (parseHost { laxHost := true } (fun s => (s, false)) {} [0xff] false).out ≠
    (parseHost { laxHost := true } (fun s => (s, false)) {} [0x25, 0x66, 0x66] false).out := by
  have e : decodePercent { laxHost := true } [0x25, 0x66, 0x66] = [0xff] := by
    rw [Proofs.Domain.decodePercent_esc _ rfl _ _ _ (by decide) (by decide), Proofs.Domain.decodePercent_nil]
    decide
  have e0 : decodePercent { laxHost := true } [0xff] = [0xff] := Proofs.Domain.decodePercent_no_pct _ _ (by decide)
  unfold parseHost
  simp only [e, e0]
  decide

end WhatwgUrl.Props.C09c
