import WhatwgUrl.Proofs.Reporting
/-
  C15 (second part) — turning on validation-error reporting never changes whether parsing succeeds nor any component
  of the result; every entry recorded on a successfully parsed URL is non-fatal; every returned error is marked as a
  failure (default fail mode); fail-on-validation-error mode is sound w.r.t. the default mode, and exact: it accepts
  precisely the inputs on which reporting mode records nothing.

  All statements are about the executable model `Impl.basicParser` of the Go `BasicParser`.  The proofs are four
  passes over every function of the model (`Proofs/Reporting*.lean`); no statement depends on `Termination.lean`
  (the lock-step inductions are on the fuel itself).
-/
namespace WhatwgUrl.Props.C15b
open WhatwgUrl WhatwgUrl.Impl
open WhatwgUrl.Proofs.Reporting

/-- forget the recorded validation errors of a url / of a parse result -/
abbrev erase (u : Url) : Url := Proofs.Reporting.erase u
abbrev eraseR (r : Res) : Res := Proofs.Reporting.eraseR r

example (u : Url) : erase u = { u with verrs := [] } := rfl
example (r : Res) : eraseR r = { r with url := erase r.url } := rfl

/-- The `preHost`/`postHost` closures of the configuration receive the url and could look at its recorded errors;
    the hypothesis says that they do not. -/
abbrev HostFnsIgnoreVerrs (cfg : Cfg) : Prop := Proofs.Reporting.HostFnsIgnoreVerrs cfg

example (cfg : Cfg) : HostFnsIgnoreVerrs cfg ↔
    ((∀ f, cfg.preHost = some f → ∀ u h, f u h = f (erase u) h) ∧
     (∀ f, cfg.postHost = some f → ∀ u h, f u h = f (erase u) h)) := Iff.rfl

/-! ### 1. reporting is neutral -/

/-- Reporting is neutral: up to the recorded list itself, parsing with reporting switched on gives the same return
    value and the same url (all components, including the ghost `qlog`) as parsing with reporting switched off —
    for every configuration whose host closures ignore the recorded list, every IDNA oracle, input, base, url to
    modify and state override.  The recorded errors of the `base` and of the incoming `url` are irrelevant
    (they are erased on the right-hand side). -/
theorem C15_reporting_neutral (cfg : Cfg) (I : Idna) (input : Bytes) (base url : Option Url) (ov : Option State)
    (hcl : HostFnsIgnoreVerrs cfg) :
    eraseR (basicParser { cfg with report := true } I input base url ov) =
      eraseR (basicParser { cfg with report := false } I input (base.map erase) (url.map erase) ov) := by
  have N1 : NH { cfg with report := true } { cfg with report := false } :=
    ⟨CfgRel.report cfg true false, rfl, rfl, hcl⟩
  have N2 : NH { cfg with report := false } { cfg with report := false } := ⟨CfgRel.refl _, rfl, rfl, hcl⟩
  show Proofs.Reporting.eraseR _ = Proofs.Reporting.eraseR _
  rw [basicParser_N N1, basicParser_N N2, ← basicParser_base]
  congr 1
  cases url <;> rfl

/-- the same with the SAME base on both sides (the form that is used most often) -/
theorem C15_reporting_neutral_same_base (cfg : Cfg) (I : Idna) (input : Bytes) (base url : Option Url)
    (ov : Option State) (hcl : HostFnsIgnoreVerrs cfg) :
    eraseR (basicParser { cfg with report := true } I input base url ov) =
      basicParser { cfg with report := false } I input base (url.map erase) ov :=
  basicParser_N ⟨CfgRel.report cfg true false, rfl, rfl, hcl⟩ I base ov input url

/-- the default configuration (more generally: any configuration without host closures) meets the hypothesis -/
theorem C15_reporting_neutral_default (cfg : Cfg) (I : Idna) (input : Bytes) (base url : Option Url)
    (ov : Option State) (hpre : cfg.preHost = none) (hpost : cfg.postHost = none) :
    eraseR (basicParser { cfg with report := true } I input base url ov) =
      eraseR (basicParser { cfg with report := false } I input (base.map erase) (url.map erase) ov) :=
  C15_reporting_neutral cfg I input base url ov
    ⟨(by intro f hf; rw [hpre] at hf; cases hf), (by intro f hf; rw [hpost] at hf; cases hf)⟩

/-- in particular: same return value (success / the same error / the same panic) … -/
theorem C15_reporting_same_ret (cfg : Cfg) (I : Idna) (input : Bytes) (base url : Option Url) (ov : Option State)
    (hcl : HostFnsIgnoreVerrs cfg) :
    (basicParser { cfg with report := true } I input base url ov).ret =
      (basicParser { cfg with report := false } I input base url ov).ret := by
  have h := congrArg Res.ret (C15_reporting_neutral cfg I input base url ov hcl)
  have h2 := congrArg Res.ret (C15_reporting_neutral_same_base cfg I input base url ov hcl)
  have N2 : NH { cfg with report := false } { cfg with report := false } := ⟨CfgRel.refl _, rfl, rfl, hcl⟩
  have h3 := congrArg Res.ret (basicParser_N N2 I base ov input url)
  exact h2.trans h3.symm

/-- … and the same url up to the recorded list -/
theorem C15_reporting_same_url (cfg : Cfg) (I : Idna) (input : Bytes) (base url : Option Url) (ov : Option State)
    (hcl : HostFnsIgnoreVerrs cfg) :
    erase (basicParser { cfg with report := true } I input base url ov).url =
      erase (basicParser { cfg with report := false } I input base url ov).url := by
  have h2 := congrArg Res.url (C15_reporting_neutral_same_base cfg I input base url ov hcl)
  have N2 : NH { cfg with report := false } { cfg with report := false } := ⟨CfgRel.refl _, rfl, rfl, hcl⟩
  have h3 := congrArg Res.url (basicParser_N N2 I base ov input url)
  exact h2.trans h3.symm

/-! non-vacuity: the hypothesis holds for the default configuration and for one with (verrs-blind) closures; the two
    sides of the equation really differ before erasure; a closure that reads the list breaks neutrality -/

example : HostFnsIgnoreVerrs {} := ⟨(by intro f hf; cases hf), (by intro f hf; cases hf)⟩
example : HostFnsIgnoreVerrs { preHost := some fun u h => u.scheme ++ h } :=
  ⟨(by intro f hf; cases hf; intro u h; rfl), (by intro f hf; cases hf)⟩

/-- a parse that succeeds and records two non-fatal entries under `{ report := true }` (leading space, backslash) -/
example : (basicParser { report := true } (fun s => (s, false)) (lit " http://[::1]\\a") none none none).ret = .url ∧
    (basicParser { report := true } (fun s => (s, false)) (lit " http://[::1]\\a") none none none).url.verrs =
      [⟨.InvalidURLUnit, false⟩, ⟨.InvalidReverseSolidus, false⟩] ∧
    (basicParser { report := false } (fun s => (s, false)) (lit " http://[::1]\\a") none none none).url.verrs = [] := by
  decide +kernel

/-- the hypothesis on the closures cannot be dropped: a `preHost` closure that reads the recorded list makes the
    host — hence the result — depend on reporting -/
example :
    let cfg : Cfg := { preHost := some fun u h => if u.verrs.isEmpty then h else lit "[::2]" }
    (eraseR (basicParser { cfg with report := true } (fun s => (s, false)) (lit " sc://[::1]") none none none)).url.host
        = some (lit "[::2]") ∧
    (eraseR (basicParser { cfg with report := false } (fun s => (s, false)) (lit " sc://[::1]") none none none)).url.host
        = some (lit "[::1]") := by
  decide +kernel

/-- the statement WITHOUT the hypothesis on the closures … -/
def C15_reporting_neutral_Statement : Prop :=
  ∀ (cfg : Cfg) (I : Idna) (input : Bytes) (base url : Option Url) (ov : Option State),
    eraseR (basicParser { cfg with report := true } I input base url ov) =
      eraseR (basicParser { cfg with report := false } I input (base.map erase) (url.map erase) ov)

/-- … is false in the model (a configuration can carry a closure that inspects `url.verrs`; the Go type
    `func(*Url, string) string` allows it as well, since the recorded list is reachable from the url) -/
theorem C15_reporting_neutral_needs_hypothesis : ¬ C15_reporting_neutral_Statement := by
  intro h
  have := h { preHost := some fun u h => if u.verrs.isEmpty then h else lit "[::2]" } (fun s => (s, false))
    (lit " sc://[::1]") none none none
  revert this
  decide +kernel

/-! ### 2. recorded entries on success are non-fatal, returned errors are fatal -/

/-- the invariant "all recorded entries are non-fatal" survives appending a non-fatal entry -/
private theorem uhNF (c : Cfg) : UH c (fun v : List VErr => ∀ e ∈ v, e.failure = false) :=
  ⟨by intro _ v t h e he; simp only [List.mem_append, List.mem_singleton] at he
      rcases he with he | rfl
      · exact h e he
      · rfl⟩

private theorem uhTrue (c : Cfg) : UH c (fun _ : List VErr => True) := ⟨fun _ _ _ _ => trivial⟩

/-- Every entry recorded on a successfully parsed URL is non-fatal (fresh url, no state override). -/
theorem C15_recorded_nonfatal (cfg : Cfg) (I : Idna) (input : Bytes) (base : Option Url) (hf : cfg.failOnVErr = false) :
    (basicParser cfg I input base none none).ret = .url →
      ∀ e ∈ (basicParser cfg I input base none none).url.verrs, e.failure = false := by
  intro h
  exact (basicParser_U (uhNF cfg) I base none input none (by intro e he; cases he)).1 h

/-- The same without the hypothesis on the fail mode, for an arbitrary state override, and for an incoming url whose
    recorded entries are all non-fatal: the hypothesis `failOnVErr = false` is not needed. -/
theorem C15_recorded_nonfatal' (cfg : Cfg) (I : Idna) (input : Bytes) (base url : Option Url) (ov : Option State)
    (hu : ∀ e ∈ (url.getD {}).verrs, e.failure = false) :
    (basicParser cfg I input base url ov).ret = .url →
      ∀ e ∈ (basicParser cfg I input base url ov).url.verrs, e.failure = false := by
  intro h
  exact (basicParser_U (uhNF cfg) I base ov input url hu).1 h

/-- Every error returned by the parser is marked as a failure, when fail-on-validation-error mode is off. -/
theorem C15_returned_marked_failure (cfg : Cfg) (I : Idna) (input : Bytes) (base url : Option Url) (ov : Option State)
    (hf : cfg.failOnVErr = false) :
    ∀ e w, (basicParser cfg I input base url ov).ret = .err e w → e.failure = true := by
  intro e w h
  exact (basicParser_U (uhTrue cfg) I base ov input url trivial).2 hf e w h

/-! non-vacuity -/

/-- success with recorded entries (`C15_recorded_nonfatal` is about a non-empty list here) -/
example : (basicParser { report := true } (fun s => (s, false)) (lit " http://[::1]\\a") none none none).ret = .url ∧
    (basicParser { report := true } (fun s => (s, false)) (lit " http://[::1]\\a") none none none).url.verrs.length = 2 := by
  decide +kernel

/-- an input on which an error is returned, after a non-fatal entry has been recorded: the recorded list of a FAILED
    parse does contain a fatal entry (the last one) — the success hypothesis of `C15_recorded_nonfatal` matters -/
example : (basicParser { report := true } (fun s => (s, false)) (lit " http://[::1]:99999") none none none).ret =
      .err ⟨.PortOutOfRange, true⟩ false ∧
    (basicParser { report := true } (fun s => (s, false)) (lit " http://[::1]:99999") none none none).url.verrs =
      [⟨.InvalidURLUnit, false⟩, ⟨.PortOutOfRange, true⟩] := by
  decide +kernel

/-- an error returned by the host parser (with its url) -/
example : (basicParser {} (fun s => (s, false)) (lit "http://[::1") none none none).ret =
    .err ⟨.IPv6Unclosed, true⟩ true := by decide +kernel

/-- The known exception: under `failOnVErr = true` the returned error can be the NON-fatal error object
    (so the hypothesis `failOnVErr = false` of `C15_returned_marked_failure` cannot be dropped). -/
theorem C15_failmode_returns_nonfatal_counterexample :
    ∃ e w, (basicParser { failOnVErr := true } (fun s => (s, false)) (lit " sc:x") none none none).ret = .err e w ∧
      e.failure = false :=
  ⟨⟨.InvalidURLUnit, false⟩, false, by decide +kernel, rfl⟩

/-! ### 3. fail mode is sound -/

/-- Whatever fail-on-validation-error mode accepts, the default mode accepts with the same url (reporting off). -/
theorem C15_failmode_sound (cfg : Cfg) (I : Idna) (input : Bytes) (base : Option Url) (hr : cfg.report = false) :
    (basicParser { cfg with failOnVErr := true } I input base none none).ret = .url →
    basicParser { cfg with failOnVErr := false } I input base none none =
      basicParser { cfg with failOnVErr := true } I input base none none := by
  intro h
  have F : FH { cfg with failOnVErr := true } { cfg with failOnVErr := false } :=
    ⟨CfgRel.failOnVErr cfg true false, rfl, rfl⟩
  rcases basicParser_F F I base none input none with ⟨e, w, he⟩ | heq
  · rw [h] at he; cases he
  · exact heq.symm

/-- The same for every `report` setting (with reporting on, the recorded lists agree too: a run that fail mode accepts
    passed through no error site at all), every url to modify, every state override, and every outcome of the
    fail-mode run that is not an error (`.url`, `.nilNil`, a panic). -/
theorem C15_failmode_sound' (cfg : Cfg) (I : Idna) (input : Bytes) (base url : Option Url) (ov : Option State)
    (h : ∀ e w, (basicParser { cfg with failOnVErr := true } I input base url ov).ret ≠ .err e w) :
    basicParser { cfg with failOnVErr := false } I input base url ov =
      basicParser { cfg with failOnVErr := true } I input base url ov := by
  have F : FH { cfg with failOnVErr := true } { cfg with failOnVErr := false } :=
    ⟨CfgRel.failOnVErr cfg true false, rfl, rfl⟩
  rcases basicParser_F F I base ov input url with ⟨e, w, he⟩ | heq
  · exact absurd he (h e w)
  · exact heq.symm

/-! non-vacuity -/

/-- fail mode accepts this one … -/
example : (basicParser { failOnVErr := true } (fun s => (s, false)) (lit "http://[::1]/a?b#c") none none none).ret = .url := by
  decide +kernel
/-- … and rejects this one, which the default mode accepts: the converse of `C15_failmode_sound` is false -/
example : (basicParser { failOnVErr := true } (fun s => (s, false)) (lit "http://[::1]\\a") none none none).ret =
      .err ⟨.InvalidReverseSolidus, false⟩ false ∧
    (basicParser { failOnVErr := false } (fun s => (s, false)) (lit "http://[::1]\\a") none none none).ret = .url := by
  decide +kernel

/-! ### 4. fail mode is exact: it accepts exactly the inputs on which reporting mode records nothing -/

/-- a run that fail mode accepts passed through no error site: nothing is recorded (even with reporting on) -/
theorem C15_failmode_records_nothing (cfg : Cfg) (I : Idna) (input : Bytes) (base url : Option Url) (ov : Option State)
    (hu : (url.getD {}).verrs = []) :
    (basicParser { cfg with failOnVErr := true } I input base url ov).ret = .url →
    (basicParser { cfg with failOnVErr := true } I input base url ov).url.verrs = [] := by
  intro h
  have U : UH { cfg with failOnVErr := true } (fun v : List VErr => v = []) := ⟨fun h => by cases h⟩
  exact (basicParser_U U I base ov input url hu).1 h

/-- the return value does not depend on the `report` switch -/
private theorem ret_report (cfg : Cfg) (I : Idna) (input : Bytes) (base url : Option Url) (ov : Option State)
    (hcl : HostFnsIgnoreVerrs cfg) (b : Bool) :
    (basicParser { cfg with report := b } I input base url ov).ret =
      (basicParser { cfg with report := false } I input base url ov).ret := by
  cases b with
  | false => rfl
  | true => exact C15_reporting_same_ret cfg I input base url ov hcl

/-- Fail-on-validation-error mode accepts an input if and only if the default mode with reporting switched on accepts
    it and records nothing — for every base, state override, and url to modify that comes with an empty list. -/
theorem C15_failmode_exact' (cfg : Cfg) (I : Idna) (input : Bytes) (base url : Option Url) (ov : Option State)
    (hcl : HostFnsIgnoreVerrs cfg) (hu : (url.getD {}).verrs = []) :
    (basicParser { cfg with failOnVErr := true } I input base url ov).ret = .url ↔
      ((basicParser { cfg with failOnVErr := false, report := true } I input base url ov).ret = .url ∧
       (basicParser { cfg with failOnVErr := false, report := true } I input base url ov).url.verrs = []) := by
  -- the return value of the fail-mode run with / without reporting
  have hA : (basicParser { cfg with failOnVErr := true } I input base url ov).ret =
      (basicParser { cfg with failOnVErr := true, report := true } I input base url ov).ret :=
    (ret_report { cfg with failOnVErr := true } I input base url ov hcl cfg.report).trans
      (ret_report { cfg with failOnVErr := true } I input base url ov hcl true).symm
  constructor
  · intro h
    rw [hA] at h
    have hB := C15_failmode_records_nothing { cfg with report := true } I input base url ov hu h
    have hC := C15_failmode_sound' { cfg with report := true } I input base url ov (by intro e w he; rw [he] at h; cases h)
    have hC' : basicParser { cfg with failOnVErr := false, report := true } I input base url ov =
        basicParser { cfg with failOnVErr := true, report := true } I input base url ov := hC
    rw [hC']
    exact ⟨h, hB⟩
  · rintro ⟨h1, h2⟩
    rw [hA]
    have F : FH { cfg with failOnVErr := true, report := true } { cfg with failOnVErr := false, report := true } :=
      ⟨CfgRel.failOnVErr { cfg with report := true } true false, rfl, rfl⟩
    rcases basicParser_X F rfl I base ov input url with heq | ⟨_, hg⟩
    · rw [heq]; exact h1
    · exact absurd h2 (hg.1 h1)

/-- the requested form: no base, fresh url, no state override -/
theorem C15_failmode_exact (cfg : Cfg) (I : Idna) (input : Bytes) (hcl : HostFnsIgnoreVerrs cfg) :
    (basicParser { cfg with failOnVErr := true } I input none none none).ret = .url ↔
      ((basicParser { cfg with failOnVErr := false, report := true } I input none none none).ret = .url ∧
       (basicParser { cfg with failOnVErr := false, report := true } I input none none none).url.verrs = []) :=
  C15_failmode_exact' cfg I input none none none hcl rfl

/-! non-vacuity: both sides true / both sides false -/
example : (basicParser { failOnVErr := true } (fun s => (s, false)) (lit "http://[::1]/a") none none none).ret = .url ∧
    (basicParser { failOnVErr := false, report := true } (fun s => (s, false)) (lit "http://[::1]/a") none none none).url.verrs = [] := by
  decide +kernel
example : (basicParser { failOnVErr := true } (fun s => (s, false)) (lit "http:/[::1]/a") none none none).ret ≠ .url ∧
    (basicParser { failOnVErr := false, report := true } (fun s => (s, false)) (lit "http:/[::1]/a") none none none).ret = .url ∧
    (basicParser { failOnVErr := false, report := true } (fun s => (s, false)) (lit "http:/[::1]/a") none none none).url.verrs ≠ [] := by
  decide +kernel

end WhatwgUrl.Props.C15b
