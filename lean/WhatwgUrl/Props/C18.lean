import WhatwgUrl.Proofs.Canon
import WhatwgUrl.Proofs.Trim
/-
  C18 — equivalent spellings: nested escapes, hex case, surrounding white space and embedded tab/newline.
  Property theorems, the definitions they need and their local helper lemmas; the shared helpers are in
  Proofs/Canon.lean and Proofs/Trim.lean.
-/
namespace WhatwgUrl.Props.C18
open WhatwgUrl WhatwgUrl.Impl WhatwgUrl.Proofs.Canon WhatwgUrl.Proofs.Trim

/-! ### 5. nested escapes and hex case -/

/-- one level of escaping: %XX with either hex case; `up` chooses upper (true) or lower case -/
def esc1 (up : Bool) (x : UInt8) : Bytes :=
  [0x25, (if up then hexUpper else hexLower) (x.toNat / 16), (if up then hexUpper else hexLower) (x.toNat % 16)]

/-- every '%' of the text is itself escaped (as %25) -/
def escPct (s : Bytes) : Bytes := s.flatMap fun b => if b == 0x25 then [0x25, 0x32, 0x35] else [b]

/-- n further levels: every '%' of the text is itself escaped (as %25) -/
def nest : Nat → Bytes → Bytes
  | 0, s => s
  | n + 1, s => nest n (s.flatMap fun b => if b == 0x25 then [0x25, 0x32, 0x35] else [b])

theorem nest_succ (n : Nat) (s : Bytes) : nest (n + 1) s = nest n (escPct s) := rfl

private theorem escPct_eq_encP (s : Bytes) : escPct s = encP (· == 0x25) s := by
  unfold escPct encP
  congr 1
  funext b
  by_cases h : b = 0x25
  · subst h; rfl
  · simp [h]

/-- decoding undoes one level of `%`-escaping, whatever follows -/
private theorem canonDecode_escPct_append (u r : Bytes) : canonDecode (escPct u ++ r) = u ++ canonDecode r := by
  rw [escPct_eq_encP]; exact canonDecode_encP_append _ (by decide) u r

private theorem canonDecode_escPct (u : Bytes) : canonDecode (escPct u) = u := by
  rw [escPct_eq_encP]; exact canonDecode_encP _ (by decide) u

private theorem nest_comm : ∀ (n : Nat) (s : Bytes), nest n (escPct s) = escPct (nest n s) := by
  intro n
  induction n with
  | zero => intro s; rfl
  | succ n ih => intro s; rw [nest_succ, ih, nest_succ]

/-- the outermost level of a nest is a `%`-escaping of the nest one level lower -/
theorem nest_succ' (n : Nat) (s : Bytes) : nest (n + 1) s = escPct (nest n s) := by
  rw [nest_succ, nest_comm]

/-- one pass removes one level … -/
theorem canonDecode_nest_succ (n : Nat) (s : Bytes) : canonDecode (nest (n + 1) s) = nest n s := by
  rw [nest_succ', canonDecode_escPct]

/-- … so the loop sees through any number of levels -/
theorem repeatedDecode_nest (n : Nat) (s : Bytes) : repeatedDecode (nest n s) = repeatedDecode s := by
  induction n with
  | zero => rfl
  | succ n ih => rw [← repeatedDecode_step, canonDecode_nest_succ, ih]

private theorem canonDecode_esc1_append (up : Bool) (x : UInt8) (r : Bytes) :
    canonDecode (esc1 up x ++ r) = x :: canonDecode r := by
  cases up
  · obtain ⟨a, b, c⟩ := hexLower_roundtrip x
    show canonDecode (0x25 :: _ :: _ :: r) = _
    simp only [Bool.false_eq_true, if_false]
    rw [canonDecode_esc _ _ _ a b, c]
  · obtain ⟨a, b, c⟩ := hexUpper_roundtrip x
    show canonDecode (0x25 :: _ :: _ :: r) = _
    simp only [if_true]
    rw [canonDecode_esc _ _ _ a b, c]

private theorem canonDecode_nil : canonDecode [] = [] := by simp [canonDecode]

private theorem canonDecode_esc1 (up : Bool) (x : UInt8) : canonDecode (esc1 up x) = [x] := by
  have := canonDecode_esc1_append up x []
  rwa [List.append_nil, canonDecode_nil] at this

/-- the two hex cases are the same escape -/
theorem C18_hex_case (x : UInt8) : canonDecode (esc1 true x) = [x] ∧ canonDecode (esc1 false x) = [x] :=
  ⟨canonDecode_esc1 true x, canonDecode_esc1 false x⟩

private theorem canonDecode_single (x : UInt8) : canonDecode [x] = [x] := by
  rw [canonDecode.eq_3 x [] (by intro _ _ _ h; cases h), canonDecode_nil]

/-- nested escapes of any byte decode to that byte (the byte `%` included: no hypothesis is needed) -/
theorem C18_nested_escape' (up : Bool) (x : UInt8) (n : Nat) : repeatedDecode (nest n (esc1 up x)) = [x] := by
  rw [repeatedDecode_nest, ← repeatedDecode_step, canonDecode_esc1]
  exact repeatedDecode_of_fix _ (canonDecode_single x)

/-- the statement as requested (its hypothesis is not used) -/
theorem C18_nested_escape (up : Bool) (x : UInt8) (n : Nat) (_hx : x ≠ 0x25) :
    repeatedDecode (nest n (esc1 up x)) = [x] :=
  C18_nested_escape' up x n

example : (0x2E : UInt8) ≠ 0x25 := by decide
example : nest 2 (esc1 false 0x2E) = lit "%25252e" := by decide
example : nest 3 (esc1 true 0x25) = lit "%25252525" := by decide
example : repeatedDecode (lit "%25252e") = lit "." := by rw [repeatedDecode_eq_E]; decide +kernel
example : repeatedDecode (lit "%25252525") = lit "%" := by rw [repeatedDecode_eq_E]; decide +kernel

/-! ### whole strings -/

/-- `spelled` is a spelling of `plain`: every byte is written literally or as an arbitrarily nested escape -/
inductive Spelled : Bytes → Bytes → Prop
  | nil : Spelled [] []
  | lit {p s : Bytes} (x : UInt8) (h : Spelled p s) : Spelled (x :: p) (x :: s)
  | esc {p s : Bytes} (up : Bool) (n : Nat) (x : UInt8) (h : Spelled p s) : Spelled (x :: p) (nest n (esc1 up x) ++ s)

private theorem escPct_pct_cons (w : Bytes) : escPct (0x25 :: w) = 0x25 :: 0x32 :: 0x35 :: escPct w := by
  simp [escPct]

private theorem nest_head : ∀ (n : Nat) (w : Bytes), ∃ w', nest n (0x25 :: w) = 0x25 :: w' := by
  intro n
  induction n with
  | zero => intro w; exact ⟨w, rfl⟩
  | succ n ih => intro w; rw [nest_succ, escPct_pct_cons]; exact ih _

private theorem nest_esc1_head (up : Bool) (n : Nat) (x : UInt8) : ∃ w', nest n (esc1 up x) = 0x25 :: w' :=
  nest_head n _

private theorem length_escPct_ge (w : Bytes) : w.length ≤ (escPct w).length := by
  induction w with
  | nil => simp [escPct]
  | cons x w ih =>
    have : escPct (x :: w) = (if x == 0x25 then [0x25, 0x32, 0x35] else [x]) ++ escPct w := by simp [escPct]
    rw [this]
    split <;> simp only [List.length_append, List.length_cons, List.length_nil] <;> omega

private theorem hex2_pct (r : Bytes) : hex2 (0x25 :: r) = false := by
  cases r with
  | nil => rfl
  | cons y r => simp [hex2, isHexN, isDigitN]

private theorem hex2_cons_pct (y : UInt8) (r : Bytes) : hex2 (y :: 0x25 :: r) = false := by
  simp [hex2, isHexN, isDigitN]

/-- a spelling starts with two (literal) hex digits only if the plain text does -/
private theorem spelled_hex2 {p s : Bytes} (h : Spelled p s) (hs : hex2 s = true) : hex2 p = true := by
  cases h with
  | nil => simp [hex2] at hs
  | lit y h' =>
    cases h' with
    | nil => simp [hex2] at hs
    | lit z h'' => simpa [hex2] using hs
    | esc up n z h'' =>
      obtain ⟨w', hw⟩ := nest_esc1_head up n z
      rw [hw, List.cons_append, hex2_cons_pct] at hs
      cases hs
  | esc up n z h' =>
    obtain ⟨w', hw⟩ := nest_esc1_head up n z
    rw [hw, List.cons_append, hex2_pct] at hs
    cases hs

/-- one decode pass over a spelling of a fixed point: every escape loses one level, and nothing else happens -/
private theorem spelled_pass {p s : Bytes} (h : Spelled p s) :
    canonDecode p = p → Spelled p (canonDecode s) ∧ (canonDecode s = s → s = p) := by
  induction h with
  | nil => intro _; rw [canonDecode_nil]; exact ⟨Spelled.nil, fun _ => rfl⟩
  | @lit p s x h ih =>
    intro hfix
    obtain ⟨hp, hx⟩ := canonDecode_fix_cons x p hfix
    have hx' : ¬(x = 0x25 ∧ hex2 s = true) := fun hh => hx ⟨hh.1, spelled_hex2 h hh.2⟩
    rw [canonDecode_cons_of_not x s hx']
    refine ⟨Spelled.lit x (ih hp).1, fun he => ?_⟩
    rw [(ih hp).2 (List.tail_eq_of_cons_eq he)]
  | @esc p s up n x h ih =>
    intro hfix
    obtain ⟨hp, _⟩ := canonDecode_fix_cons x p hfix
    have hlen := canonDecode_length_le s
    cases n with
    | zero =>
      show Spelled _ (canonDecode (esc1 up x ++ s)) ∧ (canonDecode (esc1 up x ++ s) = esc1 up x ++ s → _)
      rw [canonDecode_esc1_append]
      refine ⟨Spelled.lit x (ih hp).1, fun he => ?_⟩
      have := congrArg List.length he
      simp only [esc1, List.length_cons, List.length_append, List.length_nil] at this
      omega
    | succ n =>
      rw [nest_succ', canonDecode_escPct_append]
      refine ⟨Spelled.esc up n x (ih hp).1, fun he => ?_⟩
      obtain ⟨w', hw⟩ := nest_esc1_head up n x
      have := congrArg List.length he
      rw [hw, escPct_pct_cons] at this
      have := length_escPct_ge w'
      simp only [List.length_cons, List.length_append] at *
      omega

/-- **Equivalent spellings.**  If the plain text contains no decodable escape (`hfix`), every spelling of it — any of its
    bytes written as `%XX` in either hex case under any number of further `%25` levels — is decoded to it by the loop.
    `hfix` is the only side condition needed: a literal `%` in `plain` is harmless as long as it is not followed by two
    hex digits *in `plain`*, because an escape always starts with `%`, never with a hex digit. -/
theorem C18_spelling_decode (plain : Bytes) (spelled : Bytes) (h : Spelled plain spelled)
    (hfix : canonDecode plain = plain) : repeatedDecode spelled = plain := by
  suffices H : ∀ (n : Nat) (s : Bytes), s.length ≤ n → Spelled plain s → repeatedDecode s = plain from
    H _ _ (Nat.le_refl _) h
  intro n
  induction n with
  | zero =>
    intro s hl hs
    obtain ⟨_, h2⟩ := spelled_pass hs hfix
    by_cases hc : canonDecode s = s
    · rw [h2 hc]; exact repeatedDecode_of_fix _ hfix
    · have := canonDecode_shortens s hc; omega
  | succ m ih =>
    intro s hl hs
    obtain ⟨h1, h2⟩ := spelled_pass hs hfix
    by_cases hc : canonDecode s = s
    · rw [h2 hc]; exact repeatedDecode_of_fix _ hfix
    · have := canonDecode_shortens s hc
      rw [← repeatedDecode_step]
      exact ih _ (by omega) h1

/-- a text without `%` is a fixed point of decoding … -/
theorem canonDecode_of_no_pct (s : Bytes) (h : (0x25 : UInt8) ∉ s) : canonDecode s = s := by
  induction s with
  | nil => exact canonDecode_nil
  | cons x s ih =>
    have hx : x ≠ 0x25 := fun e => h (by simp [e])
    rw [canonDecode_cons_ne x s hx, ih (fun hm => h (by simp [hm]))]

/-- … so for plain texts over the unreserved characters (no `%` at all) every spelling decodes to the plain text -/
theorem C18_spelling_decode_no_pct (plain spelled : Bytes) (h : Spelled plain spelled)
    (hp : (0x25 : UInt8) ∉ plain) : repeatedDecode spelled = plain :=
  C18_spelling_decode plain spelled h (canonDecode_of_no_pct plain hp)

/-- and therefore two spellings of the same text have the same canonical form -/
theorem C18_spellings_agree (tr : PSet) (plain s₁ s₂ : Bytes) (h₁ : Spelled plain s₁) (h₂ : Spelled plain s₂)
    (hfix : canonDecode plain = plain) : decodeEncode tr s₁ = decodeEncode tr s₂ := by
  unfold decodeEncode
  rw [C18_spelling_decode _ _ h₁ hfix, C18_spelling_decode _ _ h₂ hfix]

/-- non-vacuity: "a.b%" spelled "a%252eb%25" (a doubly escaped lower-case dot, a literal `b`, an escaped `%`) -/
example : Spelled [0x61, 0x2E, 0x62, 0x25] (0x61 :: (nest 1 (esc1 false 0x2E) ++ 0x62 :: (nest 0 (esc1 true 0x25) ++ []))) :=
  .lit _ (.esc false 1 _ (.lit _ (.esc true 0 _ .nil)))
example : (0x61 :: (nest 1 (esc1 false 0x2E) ++ 0x62 :: (nest 0 (esc1 true 0x25) ++ []))) = lit "a%252eb%25" ∧
    [0x61, 0x2E, 0x62, 0x25] = lit "a.b%" := by decide
example : canonDecode (lit "a.b%") = lit "a.b%" := by rw [canonDecode_eq_E]; decide +kernel
example : repeatedDecode (lit "a%252eb%25") = lit "a.b%" := by rw [repeatedDecode_eq_E]; decide +kernel

/-- without `hfix` the statement is false: "%41" is a (literal) spelling of itself but decodes to "A" -/
example : Spelled (lit "%41") (lit "%41") ∧ repeatedDecode (lit "%41") ≠ lit "%41" := by
  refine ⟨?_, ?_⟩
  · show Spelled [0x25, 0x34, 0x31] [0x25, 0x34, 0x31]
    exact .lit _ (.lit _ (.lit _ .nil))
  · rw [repeatedDecode_eq_E]; decide +kernel

/-! ### 6. the parser prologue: surrounding white space, embedded tab and newline -/

/-- with reporting and fail-mode off the parser sees its input only through the trimmed-and-filtered text -/
theorem C18_tab_newline (cfg : Cfg) (I : Idna) (x y : Bytes) (base : Option Url) (ov : Option State)
    (hr : cfg.report = false) (hf : cfg.failOnVErr = false)
    (h : (removeTabNl (trim c0OrSpaceSet x).1).1 = (removeTabNl (trim c0OrSpaceSet y).1).1) :
    basicParser cfg I x base none ov = basicParser cfg I y base none ov := by
  unfold basicParser
  simp only [stops, record, hr, hf, Bool.or_self, Bool.and_false, Bool.false_eq_true, if_false, ite_self,
    Option.isNone_none, if_true, h]

example : (removeTabNl (trim c0OrSpaceSet (lit " ht\ttp://a\n/ ")).1).1 = (removeTabNl (trim c0OrSpaceSet (lit "http://a/")).1).1 := by
  rw [trim_fst, trim_fst]; decide

/-- padding the input with bytes ≤ 0x20 on either side does not change the result -/
theorem C18_whitespace (cfg : Cfg) (I : Idna) (x pre post : Bytes) (base : Option Url) (ov : Option State)
    (hr : cfg.report = false) (hf : cfg.failOnVErr = false)
    (hpre : ∀ b ∈ pre, b.toNat ≤ 0x20) (hpost : ∀ b ∈ post, b.toNat ≤ 0x20) :
    basicParser cfg I (pre ++ x ++ post) base none ov = basicParser cfg I x base none ov :=
  C18_tab_newline cfg I _ _ base ov hr hf (by rw [trim_pad x pre post hpre hpost])

example : Cfg.default.report = false ∧ Cfg.default.failOnVErr = false ∧
    (∀ b ∈ lit " \n\t", b.toNat ≤ 0x20) ∧ (∀ b ∈ lit "\r  ", b.toNat ≤ 0x20) := by decide

/-- the trimming itself, as a byte-level statement (rune-level prefix trimming included) -/
theorem C18_trim_bytes (s : Bytes) : (trim c0OrSpaceSet s).1 = dropWsR (dropWs s) := trim_fst s

/-- tab / newline anywhere in the input are invisible (same hypotheses) -/
theorem C18_tab_newline_insert (cfg : Cfg) (I : Idna) (a b : Bytes) (t : UInt8) (base : Option Url) (ov : Option State)
    (hr : cfg.report = false) (hf : cfg.failOnVErr = false) (ht : isTabNl t = true) :
    basicParser cfg I (a ++ t :: b) base none ov = basicParser cfg I (a ++ b) base none ov := by
  apply C18_tab_newline cfg I _ _ base ov hr hf
  rw [prologue_text, prologue_text]
  have : notTabNl t = false := by simp [notTabNl, ht]
  simp [List.filter_cons, this]

example : isTabNl 0x0a = true := by decide

end WhatwgUrl.Props.C18
