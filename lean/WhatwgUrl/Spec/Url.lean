import WhatwgUrl.Spec.Basic
/-
  Spec: URL record, basic URL parser (21 states), URL serializer, API getters and setters,
  application/x-www-form-urlencoded. Transcribed from the standard (DESIGN.md, Appendix B).
-/
namespace WhatwgUrl.Spec
open WhatwgUrl

inductive SPath
  | opaque (s : Str)
  | list (segs : List Str)
deriving DecidableEq, Repr, BEq

/-- a URL record; the host is kept serialized, the port as a number -/
structure SUrl where
  scheme : Str := []
  username : Str := []
  password : Str := []
  host : Option Str := none
  port : Option Nat := none
  path : SPath := .list []
  query : Option Str := none
  fragment : Option Str := none
deriving DecidableEq, Repr, BEq

def specialSchemes : List (Str × Option Nat) :=
  [("ftp".toList, some 21), ("file".toList, none), ("http".toList, some 80), ("https".toList, some 443), ("ws".toList, some 80), ("wss".toList, some 443)]

def isSpecialScheme (s : Str) : Bool := (specialSchemes.find? (·.1 == s)).isSome
def defaultPort (s : Str) : Option Nat := ((specialSchemes.find? (·.1 == s)).map (·.2)).getD none
def SUrl.isSpecial (u : SUrl) : Bool := isSpecialScheme u.scheme
def SUrl.includesCredentials (u : SUrl) : Bool := !u.username.isEmpty || !u.password.isEmpty
def SUrl.hasOpaquePath (u : SUrl) : Bool := match u.path with | .opaque _ => true | .list _ => false
def SUrl.cannotHaveUPP (u : SUrl) : Bool := u.host == none || u.host == some [] || u.scheme == "file".toList

def isWindowsDriveLetter (s : Str) : Bool :=
  match s with
  | [a, b] => isAlphaN a.toNat && (b == ':' || b == '|')
  | _ => false
def isNormalizedWindowsDriveLetter (s : Str) : Bool :=
  match s with
  | [a, b] => isAlphaN a.toNat && b == ':'
  | _ => false
def startsWithWindowsDriveLetter (s : Str) : Bool :=
  match s with
  | a :: b :: rest =>
    isWindowsDriveLetter [a, b] && (match rest with | [] => true | c :: _ => c == '/' || c == '\\' || c == '?' || c == '#')
  | _ => false

def lowerStr (s : Str) : Str := s.map lowerC
def isSingleDot (s : Str) : Bool := s == ['.'] || lowerStr s == "%2e".toList
def isDoubleDot (s : Str) : Bool :=
  s == ['.', '.'] || lowerStr s == ".%2e".toList || lowerStr s == "%2e.".toList || lowerStr s == "%2e%2e".toList

/-- shorten a url's path -/
def shorten (u : SUrl) : SUrl :=
  match u.path with
  | .opaque _ => u
  | .list segs =>
    if u.scheme == "file".toList && segs.length == 1 && isNormalizedWindowsDriveLetter (segs.headD []) then u
    else { u with path := .list segs.dropLast }

def pathAppend (u : SUrl) (s : Str) : SUrl :=
  match u.path with
  | .list segs => { u with path := .list (segs ++ [s]) }
  | .opaque p => { u with path := .opaque (p ++ s) }

def pathList (u : SUrl) : List Str := match u.path with | .list l => l | .opaque _ => []

inductive St
  | schemeStart | scheme | noScheme | specialRelativeOrAuthority | pathOrAuthority | relative | relativeSlash
  | specialAuthoritySlashes | specialAuthorityIgnoreSlashes | authority | host | hostname | port | file | fileSlash
  | fileHost | pathStart | path | opaquePath | query | fragment
deriving DecidableEq, Repr, BEq

structure PS where
  state : St
  pointer : Int := 0
  buffer : Str := []
  atSignSeen : Bool := false
  insideBrackets : Bool := false
  passwordTokenSeen : Bool := false
  url : SUrl

inductive R
  | cont (ps : PS)        -- go on (pointer handling is done by the driver loop)
  | ret (u : SUrl)        -- "return" (only with a state override)
  | failure (u : SUrl)    -- "return failure"; the url as modified so far matters to the setters

/-- c: the code point at pointer; `none` = EOF -/
def cAt (input : Str) (p : Int) : Option Char := if 0 ≤ p then input[p.toNat]? else none
def remaining (input : Str) (p : Int) : Str := input.drop (p + 1).toNat

def isC (c : Option Char) (x : Char) : Bool := c == some x

/-- the port state's "url's port := null if it is the default port, else port" -/
def setPort (u : SUrl) (p : Nat) : SUrl := { u with port := if defaultPort u.scheme == some p then none else some p }

/-- credentials loop of the authority state -/
def credLoop : Str → Bool → Str → Str → Bool × Str × Str
  | [], pw, user, pass => (pw, user, pass)
  | c :: rest, pw, user, pass =>
    if c == ':' && !pw then credLoop rest true user pass
    else if pw then credLoop rest pw user (pass ++ utf8PercentEncodeCp userinfoSet c)
    else credLoop rest pw (user ++ utf8PercentEncodeCp userinfoSet c) pass

/-- one run of the state machine for the code point at pointer -/
def run (I : SIdna) (input : Str) (base : Option SUrl) (ov : Option St) (ps : PS) : R :=
  let c := cAt input ps.pointer
  let url := ps.url
  let dec : PS → PS := fun ps => { ps with pointer := ps.pointer - 1 }
  match ps.state with
  | .schemeStart =>
    match c with
    | some ch =>
      if isAlphaN ch.toNat then .cont { ps with buffer := ps.buffer ++ [lowerC ch], state := .scheme }
      else if ov.isNone then .cont (dec { ps with state := .noScheme })
      else .failure url
    | none => if ov.isNone then .cont (dec { ps with state := .noScheme }) else .failure url
  | .scheme =>
    match c with
    | some ch =>
      if isAlnumN ch.toNat || ch == '+' || ch == '-' || ch == '.' then .cont { ps with buffer := ps.buffer ++ [lowerC ch] }
      else if ch == ':' then
        if ov.isSome && (isSpecialScheme url.scheme != isSpecialScheme ps.buffer) then .ret url
        else if ov.isSome && ((url.includesCredentials || url.port.isSome) && ps.buffer == "file".toList) then .ret url
        else if ov.isSome && url.scheme == "file".toList && url.host == some [] then .ret url
        else
          let url := { url with scheme := ps.buffer }
          if ov.isSome then
            .ret (if url.port == defaultPort url.scheme then { url with port := none } else url)
          else
            let ps := { ps with url := url, buffer := [] }
            if url.scheme == "file".toList then .cont { ps with state := .file }
            else if url.isSpecial && (match base with | some b => b.scheme == url.scheme | none => false) then
              .cont { ps with state := .specialRelativeOrAuthority }
            else if url.isSpecial then .cont { ps with state := .specialAuthoritySlashes }
            else if (remaining input ps.pointer).head? == some '/' then
              .cont { ps with state := .pathOrAuthority, pointer := ps.pointer + 1 }
            else .cont { ps with state := .opaquePath, url := { url with path := .opaque [] } }
      else if ov.isNone then .cont { ps with buffer := [], state := .noScheme, pointer := -1 }
      else .failure url
    | none => if ov.isNone then .cont { ps with buffer := [], state := .noScheme, pointer := -1 } else .failure url
  | .noScheme =>
    match base with
    | none => .failure url
    | some b =>
      if b.hasOpaquePath && !isC c '#' then .failure url
      else if b.hasOpaquePath && isC c '#' then
        .cont { ps with state := .fragment, url := { url with scheme := b.scheme, path := b.path, query := b.query, fragment := some [] } }
      else if b.scheme != "file".toList then .cont (dec { ps with state := .relative })
      else .cont (dec { ps with state := .file })
  | .specialRelativeOrAuthority =>
    if isC c '/' && (remaining input ps.pointer).head? == some '/' then
      .cont { ps with state := .specialAuthorityIgnoreSlashes, pointer := ps.pointer + 1 }
    else .cont (dec { ps with state := .relative })
  | .pathOrAuthority =>
    if isC c '/' then .cont { ps with state := .authority } else .cont (dec { ps with state := .path })
  | .relative =>
    match base with
    | none => .failure url
    | some b =>
      let url := { url with scheme := b.scheme }
      if isC c '/' then .cont { ps with url := url, state := .relativeSlash }
      else if url.isSpecial && isC c '\\' then .cont { ps with url := url, state := .relativeSlash }
      else
        let url := { url with username := b.username, password := b.password, host := b.host, port := b.port, path := b.path, query := b.query }
        if isC c '?' then .cont { ps with url := { url with query := some [] }, state := .query }
        else if isC c '#' then .cont { ps with url := { url with fragment := some [] }, state := .fragment }
        else if c.isSome then .cont (dec { ps with url := shorten { url with query := none }, state := .path })
        else .cont { ps with url := url }
  | .relativeSlash =>
    if url.isSpecial && (isC c '/' || isC c '\\') then .cont { ps with state := .specialAuthorityIgnoreSlashes }
    else if isC c '/' then .cont { ps with state := .authority }
    else match base with
      | none => .failure url
      | some b =>
        .cont (dec { ps with url := { url with username := b.username, password := b.password, host := b.host, port := b.port }, state := .path })
  | .specialAuthoritySlashes =>
    if isC c '/' && (remaining input ps.pointer).head? == some '/' then
      .cont { ps with state := .specialAuthorityIgnoreSlashes, pointer := ps.pointer + 1 }
    else .cont (dec { ps with state := .specialAuthorityIgnoreSlashes })
  | .specialAuthorityIgnoreSlashes =>
    if !isC c '/' && !isC c '\\' then .cont (dec { ps with state := .authority }) else .cont ps
  | .authority =>
    if isC c '@' then
      let buf := if ps.atSignSeen then "%40".toList ++ ps.buffer else ps.buffer
      let cl := credLoop buf ps.passwordTokenSeen url.username url.password
      .cont { ps with atSignSeen := true, buffer := [], passwordTokenSeen := cl.1, url := { url with username := cl.2.1, password := cl.2.2 } }
    else if c.isNone || isC c '/' || isC c '?' || isC c '#' || (url.isSpecial && isC c '\\') then
      if ps.atSignSeen && ps.buffer.isEmpty then .failure url
      else .cont { ps with pointer := ps.pointer - (ps.buffer.length + 1 : Nat), buffer := [], state := .host }
    else .cont { ps with buffer := ps.buffer ++ [c.getD ' '] }
  | .host | .hostname =>
    if ov.isSome && url.scheme == "file".toList then .cont (dec { ps with state := .fileHost })
    else if isC c ':' && !ps.insideBrackets then
      if ps.buffer.isEmpty then .failure url
      else if ov == some .hostname then .ret url
      else match parseHost I ps.buffer (!url.isSpecial) with
        | none => .failure url
        | some h => .cont { ps with url := { url with host := some h }, buffer := [], state := .port }
    else if c.isNone || isC c '/' || isC c '?' || isC c '#' || (url.isSpecial && isC c '\\') then
      let ps := dec ps
      if url.isSpecial && ps.buffer.isEmpty then .failure url
      else if ov.isSome && ps.buffer.isEmpty && (url.includesCredentials || url.port.isSome) then .ret url
      else match parseHost I ps.buffer (!url.isSpecial) with
        | none => .failure url
        | some h =>
          let url := { url with host := some h }
          if ov.isSome then .ret url else .cont { ps with url := url, buffer := [], state := .pathStart }
    else
      let ps := if isC c '[' then { ps with insideBrackets := true } else if isC c ']' then { ps with insideBrackets := false } else ps
      .cont { ps with buffer := ps.buffer ++ [c.getD ' '] }
  | .port =>
    if isDigitC c then .cont { ps with buffer := ps.buffer ++ [c.getD '0'] }
    else if c.isNone || isC c '/' || isC c '?' || isC c '#' || (url.isSpecial && isC c '\\') || ov.isSome then
      if !ps.buffer.isEmpty && strVal 10 ps.buffer > 65535 then .failure url
      else
        let url := if !ps.buffer.isEmpty then setPort url (strVal 10 ps.buffer) else url
        if ov.isSome then .ret url
        else .cont (dec { ps with url := url, buffer := [], state := .pathStart })
    else .failure url
  | .file =>
    let url := { url with scheme := "file".toList, host := some [] }
    if isC c '/' || isC c '\\' then .cont { ps with url := url, state := .fileSlash }
    else match base with
      | some b =>
        if b.scheme == "file".toList then
          let url := { url with host := b.host, path := b.path, query := b.query }
          if isC c '?' then .cont { ps with url := { url with query := some [] }, state := .query }
          else if isC c '#' then .cont { ps with url := { url with fragment := some [] }, state := .fragment }
          else if c.isSome then
            let url := { url with query := none }
            let url := if !startsWithWindowsDriveLetter (input.drop ps.pointer.toNat) then shorten url else { url with path := .list [] }
            .cont (dec { ps with url := url, state := .path })
          else .cont { ps with url := url }
        else .cont (dec { ps with url := url, state := .path })
      | none => .cont (dec { ps with url := url, state := .path })
  | .fileSlash =>
    if isC c '/' || isC c '\\' then .cont { ps with state := .fileHost }
    else
      let url := match base with
        | some b =>
          if b.scheme == "file".toList then
            let url := { url with host := b.host }
            if !startsWithWindowsDriveLetter (input.drop ps.pointer.toNat) &&
                (match (pathList b).head? with | some s => isNormalizedWindowsDriveLetter s | none => false) then
              pathAppend url ((pathList b).headD [])
            else url
          else url
        | none => url
      .cont (dec { ps with url := url, state := .path })
  | .fileHost =>
    if c.isNone || isC c '/' || isC c '\\' || isC c '?' || isC c '#' then
      let ps := dec ps
      if ov.isNone && isWindowsDriveLetter ps.buffer then .cont { ps with state := .path }
      else if ps.buffer.isEmpty then
        let url := { url with host := some [] }
        if ov.isSome then .ret url else .cont { ps with url := url, state := .pathStart }
      else match parseHost I ps.buffer (!url.isSpecial) with
        | none => .failure url
        | some h =>
          let url := { url with host := some (if h == "localhost".toList then [] else h) }
          if ov.isSome then .ret url else .cont { ps with url := url, buffer := [], state := .pathStart }
    else .cont { ps with buffer := ps.buffer ++ [c.getD ' '] }
  | .pathStart =>
    if url.isSpecial then
      .cont { (if !isC c '/' && !isC c '\\' then dec ps else ps) with state := .path }
    else if ov.isNone && isC c '?' then .cont { ps with url := { url with query := some [] }, state := .query }
    else if ov.isNone && isC c '#' then .cont { ps with url := { url with fragment := some [] }, state := .fragment }
    else if c.isSome then .cont { (if !isC c '/' then dec ps else ps) with state := .path }
    else if ov.isSome && url.host == none then .cont { ps with url := pathAppend url [] }
    else .cont ps
  | .path =>
    let slash := isC c '/' || (url.isSpecial && isC c '\\')
    if c.isNone || slash || (ov.isNone && (isC c '?' || isC c '#')) then
      let url :=
        if isDoubleDot ps.buffer then
          let url := shorten url
          if !slash then pathAppend url [] else url
        else if isSingleDot ps.buffer && !slash then pathAppend url []
        else if !isSingleDot ps.buffer then
          let buf :=
            if url.scheme == "file".toList && (pathList url).isEmpty && isWindowsDriveLetter ps.buffer then
              ps.buffer.take 1 ++ [':']
            else ps.buffer
          pathAppend url buf
        else url
      let ps := { ps with url := url, buffer := [] }
      if isC c '?' then .cont { ps with url := { url with query := some [] }, state := .query }
      else if isC c '#' then .cont { ps with url := { url with fragment := some [] }, state := .fragment }
      else .cont ps
    else .cont { ps with buffer := ps.buffer ++ utf8PercentEncodeCp pathSet (c.getD ' ') }
  | .opaquePath =>
    if isC c '?' then .cont { ps with url := { url with query := some [] }, state := .query }
    else if isC c '#' then .cont { ps with url := { url with fragment := some [] }, state := .fragment }
    else match c with
      | some ch => .cont { ps with url := pathAppend url (utf8PercentEncodeCp c0ControlSet ch) }
      | none => .cont ps
  | .query =>
    if (ov.isNone && isC c '#') || c.isNone then
      let set := if url.isSpecial then specialQuerySet else querySet
      let url := { url with query := some (url.query.getD [] ++ utf8PercentEncode set ps.buffer) }
      let ps := { ps with url := url, buffer := [] }
      if isC c '#' then .cont { ps with url := { url with fragment := some [] }, state := .fragment } else .cont ps
    else .cont { ps with buffer := ps.buffer ++ [c.getD ' '] }
  | .fragment =>
    match c with
    | some ch => .cont { ps with url := { url with fragment := some (url.fragment.getD [] ++ utf8PercentEncodeCp fragmentSet ch) } }
    | none => .cont ps

/-- "Keep running the state machine …; if after a run pointer points to the EOF code point, go to the next step;
    otherwise increase pointer by 1 and continue." `(url, failed)` -/
def machine (I : SIdna) (input : Str) (base : Option SUrl) (ov : Option St) : Nat → PS → SUrl × Bool
  | 0, ps => (ps.url, true)
  | fuel + 1, ps =>
    match run I input base ov ps with
    | .ret u => (u, false)
    | .failure u => (u, true)
    | .cont ps' =>
      if ps'.pointer ≥ (input.length : Int) then (ps'.url, false)
      else machine I input base ov fuel { ps' with pointer := ps'.pointer + 1 }

def isC0OrSpace (c : Char) : Bool := c.toNat ≤ 0x20
def isTabOrNewline (c : Char) : Bool := c.toNat == 0x09 || c.toNat == 0x0A || c.toNat == 0x0D

/-- basic URL parser. Result: the url (as modified so far) and whether failure was returned. -/
def basicParse (I : SIdna) (input : Str) (base : Option SUrl) (url : Option SUrl) (ov : Option St) : SUrl × Bool :=
  let input := if url.isNone then (input.dropWhile isC0OrSpace).reverse.dropWhile isC0OrSpace |>.reverse else input
  let input := input.filter (!isTabOrNewline ·)
  machine I input base ov (24 * (input.length + 2)) { state := ov.getD .schemeStart, url := url.getD {} }

/-! ### serializer and getters -/

def portStr (p : Nat) : Str := natToStr p

def pathSerialize (u : SUrl) : Str :=
  match u.path with
  | .opaque s => s
  | .list segs => segs.flatMap fun s => '/' :: s

def serialize (u : SUrl) (excludeFragment : Bool) : Str :=
  u.scheme ++ [':'] ++
  (match u.host with
   | some h =>
     ['/', '/'] ++
     (if u.includesCredentials then u.username ++ (if !u.password.isEmpty then ':' :: u.password else []) ++ ['@'] else []) ++
     h ++ (match u.port with | some p => ':' :: portStr p | none => [])
   | none =>
     if !u.hasOpaquePath && (pathList u).length > 1 && (pathList u).head? == some [] then ['/', '.'] else []) ++
  pathSerialize u ++
  (match u.query with | some q => '?' :: q | none => []) ++
  (if !excludeFragment then (match u.fragment with | some f => '#' :: f | none => []) else [])

def getProtocol (u : SUrl) : Str := u.scheme ++ [':']
def getHost (u : SUrl) : Str :=
  match u.host with
  | none => []
  | some h => match u.port with | none => h | some p => h ++ [':'] ++ portStr p
def getHostname (u : SUrl) : Str := u.host.getD []
def getPort (u : SUrl) : Str := match u.port with | none => [] | some p => portStr p
def getSearch (u : SUrl) : Str := match u.query with | none => [] | some q => if q.isEmpty then [] else '?' :: q
def getHash (u : SUrl) : Str := match u.fragment with | none => [] | some f => if f.isEmpty then [] else '#' :: f

/-! ### API setters -/

/-- potentially strip trailing spaces from an opaque path -/
def stripTrailingSpaces (u : SUrl) : SUrl :=
  match u.path with
  | .opaque s => if u.fragment.isSome || u.query.isSome then u else { u with path := .opaque (s.reverse.dropWhile (· == ' ')).reverse }
  | .list _ => u

inductive Setter
  | protocol | username | password | host | hostname | port | pathname | search | hash
deriving DecidableEq, Repr, BEq

def set (I : SIdna) (s : Setter) (u : SUrl) (v : Str) : SUrl :=
  match s with
  | .protocol => (basicParse I (v ++ [':']) none (some u) (some .schemeStart)).1
  | .username => if u.cannotHaveUPP then u else { u with username := utf8PercentEncode userinfoSet v }
  | .password => if u.cannotHaveUPP then u else { u with password := utf8PercentEncode userinfoSet v }
  | .host => if u.hasOpaquePath then u else (basicParse I v none (some u) (some .host)).1
  | .hostname => if u.hasOpaquePath then u else (basicParse I v none (some u) (some .hostname)).1
  | .port =>
    if u.cannotHaveUPP then u
    else if v.isEmpty then { u with port := none }
    else (basicParse I v none (some u) (some .port)).1
  | .pathname => if u.hasOpaquePath then u else (basicParse I v none (some { u with path := .list [] }) (some .pathStart)).1
  | .search =>
    if v.isEmpty then stripTrailingSpaces { u with query := none }
    else
      let input := if v.head? == some '?' then v.drop 1 else v
      (basicParse I input none (some { u with query := some [] }) (some .query)).1
  | .hash =>
    if v.isEmpty then stripTrailingSpaces { u with fragment := none }
    else
      let input := if v.head? == some '#' then v.drop 1 else v
      (basicParse I input none (some { u with fragment := some [] }) (some .fragment)).1

/-! ### parsing with an optional base string (the API's URL constructor) -/

/-- `none` = failure -/
def apiParse (I : SIdna) (input : Str) (base : Option Str) : Option SUrl :=
  match base with
  | none => let r := basicParse I input none none none; if r.2 then none else some r.1
  | some b =>
    let rb := basicParse I b none none none
    if rb.2 then none
    else let r := basicParse I input (some rb.1) none none; if r.2 then none else some r.1

/-! ### application/x-www-form-urlencoded -/

abbrev SPairs := List (Bytes × Bytes)

/-- urlencoded parser on bytes; names and values are returned as the decoded bytes (the final "UTF-8 decode without
    BOM" is applied by the consumer: `utf8DecodeLossy`). -/
def urlencodedParse (input : Bytes) : SPairs :=
  (splitOn 0x26 input).filterMap fun seq =>
    if seq.isEmpty then none
    else
      let name := (splitFirst 0x3d seq).1
      let value := ((splitFirst 0x3d seq).2).getD []
      some (percentDecode (replaceByte 0x2b 0x20 name), percentDecode (replaceByte 0x2b 0x20 value))

def urlencodedByte (x : UInt8) : Bytes :=
  if x == 0x20 then [0x2b] else if urlencodedSet x.toNat then pctByte x else [x]

/-- urlencoded serializer -/
def urlencodedSerialize (l : SPairs) : Bytes :=
  intercalate [0x26] (l.map fun nv => nv.1.flatMap urlencodedByte ++ [0x3d] ++ nv.2.flatMap urlencodedByte)

/-! ### URLSearchParams list semantics -/

def spAppend (l : SPairs) (n v : Bytes) : SPairs := l ++ [(n, v)]
def spDelete (l : SPairs) (n : Bytes) : SPairs := l.filter (·.1 != n)
def spGet (l : SPairs) (n : Bytes) : Option Bytes := (l.find? (·.1 == n)).map (·.2)
def spGetAll (l : SPairs) (n : Bytes) : List Bytes := (l.filter (·.1 == n)).map (·.2)
def spHas (l : SPairs) (n : Bytes) : Bool := l.any (·.1 == n)
/-- set: if there is a pair with that name, set the first one's value and remove the others; else append -/
def spSet (l : SPairs) (n v : Bytes) : SPairs :=
  if l.any (·.1 == n) then
    let i := (l.findIdx? (·.1 == n)).getD 0
    l.take i ++ [(n, v)] ++ (l.drop (i + 1)).filter (·.1 != n)
  else l ++ [(n, v)]

end WhatwgUrl.Spec
