import WhatwgUrl.Basic
/-
  Spec: the WHATWG URL Standard (24 May 2023 snapshot) transcribed as executable Lean over scalar value
  strings (`Str = List Char`). Written to read like the standard's numbered steps (DESIGN.md, Appendix B).
  This file: percent-encode sets, percent codec, IPv4, IPv6, host parser.
-/
namespace WhatwgUrl.Spec
open WhatwgUrl

/-! ### code point sets (membership on code point numbers) -/

def c0ControlSet (c : Nat) : Bool := c ≤ 0x1F || c > 0x7E
def fragmentSet (c : Nat) : Bool := c0ControlSet c || c == 0x20 || c == 0x22 || c == 0x3C || c == 0x3E || c == 0x60
def querySet (c : Nat) : Bool := c0ControlSet c || c == 0x20 || c == 0x22 || c == 0x23 || c == 0x3C || c == 0x3E
def specialQuerySet (c : Nat) : Bool := querySet c || c == 0x27
def pathSet (c : Nat) : Bool := querySet c || c == 0x3F || c == 0x60 || c == 0x7B || c == 0x7D
def userinfoSet (c : Nat) : Bool :=
  pathSet c || c == 0x2F || c == 0x3A || c == 0x3B || c == 0x3D || c == 0x40 || (0x5B ≤ c && c ≤ 0x5E) || c == 0x7C
def componentSet (c : Nat) : Bool := userinfoSet c || (0x24 ≤ c && c ≤ 0x26) || c == 0x2B || c == 0x2C
def urlencodedSet (c : Nat) : Bool := componentSet c || c == 0x21 || (0x27 ≤ c && c ≤ 0x29) || c == 0x7E

def forbiddenHostCp (c : Nat) : Bool :=
  c == 0x00 || c == 0x09 || c == 0x0A || c == 0x0D || c == 0x20 || c == 0x23 || c == 0x2F || c == 0x3A || c == 0x3C ||
  c == 0x3E || c == 0x3F || c == 0x40 || c == 0x5B || c == 0x5C || c == 0x5D || c == 0x5E || c == 0x7C
def forbiddenDomainCp (c : Nat) : Bool := forbiddenHostCp c || c ≤ 0x1F || c == 0x25 || c == 0x7F

/-! ### percent codec -/

/-- percent-encode a byte: `%` and two upper-case hex digits -/
def percentEncodeByte (x : UInt8) : Str := ['%', bc (hexUpper (x.toNat / 16)), bc (hexUpper (x.toNat % 16))]

/-- UTF-8 percent-encode a code point using a percent-encode set -/
def utf8PercentEncodeCp (set : Nat → Bool) (c : Char) : Str :=
  if !set c.toNat then [c] else (utf8Char c).flatMap percentEncodeByte

/-- UTF-8 percent-encode a string -/
def utf8PercentEncode (set : Nat → Bool) (s : Str) : Str := s.flatMap (utf8PercentEncodeCp set)

/-- percent-decode a byte sequence -/
def percentDecode : Bytes → Bytes
  | [] => []
  | x :: rest@(h1 :: h2 :: rest') =>
    if x == 0x25 && isHexN h1.toNat && isHexN h2.toNat then
      (hexVal h1.toNat * 16 + hexVal h2.toNat).toUInt8 :: percentDecode rest'
    else x :: percentDecode rest
  | x :: rest => x :: percentDecode rest

/-- UTF-8 decode without BOM (lossy: ill-formed input becomes U+FFFD). Go's decoding is used: the two differ only in how
    many U+FFFD an ill-formed sequence produces, and every consumer here rejects any string containing U+FFFD. -/
def utf8DecodeLossy (b : Bytes) : Str := goRunes b

/-! ### IPv4 -/

def splitStr (sep : Char) : Str → List Str
  | [] => [[]]
  | x :: xs =>
    if x == sep then [] :: splitStr sep xs
    else match splitStr sep xs with
      | h :: t => (x :: h) :: t
      | [] => [[x]]

def strVal (radix : Nat) (s : Str) : Nat := s.foldl (fun acc c => acc * radix + hexVal c.toNat) 0

/-- IPv4 number parser: `none` = failure; otherwise the (unbounded) number. The validation-error flag is dropped. -/
def parseIPv4Number (input : Str) : Option Nat :=
  if input.isEmpty then none
  else
    let hex := input.length ≥ 2 && (input.take 2 == ['0', 'x'] || input.take 2 == ['0', 'X'])
    let oct := !hex && input.length ≥ 2 && input.head? == some '0'
    let digits := if hex then input.drop 2 else if oct then input.drop 1 else input
    let radix := if hex then 16 else if oct then 8 else 10
    if digits.isEmpty then some 0
    else if digits.all (fun c => if radix == 16 then isHexN c.toNat else if radix == 8 then isOctN c.toNat else isDigitN c.toNat) then
      some (strVal radix digits)
    else none

/-- ends in a number checker -/
def endsInANumber (input : Str) : Bool :=
  let parts := splitStr '.' input
  let parts := if parts.getLast? == some [] then (if parts.length == 1 then [] else parts.dropLast) else parts
  match parts.getLast? with
  | none => false
  | some last =>
    if !last.isEmpty && last.all (fun c => isDigitN c.toNat) then true
    else (parseIPv4Number last).isSome

/-- IPv4 parser: `none` = failure -/
def parseIPv4 (input : Str) : Option Nat :=
  let parts := splitStr '.' input
  let parts := if parts.getLast? == some [] && parts.length > 1 then parts.dropLast else parts
  if parts.length > 4 then none
  else
    let nums := parts.map parseIPv4Number
    if nums.any (·.isNone) then none
    else
      let nums := nums.map (·.getD 0)
      if nums.dropLast.any (· > 255) then none
      else match nums.getLast? with
        | none => none
        | some last =>
          if last ≥ 256 ^ (5 - nums.length) then none
          else
            let front := nums.dropLast
            some ((List.range front.length).foldl (fun acc i => acc + front[i]! * 256 ^ (3 - i)) last)

def natToStr (n : Nat) : Str := (toDigits 10 n).map fun d => Char.ofNat (0x30 + d)

/-- IPv4 serializer -/
def serializeIPv4 (n : Nat) : Str :=
  natToStr (n / 2 ^ 24 % 256) ++ ['.'] ++ natToStr (n / 2 ^ 16 % 256) ++ ['.'] ++ natToStr (n / 2 ^ 8 % 256) ++ ['.'] ++ natToStr (n % 256)

/-! ### IPv6 -/

/-- the parser state of the IPv6 parser -/
structure P6 where
  address : List Nat := List.replicate 8 0
  pieceIndex : Nat := 0
  compress : Option Nat := none
  pointer : Nat := 0

/-- c: the code point at pointer, `none` = EOF -/
def at6 (input : Str) (p : Nat) : Option Char := input[p]?

def isHexC (c : Option Char) : Bool := match c with | some c => isHexN c.toNat | none => false
def isDigitC (c : Option Char) : Bool := match c with | some c => isDigitN c.toNat | none => false

/-- "while length < 4 and c is an ASCII hex digit": returns (value, length, pointer) -/
def hexRun (input : Str) : Nat → Nat → Nat → Nat → Nat × Nat × Nat
  | 0, v, l, p => (v, l, p)
  | fuel + 1, v, l, p =>
    if l < 4 && isHexC (at6 input p) then
      hexRun input fuel (v * 0x10 + hexVal ((at6 input p).getD '0').toNat) (l + 1) (p + 1)
    else (v, l, p)

/-- "while c is an ASCII digit" of the IPv4-in-IPv6 part: returns `none` on failure, else (ipv4Piece, pointer) -/
def digitRun (input : Str) : Nat → Option Nat → Nat → Option (Option Nat × Nat)
  | 0, piece, p => some (piece, p)
  | fuel + 1, piece, p =>
    if isDigitC (at6 input p) then
      let number := ((at6 input p).getD '0').toNat - 0x30
      match piece with
      | none => digitRun input fuel (some number) (p + 1)
      | some 0 => none
      | some v => if v * 10 + number > 255 then none else digitRun input fuel (some (v * 10 + number)) (p + 1)
    else some (piece, p)

/-- the IPv4-in-IPv6 loop "while c is not EOF": (address, pieceIndex, numbersSeen, pointer) or failure -/
def v4Run (input : Str) : Nat → List Nat → Nat → Nat → Nat → Option (List Nat × Nat × Nat × Nat)
  | 0, a, pi, ns, p => some (a, pi, ns, p)
  | fuel + 1, a, pi, ns, p =>
    if (at6 input p).isNone then some (a, pi, ns, p)
    else
      -- if numbersSeen > 0: c must be '.' and numbersSeen < 4
      let sepFail := ns > 0 && !(at6 input p == some '.' && ns < 4)
      if sepFail then none
      else
        let p1 := if ns > 0 then p + 1 else p
        if !isDigitC (at6 input p1) then none
        else match digitRun input (input.length + 1) none p1 with
          | none => none
          | some (piece, p2) =>
            let a' := a.set pi (a[pi]! * 0x100 + piece.getD 0)
            let ns' := ns + 1
            v4Run input fuel a' (if ns' == 2 || ns' == 4 then pi + 1 else pi) ns' p2

/-- main loop "while c is not EOF" ; `none` = failure; result: state after the loop -/
def loop6 (input : Str) : Nat → P6 → Option P6
  | 0, s => some s
  | fuel + 1, s =>
    match at6 input s.pointer with
    | none => some s
    | some c =>
      if s.pieceIndex == 8 then none
      else if c == ':' then
        if s.compress.isSome then none
        else loop6 input fuel { s with pointer := s.pointer + 1, pieceIndex := s.pieceIndex + 1, compress := some (s.pieceIndex + 1) }
      else
        let h := hexRun input 5 0 0 s.pointer
        let value := h.1
        let length := h.2.1
        let p := h.2.2
        if at6 input p == some '.' then
          if length == 0 then none
          else
            let p := p - length
            if s.pieceIndex > 6 then none
            else match v4Run input (input.length + 1) s.address s.pieceIndex 0 p with
              | none => none
              | some (a, pi, ns, p') => if ns != 4 then none else some { s with address := a, pieceIndex := pi, pointer := p' }
        else if at6 input p == some ':' then
          if (at6 input (p + 1)).isNone then none
          else loop6 input fuel { s with address := s.address.set s.pieceIndex value, pieceIndex := s.pieceIndex + 1, pointer := p + 1 }
        else if (at6 input p).isSome then none
        else loop6 input fuel { s with address := s.address.set s.pieceIndex value, pieceIndex := s.pieceIndex + 1, pointer := p }

/-- "while pieceIndex ≠ 0 and swaps > 0" -/
def swapRun : Nat → List Nat → Nat → Nat → Nat → List Nat
  | 0, a, _, _, _ => a
  | fuel + 1, a, pieceIndex, compress, swaps =>
    if pieceIndex != 0 && swaps > 0 then
      let j := compress + swaps - 1
      swapRun fuel ((a.set pieceIndex a[j]!).set j a[pieceIndex]!) (pieceIndex - 1) compress (swaps - 1)
    else a

/-- IPv6 parser: `none` = failure, otherwise the eight pieces -/
def parseIPv6 (input : Str) : Option (List Nat) :=
  let start : Option P6 :=
    if at6 input 0 == some ':' then
      if at6 input 1 != some ':' then none else some { pointer := 2, pieceIndex := 1, compress := some 1 }
    else some {}
  match start with
  | none => none
  | some s0 =>
    match loop6 input (input.length + 1) s0 with
    | none => none
    | some s =>
      match s.compress with
      | some c => some (swapRun 8 s.address 7 c (s.pieceIndex - c))
      | none => if s.pieceIndex != 8 then none else some s.address

/-- length of the run of zero pieces starting at index `i` -/
def zeroRunLen (a : List Nat) (i : Nat) : Nat := ((a.drop i).takeWhile (· == 0)).length

/-- "the first longest sequence of 2 or more 0 pieces", declaratively: index `i` starts a maximal run (not preceded by
    a zero) of length ≥ 2 that is strictly longer than every run starting before it and at least as long as every
    run after it. -/
def compressIndex (a : List Nat) : Option Nat :=
  (List.range 8).find? fun i =>
    zeroRunLen a i ≥ 2 && (i == 0 || a[i - 1]! != 0) &&
    (List.range 8).all fun j => if j < i then zeroRunLen a j < zeroRunLen a i else zeroRunLen a j ≤ zeroRunLen a i

def hexLowerStr (n : Nat) : Str := (toDigits 16 n).map fun d => bc (hexLower d)

/-- IPv6 serializer -/
def serializeIPv6Aux (a : List Nat) (compress : Option Nat) : Nat → Nat → Bool → Str
  | 0, _, _ => []
  | fuel + 1, i, ignore0 =>
    if i ≥ 8 then []
    else if ignore0 && a[i]! == 0 then serializeIPv6Aux a compress fuel (i + 1) true
    else if compress == some i then
      (if i == 0 then [':', ':'] else [':']) ++ serializeIPv6Aux a compress fuel (i + 1) true
    else
      hexLowerStr a[i]! ++ (if i != 7 then [':'] else []) ++ serializeIPv6Aux a compress fuel (i + 1) false

def serializeIPv6 (a : List Nat) : Str := serializeIPv6Aux a (compressIndex a) 8 0 false

/-! ### host parser -/

/-- opaque-host parser -/
def parseOpaqueHost (input : Str) : Option Str :=
  if input.any (fun c => forbiddenHostCp c.toNat) then none
  else some (utf8PercentEncode c0ControlSet input)

/-- a label-wise view used to decide whether the IDNA mapping "is taken as given" -/
def pureAsciiNoAce (s : Str) : Bool :=
  s.all (fun c => c.toNat < 0x80) && (splitStr '.' (s.map lowerC)).all fun l => l.take 4 != ['x', 'n', '-', '-']

/-- The IDNA oracle on the Spec side: domain to ASCII of a string that is not pure ASCII or has ACE labels.
    `none` = failure. (C01/C09: "the IDNA mapping of a non-ASCII or ACE label is taken as given".) -/
abbrev SIdna := Str → Option Str

/-- domain to ASCII with beStrict = false -/
def domainToASCII (I : SIdna) (domain : Str) : Option Str :=
  if pureAsciiNoAce domain then
    -- UTS #46 maps ASCII letters to lower case and leaves every other ASCII code point alone (UseSTD3ASCIIRules = false)
    (if domain.isEmpty then none else some (domain.map lowerC))
  else match I domain with
    | some r => if r.isEmpty then none else some r
    | none => none

/-- host parser; the host is returned serialized. `none` = failure. -/
def parseHost (I : SIdna) (input : Str) (isOpaque : Bool) : Option Str :=
  if input.head? == some '[' then
    if input.getLast? != some ']' then none
    else match parseIPv6 ((input.drop 1).dropLast) with
      | some a => some (['['] ++ serializeIPv6 a ++ [']'])
      | none => none
  else if isOpaque then parseOpaqueHost input
  else
    let domain := utf8DecodeLossy (percentDecode (utf8 input))
    match domainToASCII I domain with
    | none => none
    | some asciiDomain =>
      if asciiDomain.any (fun c => forbiddenDomainCp c.toNat) then none
      else if endsInANumber asciiDomain then (parseIPv4 asciiDomain).map serializeIPv4
      else some asciiDomain

end WhatwgUrl.Spec
