/- GENERATED from /repo's working tree by `vharness facts` on every run. Do not edit. -/
namespace WhatwgUrl.Generated

def errorSites : List (String × String × Bool × Bool) := [
  ("parser.parseHost", "IPv6Unclosed", true, true),
  ("parser.parseHost", "DomainToASCII", true, true),
  ("parser.parseHost", "DomainToASCII", true, true),
  ("parser.parseHost", "DomainInvalidCodePoint", true, true),
  ("parser.parseIPv4Number", "IPv4EmptyPart", true, true),
  ("parser.parseIPv4", "IPv4EmptyPart", false, true),
  ("parser.parseIPv4", "IPv4TooManyParts", true, true),
  ("parser.parseIPv4", "IPv4NonNumericPart", true, true),
  ("parser.parseIPv4", "IPv4NonDecimalPart", false, true),
  ("parser.parseIPv4", "IPv4OutOfRangePart", false, true),
  ("parser.parseIPv4", "IPv4OutOfRangePart", true, true),
  ("parser.parseIPv4", "IPv4OutOfRangePart", true, true),
  ("parser.parseIPv6", "IPv6InvalidCompression", true, true),
  ("parser.parseIPv6", "IPv6TooManyPieces", true, true),
  ("parser.parseIPv6", "IPv6MultipleCompression", true, true),
  ("parser.parseIPv6", "IPv4InIPv6InvalidCodePoint", true, true),
  ("parser.parseIPv6", "IPv4InIPv6TooManyPieces", true, true),
  ("parser.parseIPv6", "IPv4InIPv6InvalidCodePoint", true, true),
  ("parser.parseIPv6", "IPv4InIPv6InvalidCodePoint", true, true),
  ("parser.parseIPv6", "IPv4InIPv6InvalidCodePoint", true, true),
  ("parser.parseIPv6", "IPv4InIPv6OutOfRangePart", true, true),
  ("parser.parseIPv6", "IPv4InIPv6TooFewParts", true, true),
  ("parser.parseIPv6", "IPv6InvalidCodePoint", true, true),
  ("parser.parseIPv6", "IPv6InvalidCodePoint", true, true),
  ("parser.parseIPv6", "IPv6TooFewPieces", true, true),
  ("parser.parseOpaqueHost", "HostInvalidCodePoint", true, true),
  ("parser.parseOpaqueHost", "InvalidURLUnit", false, true),
  ("parser.parseOpaqueHost", "InvalidURLUnit", false, true),
  ("parser.BasicParser", "InvalidURLUnit", false, true),
  ("parser.BasicParser", "InvalidURLUnit", false, true),
  ("parser.BasicParser", "InvalidURLUnit", true, true),
  ("parser.BasicParser", "SpecialSchemeMissingFollowingSolidus", false, true),
  ("parser.BasicParser", "InvalidURLUnit", true, true),
  ("parser.BasicParser", "MissingSchemeNonRelativeURL", true, true),
  ("parser.BasicParser", "SpecialSchemeMissingFollowingSolidus", false, true),
  ("parser.BasicParser", "InvalidReverseSolidus", false, true),
  ("parser.BasicParser", "InvalidReverseSolidus", false, true),
  ("parser.BasicParser", "SpecialSchemeMissingFollowingSolidus", false, true),
  ("parser.BasicParser", "SpecialSchemeMissingFollowingSolidus", false, true),
  ("parser.BasicParser", "InvalidCredentials", false, true),
  ("parser.BasicParser", "InvalidCredentials", true, true),
  ("parser.BasicParser", "HostMissing", true, true),
  ("parser.BasicParser", "HostMissing", true, true),
  ("parser.BasicParser", "PortOutOfRange", true, true),
  ("parser.BasicParser", "PortMissing", true, true),
  ("parser.BasicParser", "PortInvalid", true, true),
  ("parser.BasicParser", "InvalidReverseSolidus", false, true),
  ("parser.BasicParser", "FileInvalidWindowsDriveLetter", false, true),
  ("parser.BasicParser", "InvalidReverseSolidus", false, true),
  ("parser.BasicParser", "FileInvalidWindowsDriveLetterHost", false, true),
  ("parser.BasicParser", "InvalidReverseSolidus", false, true),
  ("parser.BasicParser", "InvalidReverseSolidus", false, true),
  ("parser.BasicParser", "InvalidURLUnit", false, true),
  ("parser.BasicParser", "InvalidURLUnit", false, true),
  ("parser.BasicParser", "InvalidURLUnit", false, true),
  ("parser.BasicParser", "InvalidURLUnit", false, true),
  ("parser.BasicParser", "InvalidURLUnit", false, true),
  ("parser.BasicParser", "InvalidURLUnit", false, true),
  ("parser.BasicParser", "InvalidURLUnit", false, true),
  ("parser.BasicParser", "InvalidURLUnit", false, true)]

def errorCatalogue : List String := ["DomainToASCII", "DomainToUnicode", "DomainInvalidCodePoint", "HostInvalidCodePoint", "IPv4EmptyPart", "IPv4TooManyParts", "IPv4NonNumericPart", "IPv4NonDecimalPart", "IPv4OutOfRangePart", "IPv6Unclosed", "IPv6InvalidCompression", "IPv6TooManyPieces", "IPv6MultipleCompression", "IPv6InvalidCodePoint", "IPv6TooFewPieces", "IPv4InIPv6TooManyPieces", "IPv4InIPv6InvalidCodePoint", "IPv4InIPv6OutOfRangePart", "IPv4InIPv6TooFewParts", "InvalidURLUnit", "SpecialSchemeMissingFollowingSolidus", "MissingSchemeNonRelativeURL", "InvalidReverseSolidus", "InvalidCredentials", "HostMissing", "PortMissing", "PortOutOfRange", "PortInvalid", "FileInvalidWindowsDriveLetter", "FileInvalidWindowsDriveLetterHost"]

def skeleton : List (List String × List String × List String) := [
  (["StateAuthority"], ["StateHost"], ["rewind"]),
  (["StateFile"], ["StateFileSlash", "StateQuery", "StateFragment", "StatePath", "StatePath"], ["rewindLast", "rewindLast"]),
  (["StateFileHost"], ["StatePath", "StatePathStart", "StatePathStart"], ["rewindLast"]),
  (["StateFileSlash"], ["StateFileHost", "StatePath"], ["rewindLast"]),
  (["StateFragment"], [], []),
  (["StateHost"], ["FALLTHROUGH:StateHostname"], []),
  (["StateHostname"], ["StateFileHost", "StatePort", "StatePathStart"], ["rewindLast", "rewindLast"]),
  (["StateNoScheme"], ["StateFragment", "StateRelative", "StateFile"], ["rewindLast", "rewindLast"]),
  (["StateOpaquePath"], ["StateQuery", "StateFragment"], []),
  (["StatePath"], ["StateQuery", "StateFragment"], []),
  (["StatePathOrAuthority"], ["StateAuthority", "StatePath"], ["rewindLast"]),
  (["StatePathStart"], ["StatePath", "StateQuery", "StateFragment", "StatePath"], ["rewindLast", "rewindLast"]),
  (["StatePort"], ["StatePathStart"], ["rewindLast"]),
  (["StateQuery"], ["StateFragment"], []),
  (["StateRelative"], ["StateRelativeSlash", "StateRelativeSlash", "StateQuery", "StateFragment", "StatePath"], ["rewindLast"]),
  (["StateRelativeSlash"], ["StateSpecialAuthorityIgnoreSlashes", "StateAuthority", "StatePath"], ["rewindLast"]),
  (["StateScheme"], ["StateFile", "StateSpecialRelativeOrAuthority", "StateSpecialAuthoritySlashes", "StatePathOrAuthority", "StateOpaquePath", "StateNoScheme"], ["nextCodePoint", "reset"]),
  (["StateSchemeStart"], ["StateScheme", "StateNoScheme"], ["rewindLast"]),
  (["StateSpecialAuthorityIgnoreSlashes"], ["StateAuthority"], ["rewindLast"]),
  (["StateSpecialAuthoritySlashes"], ["StateSpecialAuthorityIgnoreSlashes", "StateSpecialAuthorityIgnoreSlashes"], ["nextCodePoint", "rewindLast"]),
  (["StateSpecialRelativeOrAuthority"], ["StateSpecialAuthorityIgnoreSlashes", "StateRelative"], ["nextCodePoint", "rewindLast"])]

def baseCopies : List (String × List String) := [
  ("StateFile", ["url.host = base.host", "url.path = base.path", "url.query = base.query"]),
  ("StateFileSlash", ["url.host = base.host"]),
  ("StateNoScheme", ["url.path = base.path", "url.query = base.query", "url.scheme = base.scheme"]),
  ("StateRelative", ["url.decodedPort = base.decodedPort", "url.host = base.host", "url.password = base.password", "url.path = base.path", "url.port = base.port", "url.query = base.query", "url.scheme = base.scheme", "url.username = base.username"]),
  ("StateRelativeSlash", ["url.decodedPort = base.decodedPort", "url.host = base.host", "url.password = base.password", "url.port = base.port", "url.username = base.username"])]

def parserOptionWrites : List (String × List String) := [
  ("WithReportValidationErrors", ["reportValidationErrors"]),
  ("WithFailOnValidationError", ["failOnValidationError"]),
  ("WithLaxHostParsing", ["laxHostParsing"]),
  ("WithCollapseConsecutiveSlashes", ["collapseConsecutiveSlashes"]),
  ("WithAcceptInvalidCodepoints", ["acceptInvalidCodepoints"]),
  ("WithPreParseHostFunc", ["preParseHostFunc"]),
  ("WithPostParseHostFunc", ["postParseHostFunc"]),
  ("WithPercentEncodeSinglePercentSign", ["percentEncodeSinglePercentSign"]),
  ("WithAllowSettingPathForNonBaseUrl", ["allowSettingPathForNonBaseUrl"]),
  ("WithSkipWindowsDriveLetterNormalization", ["skipWindowsDriveLetterNormalization"]),
  ("WithSpecialSchemes", ["specialSchemes"]),
  ("WithEncodingOverride", ["encodingOverride"]),
  ("WithPathPercentEncodeSet", ["pathPercentEncodeSet"]),
  ("WithQueryPercentEncodeSet", ["queryPercentEncodeSet"]),
  ("WithSpecialQueryPercentEncodeSet", ["specialQueryPercentEncodeSet"]),
  ("WithFragmentPathPercentEncodeSet", ["fragmentPercentEncodeSet"]),
  ("WithSpecialFragmentPathPercentEncodeSet", ["specialFragmentPercentEncodeSet"]),
  ("WithSkipTrailingSlashNormalization", ["skipTrailingSlashNormalization"]),
  ("WithSkipEqualsForEmptySearchParamsValue", ["skipEqualsForEmptySearchParamsValue"])]

def canonOptionWrites : List (String × List String) := [
  ("WithRemoveUserInfo", ["removeUserInfo"]),
  ("WithRemovePort", ["removePort"]),
  ("WithRemoveFragment", ["removeFragment"]),
  ("WithRepeatedPercentDecoding", ["repeatedPercentDecoding"]),
  ("WithDefaultScheme", ["defaultScheme"]),
  ("WithSortQuery", ["sortQuery"])]

def parserOptionEffects : List (String × List String) := [
  ("WithReportValidationErrors", ["ReportValidationErrors"]),
  ("WithFailOnValidationError", ["FailOnValidationError"]),
  ("WithLaxHostParsing", ["LaxHostParsing"]),
  ("WithCollapseConsecutiveSlashes", ["CollapseConsecutiveSlashes"]),
  ("WithAcceptInvalidCodepoints", ["AcceptInvalidCodepoints"]),
  ("WithPreParseHostFunc", ["PreParseHostFunc"]),
  ("WithPostParseHostFunc", ["PostParseHostFunc"]),
  ("WithPercentEncodeSinglePercentSign", ["PercentEncodeSinglePercentSign"]),
  ("WithAllowSettingPathForNonBaseUrl", ["AllowSettingPathForNonBaseUrl"]),
  ("WithSkipWindowsDriveLetterNormalization", ["SkipWindowsDriveLetterNormalization"]),
  ("WithSpecialSchemes", ["SpecialSchemes"]),
  ("WithSkipTrailingSlashNormalization", ["SkipTrailingSlashNormalization"]),
  ("WithEncodingOverride", ["EncodingOverride"]),
  ("WithPathPercentEncodeSet", ["PathPercentEncodeSet"]),
  ("WithQueryPercentEncodeSet", ["QueryPercentEncodeSet"]),
  ("WithSpecialQueryPercentEncodeSet", ["SpecialQueryPercentEncodeSet"]),
  ("WithFragmentPathPercentEncodeSet", ["FragmentPercentEncodeSet"]),
  ("WithSpecialFragmentPathPercentEncodeSet", ["SpecialFragmentPercentEncodeSet"]),
  ("WithSkipEqualsForEmptySearchParamsValue", ["SkipEqualsForEmptySearchParamsValue"])]

def canonOptionEffects : List (String × List String) := [
  ("WithRemoveUserInfo", ["RemoveUserInfo"]),
  ("WithRemovePort", ["RemovePort"]),
  ("WithRemoveFragment", ["RemoveFragment"]),
  ("WithRepeatedPercentDecoding", ["RepeatedPercentDecoding"]),
  ("WithDefaultScheme", ["DefaultScheme"]),
  ("WithSortQuery(SortKeys)", ["SortQuery"]),
  ("WithSortQuery(SortParameter)", ["SortQuery"])]

def profileOptions : List (String × List String) := [
  ("WhatWg", []),
  ("WhatWgSortQuery", ["WithSortQuery(SortKeys)"]),
  ("GoogleSafeBrowsing", ["WithLaxHostParsing", "WithQueryPercentEncodeSet(LaxQueryPercentEncodeSet)", "WithCollapseConsecutiveSlashes", "WithAcceptInvalidCodepoints", "WithPercentEncodeSinglePercentSign", "WithPreParseHostFunc(…)", "WithSkipEqualsForEmptySearchParamsValue", "WithRemovePort", "WithRemoveFragment", "WithRepeatedPercentDecoding", "WithDefaultScheme(http)"]),
  ("Semantic", ["WithLaxHostParsing", "WithPathPercentEncodeSet(LaxPathPercentEncodeSet)", "WithQueryPercentEncodeSet(LaxQueryPercentEncodeSet)", "WithCollapseConsecutiveSlashes", "WithAcceptInvalidCodepoints", "WithPercentEncodeSinglePercentSign", "WithAllowSettingPathForNonBaseUrl", "WithEncodingOverride(charmap.ISO8859_1)", "WithPreParseHostFunc(…)", "WithSpecialSchemes(…)", "WithRemoveUserInfo", "WithDefaultScheme(http)", "WithSortQuery(SortKeys)", "WithRepeatedPercentDecoding", "WithRemoveFragment"])]

def globalWritesUrl : List (String × String × String) := []

def globalWritesCanon : List (String × String × String) := []

def fieldWritesUrl : List (String × String) := [
  ("parser.handleError", "u.validationErrors"),
  ("parser.handleErrorWithDescription", "u.validationErrors"),
  ("parser.handleWrappedError", "u.validationErrors"),
  ("inputString.nextCodePoint", "i.pointer"),
  ("inputString.nextCodePoint", "i.eof"),
  ("inputString.currentByteOffset", "i.offsets"),
  ("inputString.getCurrentAsByte", "i.eof"),
  ("inputString.rewindLast", "i.eof"),
  ("inputString.rewindLast", "i.pointer"),
  ("inputString.reset", "i.pointer"),
  ("inputString.reset", "i.eof"),
  ("inputString.rewind", "i.pointer"),
  ("inputString.rewind", "i.eof"),
  ("parser.BasicParser", "url.inputUrl"),
  ("parser.BasicParser", "url.parser"),
  ("parser.BasicParser", "url.scheme"),
  ("parser.BasicParser", "url.path"),
  ("parser.BasicParser", "url.query"),
  ("parser.BasicParser", "url.fragment"),
  ("parser.BasicParser", "url.username"),
  ("parser.BasicParser", "url.password"),
  ("parser.BasicParser", "url.host"),
  ("parser.BasicParser", "url.port"),
  ("parser.BasicParser", "url.decodedPort"),
  ("parser.BasicParser", "url.path.p[]"),
  ("parser.BasicParser", "*url.query"),
  ("Url.cleanDefaultPort", "u.port"),
  ("Url.cleanDefaultPort", "u.decodedPort"),
  ("path.setOpaque", "p.p"),
  ("path.setOpaque", "p.opaque"),
  ("path.addSegment", "p.p"),
  ("path.addSegment", "p.opaque"),
  ("path.init", "p.p"),
  ("path.init", "p.opaque"),
  ("path.shortenPath", "p.p"),
  ("path.stripTrailingSpacesIfOpaque", "p.p[]"),
  ("SearchParams.init", "s.params"),
  ("SearchParams.update", "s.url.query"),
  ("SearchParams.Append", "s.params"),
  ("SearchParams.Delete", "s.params"),
  ("SearchParams.Set", "s.params[]"),
  ("SearchParams.Set", "s.params"),
  ("Url.SetUsername", "u.username"),
  ("Url.SetPassword", "u.password"),
  ("Url.SetPort", "u.port"),
  ("Url.SetPort", "u.decodedPort"),
  ("Url.SetSearch", "u.query"),
  ("Url.SetSearch", "u.searchParams.params"),
  ("Url.SetSearchParams", "u.searchParams"),
  ("Url.SetHash", "u.fragment"),
  ("Url.newUrlSearchParams", "u.searchParams")]

def fieldWritesCanon : List (String × String) := []

def baseUrlUses : List String := ["baseUrl != nil", "baseUrl.Clone()"]

def spMethods : List (String × Bool × Bool) := [
  ("Append", true, true),
  ("Delete", true, true),
  ("Get", false, false),
  ("GetAll", false, false),
  ("Has", false, false),
  ("Set", true, true),
  ("Sort", true, true),
  ("SortAbsolute", true, true),
  ("Iterate", true, true),
  ("String", false, false),
  ("QueryEscape", false, false),
  ("Clone", false, false)]

def callees : List (String × List String) := [
  ("parser.Parse", ["p.BasicParser"]),
  ("parser.ParseRef", ["p.Parse", "p.BasicParser"]),
  ("Url.Parse", ["u.parser.BasicParser"]),
  ("Parse", ["defaultParser.Parse"]),
  ("ParseRef", ["defaultParser.ParseRef"]),
  ("path.clone", ["make", "len", "copy"]),
  ("SearchParams.Sort", ["sort.SliceStable", "s.update"]),
  ("SearchParams.SortAbsolute", ["sort.SliceStable", "s.update"]),
  ("SearchParams.Clone", ["make", "len"]),
  ("Url.SetSearch", ["u.path.stripTrailingSpacesIfOpaque", "strings.TrimPrefix", "new", "u.parser.BasicParser", "u.newUrlSearchParams", "u.searchParams.init"]),
  ("Url.SearchParams", ["u.newUrlSearchParams"]),
  ("Url.newUrlSearchParams", ["usp.init"]),
  ("Url.Clone", ["cloneStringPointer", "u.path.clone", "u.searchParams.Clone"])]

def exoticFeatures : List String := []

def modrefUrl : List (String × Bool × List String × List String × List String × List (String × String)) := [
  ("NewPercentEncodeSet", true, [], [], [], []),
  ("PercentEncodeSet.Set", true, [], [], [], [("bitset.BitSet.Clone", "recv")]),
  ("PercentEncodeSet.Clear", true, [], [], [], [("bitset.BitSet.Clone", "recv")]),
  ("PercentEncodeSet.RuneShouldBeEncoded", true, [], [], [], [("bitset.BitSet.Test", "recv")]),
  ("PercentEncodeSet.ByteShouldBeEncoded", true, [], [], [], [("bitset.BitSet.Test", "recv")]),
  ("PercentEncodeSet.RuneNotInSet", true, [], [], [], [("bitset.BitSet.Test", "recv")]),
  ("isURLCodePoint", false, [], [], [], [("bitset.BitSet.Test", "global")]),
  ("init", false, [], [], [], [("bitset.BitSet.InPlaceUnion", "global"), ("bitset.BitSet.Set", "global")]),
  ("parser.handleError", false, ["param0"], ["fresh"], [], []),
  ("parser.handleErrorWithDescription", false, ["param0"], ["fresh"], [], []),
  ("parser.handleWrappedError", false, ["param0"], ["fresh"], [], []),
  ("parser.parseHost", false, ["param0"], ["fresh"], [], [("bitset.BitSet.Clone", "global"), ("bitset.BitSet.Test", "global"), ("charmap.Charmap.DecodeByte", "recv"), ("charmap.Charmap.EncodeRune", "param1"), ("charmap.Charmap.EncodeRune", "recv"), ("charmap.Charmap.String", "recv"), ("idna.Profile.ToASCII", "global")]),
  ("parser.endsInANumber", false, ["param0"], [], [], [("bitset.BitSet.Test", "global")]),
  ("parser.parseIPv4Number", false, ["param0"], ["fresh", "global"], [], [("bitset.BitSet.Test", "global")]),
  ("isRadixDigit", false, [], [], [], [("bitset.BitSet.Test", "global")]),
  ("parser.parseIPv4", false, ["param0"], ["fresh"], [], [("bitset.BitSet.Test", "global")]),
  ("parser.parseIPv6", false, ["param0", "param1"], ["fresh"], [], [("bitset.BitSet.Test", "global")]),
  ("parser.parseOpaqueHost", false, ["param0"], ["fresh"], [], [("bitset.BitSet.Test", "global"), ("charmap.Charmap.EncodeRune", "recv")]),
  ("IPv6Addr.String", true, [], [], [], []),
  ("IPv4Addr.String", true, [], [], [], []),
  ("parser.ToASCII", true, [], ["fresh"], [], [("charmap.Charmap.EncodeRune", "recv"), ("charmap.Charmap.String", "recv"), ("idna.Profile.ToASCII", "global")]),
  ("containsOnlyASCIIOrMiscAndNoPunycode", false, [], [], [], []),
  ("parser.stringToUnicode", false, [], ["fresh"], [], [("charmap.Charmap.EncodeRune", "recv"), ("charmap.Charmap.String", "recv")]),
  ("percentEncodeString", false, [], [], [], [("bitset.BitSet.Test", "param1")]),
  ("percentEncodeByte", false, [], [], [], [("bitset.BitSet.Test", "param1")]),
  ("newInputString", false, [], ["fresh"], [], []),
  ("inputString.nextCodePoint", false, ["recv"], [], [], []),
  ("inputString.currentIsInvalid", false, ["recv"], [], [], []),
  ("inputString.currentByteOffset", false, ["recv"], [], [], []),
  ("inputString.getCurrentAsByte", false, ["recv"], [], [], []),
  ("inputString.rewindLast", false, ["recv"], [], [], []),
  ("inputString.reset", false, ["recv"], [], [], []),
  ("inputString.rewind", false, ["recv"], [], [], []),
  ("inputString.remainingFromPointer", false, [], [], [], []),
  ("inputString.remainingStartsWith", false, [], [], [], []),
  ("inputString.remainingIsInvalidPercentEncoded", false, [], [], [], [("bitset.BitSet.Test", "global")]),
  ("remainingIsInvalidPercentEncoded", false, [], [], [], [("bitset.BitSet.Test", "global")]),
  ("inputString.String", false, [], [], [], []),
  ("NewParser", true, [], [], [], []),
  ("parser.Parse", true, [], ["fresh"], [], [("bitset.BitSet.Clone", "global"), ("bitset.BitSet.Clone", "recv"), ("bitset.BitSet.Test", "global"), ("bitset.BitSet.Test", "recv"), ("charmap.Charmap.DecodeByte", "recv"), ("charmap.Charmap.EncodeRune", "recv"), ("charmap.Charmap.String", "recv"), ("idna.Profile.ToASCII", "global")]),
  ("parser.ParseRef", true, [], ["fresh"], [], [("bitset.BitSet.Clone", "global"), ("bitset.BitSet.Clone", "recv"), ("bitset.BitSet.Test", "global"), ("bitset.BitSet.Test", "recv"), ("charmap.Charmap.DecodeByte", "recv"), ("charmap.Charmap.EncodeRune", "recv"), ("charmap.Charmap.String", "recv"), ("idna.Profile.ToASCII", "global")]),
  ("Url.Parse", true, [], ["fresh"], [], [("bitset.BitSet.Clone", "global"), ("bitset.BitSet.Clone", "recv"), ("bitset.BitSet.Test", "global"), ("bitset.BitSet.Test", "recv"), ("charmap.Charmap.DecodeByte", "recv"), ("charmap.Charmap.EncodeRune", "recv"), ("charmap.Charmap.String", "recv"), ("idna.Profile.ToASCII", "global")]),
  ("Parse", true, [], ["fresh"], [], [("bitset.BitSet.Clone", "global"), ("bitset.BitSet.Test", "global"), ("charmap.Charmap.DecodeByte", "global"), ("charmap.Charmap.EncodeRune", "global"), ("charmap.Charmap.String", "global"), ("idna.Profile.ToASCII", "global")]),
  ("ParseRef", true, [], ["fresh"], [], [("bitset.BitSet.Clone", "global"), ("bitset.BitSet.Test", "global"), ("charmap.Charmap.DecodeByte", "global"), ("charmap.Charmap.EncodeRune", "global"), ("charmap.Charmap.String", "global"), ("idna.Profile.ToASCII", "global")]),
  ("parser.BasicParser", true, ["param2"], ["fresh", "param2"], [], [("bitset.BitSet.Clone", "global"), ("bitset.BitSet.Clone", "recv"), ("bitset.BitSet.Test", "global"), ("bitset.BitSet.Test", "recv"), ("charmap.Charmap.DecodeByte", "recv"), ("charmap.Charmap.EncodeRune", "recv"), ("charmap.Charmap.String", "recv"), ("idna.Profile.ToASCII", "global")]),
  ("parser.percentEncodeInvalidRune", false, [], [], [], [("bitset.BitSet.Clone", "param1"), ("bitset.BitSet.Test", "param1"), ("charmap.Charmap.EncodeRune", "recv")]),
  ("parser.percentEncodeRune", false, [], [], [], [("bitset.BitSet.Test", "param1"), ("charmap.Charmap.EncodeRune", "recv")]),
  ("parser.PercentEncodeString", true, [], [], [], [("bitset.BitSet.Clone", "param1"), ("bitset.BitSet.Test", "global"), ("bitset.BitSet.Test", "param1"), ("charmap.Charmap.EncodeRune", "recv")]),
  ("parser.DecodePercentEncoded", true, [], [], [], [("bitset.BitSet.Test", "global"), ("charmap.Charmap.DecodeByte", "recv")]),
  ("parser.NewUrl", true, [], ["fresh"], [], []),
  ("isSingleDotPathSegment", false, [], [], [], []),
  ("isDoubleDotPathSegment", false, [], [], [], []),
  ("startsWithAWindowsDriveLetter", false, [], [], [], [("bitset.BitSet.Test", "global")]),
  ("isWindowsDriveLetter", false, [], [], [], [("bitset.BitSet.Test", "global")]),
  ("isNormalizedWindowsDriveLetter", false, [], [], [], [("bitset.BitSet.Test", "global")]),
  ("trimPrefix", false, [], [], [], [("bitset.BitSet.Test", "param1")]),
  ("trimPostfix", false, [], [], [], [("bitset.BitSet.Test", "param1")]),
  ("trim", false, [], [], [], [("bitset.BitSet.Test", "param1")]),
  ("remove", false, [], [], [], [("bitset.BitSet.Test", "param1")]),
  ("containsOnly", false, [], [], [], [("bitset.BitSet.Test", "param1")]),
  ("Url.IsSpecialScheme", true, [], [], [], []),
  ("Url.isSpecialScheme", false, [], [], [], []),
  ("Url.getSpecialScheme", false, [], [], [], []),
  ("Url.isSpecialSchemeAndBackslash", false, [], [], [], []),
  ("Url.cleanDefaultPort", false, ["recv"], [], [], []),
  ("Url.getDefaultPort", false, [], [], [], []),
  ("EmptyParserOption.apply", false, [], [], [], []),
  ("funcParserOption.apply", false, [], [], [], []),
  ("newFuncParserOption", false, [], ["fresh", "fresh.f>param0"], [], []),
  ("defaultParserOptions", false, [], [], [], []),
  ("WithReportValidationErrors", true, [], ["fresh"], [], []),
  ("WithFailOnValidationError", true, [], ["fresh"], [], []),
  ("WithLaxHostParsing", true, [], ["fresh"], [], []),
  ("WithCollapseConsecutiveSlashes", true, [], ["fresh"], [], []),
  ("WithAcceptInvalidCodepoints", true, [], ["fresh"], [], []),
  ("WithPreParseHostFunc", true, [], ["fresh"], [], []),
  ("WithPostParseHostFunc", true, [], ["fresh"], [], []),
  ("WithPercentEncodeSinglePercentSign", true, [], ["fresh"], [], []),
  ("WithAllowSettingPathForNonBaseUrl", true, [], ["fresh"], [], []),
  ("WithSkipWindowsDriveLetterNormalization", true, [], ["fresh"], [], []),
  ("WithSpecialSchemes", true, [], ["fresh"], [], []),
  ("WithEncodingOverride", true, [], ["fresh"], [], []),
  ("WithPathPercentEncodeSet", true, [], ["fresh"], [], []),
  ("WithQueryPercentEncodeSet", true, [], ["fresh"], [], []),
  ("WithSpecialQueryPercentEncodeSet", true, [], ["fresh"], [], []),
  ("WithFragmentPathPercentEncodeSet", true, [], ["fresh"], [], []),
  ("WithSpecialFragmentPathPercentEncodeSet", true, [], ["fresh"], [], []),
  ("WithSkipTrailingSlashNormalization", true, [], ["fresh"], [], []),
  ("WithSkipEqualsForEmptySearchParamsValue", true, [], ["fresh"], [], []),
  ("path.isOpaque", false, [], [], [], []),
  ("path.isEmpty", false, [], [], [], []),
  ("path.setOpaque", false, ["recv"], [], [], []),
  ("path.addSegment", false, ["recv"], [], [], []),
  ("path.init", false, ["recv"], [], [], []),
  ("path.shortenPath", false, ["recv"], [], [], [("bitset.BitSet.Test", "global")]),
  ("path.stripTrailingSpacesIfOpaque", false, ["recv"], [], [], []),
  ("path.clone", false, [], ["fresh"], [], []),
  ("path.String", false, [], [], [], []),
  ("SearchParams.init", false, ["recv"], [], [], [("bitset.BitSet.Test", "global"), ("charmap.Charmap.DecodeByte", "recv")]),
  ("SearchParams.update", false, ["recv"], [], [], [("bitset.BitSet.Test", "recv"), ("charmap.Charmap.EncodeRune", "recv")]),
  ("SearchParams.Append", true, ["recv"], [], [], [("bitset.BitSet.Test", "recv"), ("charmap.Charmap.EncodeRune", "recv")]),
  ("SearchParams.Delete", true, ["recv"], [], [], [("bitset.BitSet.Test", "recv"), ("charmap.Charmap.EncodeRune", "recv")]),
  ("SearchParams.Get", true, [], [], [], []),
  ("SearchParams.GetAll", true, [], ["fresh"], [], []),
  ("SearchParams.Has", true, [], [], [], []),
  ("SearchParams.Set", true, ["recv"], [], [], [("bitset.BitSet.Test", "recv"), ("charmap.Charmap.EncodeRune", "recv")]),
  ("SearchParams.Sort", true, ["recv"], [], [], [("bitset.BitSet.Test", "recv"), ("charmap.Charmap.EncodeRune", "recv")]),
  ("SearchParams.SortAbsolute", true, ["recv"], [], [], [("bitset.BitSet.Test", "recv"), ("charmap.Charmap.EncodeRune", "recv")]),
  ("SearchParams.Iterate", true, ["recv"], [], [], [("bitset.BitSet.Test", "recv"), ("charmap.Charmap.EncodeRune", "recv")]),
  ("SearchParams.String", true, [], [], [], [("bitset.BitSet.Test", "recv"), ("charmap.Charmap.EncodeRune", "recv")]),
  ("SearchParams.QueryEscape", true, [], [], [], [("bitset.BitSet.Test", "recv"), ("charmap.Charmap.EncodeRune", "recv"), ("strings.Builder.WriteRune", "param1"), ("strings.Builder.WriteString", "param1")]),
  ("SearchParams.Clone", true, [], ["fresh", "fresh.url>recv"], [], []),
  ("Url.Href", true, [], [], [], []),
  ("Url.Protocol", true, [], [], [], []),
  ("Url.SetProtocol", true, ["recv"], [], [], [("bitset.BitSet.Clone", "global"), ("bitset.BitSet.Clone", "recv"), ("bitset.BitSet.Test", "global"), ("bitset.BitSet.Test", "recv"), ("charmap.Charmap.DecodeByte", "recv"), ("charmap.Charmap.EncodeRune", "recv"), ("charmap.Charmap.String", "recv"), ("idna.Profile.ToASCII", "global")]),
  ("Url.Scheme", true, [], [], [], []),
  ("Url.Username", true, [], [], [], []),
  ("Url.SetUsername", true, ["recv"], [], [], [("bitset.BitSet.Clone", "global"), ("bitset.BitSet.Test", "global"), ("charmap.Charmap.EncodeRune", "recv")]),
  ("Url.Password", true, [], [], [], []),
  ("Url.SetPassword", true, ["recv"], [], [], [("bitset.BitSet.Clone", "global"), ("bitset.BitSet.Test", "global"), ("charmap.Charmap.EncodeRune", "recv")]),
  ("Url.Host", true, [], [], [], []),
  ("Url.SetHost", true, ["recv"], [], [], [("bitset.BitSet.Clone", "global"), ("bitset.BitSet.Clone", "recv"), ("bitset.BitSet.Test", "global"), ("bitset.BitSet.Test", "recv"), ("charmap.Charmap.DecodeByte", "recv"), ("charmap.Charmap.EncodeRune", "recv"), ("charmap.Charmap.String", "recv"), ("idna.Profile.ToASCII", "global")]),
  ("Url.Hostname", true, [], [], [], []),
  ("Url.SetHostname", true, ["recv"], [], [], [("bitset.BitSet.Clone", "global"), ("bitset.BitSet.Clone", "recv"), ("bitset.BitSet.Test", "global"), ("bitset.BitSet.Test", "recv"), ("charmap.Charmap.DecodeByte", "recv"), ("charmap.Charmap.EncodeRune", "recv"), ("charmap.Charmap.String", "recv"), ("idna.Profile.ToASCII", "global")]),
  ("Url.Port", true, [], [], [], []),
  ("Url.SetPort", true, ["recv"], [], [], [("bitset.BitSet.Clone", "global"), ("bitset.BitSet.Clone", "recv"), ("bitset.BitSet.Test", "global"), ("bitset.BitSet.Test", "recv"), ("charmap.Charmap.DecodeByte", "recv"), ("charmap.Charmap.EncodeRune", "recv"), ("charmap.Charmap.String", "recv"), ("idna.Profile.ToASCII", "global")]),
  ("Url.DecodedPort", true, [], [], [], []),
  ("Url.Pathname", true, [], [], [], []),
  ("Url.SetPathname", true, ["recv"], [], [], [("bitset.BitSet.Clone", "global"), ("bitset.BitSet.Clone", "recv"), ("bitset.BitSet.Test", "global"), ("bitset.BitSet.Test", "recv"), ("charmap.Charmap.DecodeByte", "recv"), ("charmap.Charmap.EncodeRune", "recv"), ("charmap.Charmap.String", "recv"), ("idna.Profile.ToASCII", "global")]),
  ("Url.OpaquePath", true, [], [], [], []),
  ("Url.Search", true, [], [], [], []),
  ("Url.SetSearch", true, ["recv"], [], [], [("bitset.BitSet.Clone", "global"), ("bitset.BitSet.Clone", "recv"), ("bitset.BitSet.Test", "global"), ("bitset.BitSet.Test", "recv"), ("charmap.Charmap.DecodeByte", "recv"), ("charmap.Charmap.EncodeRune", "recv"), ("charmap.Charmap.String", "recv"), ("idna.Profile.ToASCII", "global")]),
  ("Url.SearchParams", true, ["recv"], ["recv"], [], [("bitset.BitSet.Test", "global")]),
  ("Url.SetSearchParams", true, ["recv"], [], ["recv<-param0"], [("bitset.BitSet.Test", "recv"), ("charmap.Charmap.EncodeRune", "recv")]),
  ("Url.Query", true, [], [], [], []),
  ("Url.Hash", true, [], [], [], []),
  ("Url.SetHash", true, ["recv"], [], [], [("bitset.BitSet.Clone", "global"), ("bitset.BitSet.Clone", "recv"), ("bitset.BitSet.Test", "global"), ("bitset.BitSet.Test", "recv"), ("charmap.Charmap.DecodeByte", "recv"), ("charmap.Charmap.EncodeRune", "recv"), ("charmap.Charmap.String", "recv"), ("idna.Profile.ToASCII", "global")]),
  ("Url.Fragment", true, [], [], [], []),
  ("Url.String", true, [], [], [], []),
  ("Url.ValidationErrors", true, [], ["recv"], [], []),
  ("Url.newUrlSearchParams", false, ["recv"], [], [], [("bitset.BitSet.Test", "global")]),
  ("Url.IsIPv4", true, [], [], [], []),
  ("Url.IsIPv6", true, [], [], [], []),
  ("Url.Clone", true, [], ["fresh", "fresh.searchParams>recv"], [], []),
  ("cloneStringPointer", false, [], ["fresh"], [], [])]

def modrefCanon : List (String × Bool × List String × List String × List String × List (String × String)) := [
  ("New", true, [], [], [], []),
  ("profile.Parse", true, [], ["fresh"], [], [("bitset.BitSet.Clone", "global"), ("bitset.BitSet.Clone", "recv"), ("bitset.BitSet.Test", "global"), ("bitset.BitSet.Test", "recv"), ("charmap.Charmap.DecodeByte", "recv"), ("charmap.Charmap.EncodeRune", "recv"), ("charmap.Charmap.String", "recv"), ("idna.Profile.ToASCII", "global")]),
  ("profile.ParseRef", true, [], ["fresh"], [], [("bitset.BitSet.Clone", "global"), ("bitset.BitSet.Clone", "recv"), ("bitset.BitSet.Test", "global"), ("bitset.BitSet.Test", "recv"), ("charmap.Charmap.DecodeByte", "recv"), ("charmap.Charmap.EncodeRune", "recv"), ("charmap.Charmap.String", "recv"), ("idna.Profile.ToASCII", "global")]),
  ("profile.Canonicalize", true, ["param0"], ["param0"], [], [("bitset.BitSet.Clone", "global"), ("bitset.BitSet.Clone", "param0"), ("bitset.BitSet.Test", "global"), ("bitset.BitSet.Test", "param0"), ("charmap.Charmap.DecodeByte", "param0"), ("charmap.Charmap.EncodeRune", "param0"), ("charmap.Charmap.String", "param0"), ("idna.Profile.ToASCII", "global")]),
  ("decodeEncode", false, [], [], [], [("bitset.BitSet.Clone", "param1"), ("bitset.BitSet.Test", "global")]),
  ("repeatedDecode", false, [], [], [], [("bitset.BitSet.Test", "global")]),
  ("percentEncode", false, [], [], [], [("bitset.BitSet.Clone", "param1")]),
  ("percentEncodeByte", false, [], [], [], [("bitset.BitSet.Test", "param1")]),
  ("decodePercentEncoded", false, [], [], [], [("bitset.BitSet.Test", "global")]),
  ("unhex", false, [], [], [], []),
  ("funcCanonParserOption.applyProfile", false, [], [], [], []),
  ("WithRemoveUserInfo", true, [], ["fresh"], [], []),
  ("WithRemovePort", true, [], ["fresh"], [], []),
  ("WithRemoveFragment", true, [], ["fresh"], [], []),
  ("WithRepeatedPercentDecoding", true, [], ["fresh"], [], []),
  ("WithDefaultScheme", true, [], ["fresh"], [], []),
  ("WithSortQuery", true, [], ["fresh"], [], [])]

def costSitesUrl : List (String × String) := [
  ("IPv6Addr.String", "string += output"),
  ("SearchParams.init", "call strings.ReplaceAll"),
  ("SearchParams.init", "call strings.SplitN"),
  ("SearchParams.init", "copying conversion []byte(s)"),
  ("parser.BasicParser", "call newInputString"),
  ("parser.BasicParser", "call strings.Split"),
  ("parser.BasicParser", "call strings.ToLower"),
  ("parser.BasicParser", "copying conversion []byte(s)"),
  ("parser.BasicParser", "copying conversion []rune(buffer.String())"),
  ("parser.BasicParser", "copying conversion []rune(s)"),
  ("parser.BasicParser", "copying conversion string(bb)"),
  ("parser.BasicParser", "copying conversion string(i.runes)"),
  ("parser.BasicParser", "copying conversion string(runes)"),
  ("parser.DecodePercentEncoded", "copying conversion string(bytes)"),
  ("parser.parseHost", "copying conversion []rune(s)"),
  ("parser.parseOpaqueHost", "copying conversion []rune(input)"),
  ("parser.parseOpaqueHost", "copying conversion string(runes)")]

def costSitesCanon : List (String × String) := [
  ("repeatedDecode", "copying conversion []byte(s)")]

def set_c0 : List (Nat × Nat) := [(0x0, 0x1f), (0x7f, 0x10ffff)]

def set_c0sp : List (Nat × Nat) := [(0x0, 0x20), (0x7f, 0x10ffff)]

def set_fragment : List (Nat × Nat) := [(0x0, 0x20), (0x22, 0x22), (0x3c, 0x3c), (0x3e, 0x3e), (0x60, 0x60), (0x7f, 0x10ffff)]

def set_query : List (Nat × Nat) := [(0x0, 0x20), (0x22, 0x23), (0x3c, 0x3c), (0x3e, 0x3e), (0x7f, 0x10ffff)]

def set_specialQuery : List (Nat × Nat) := [(0x0, 0x20), (0x22, 0x23), (0x27, 0x27), (0x3c, 0x3c), (0x3e, 0x3e), (0x7f, 0x10ffff)]

def set_path : List (Nat × Nat) := [(0x0, 0x20), (0x22, 0x23), (0x3c, 0x3c), (0x3e, 0x3f), (0x60, 0x60), (0x7b, 0x7b), (0x7d, 0x7d), (0x7f, 0x10ffff)]

def set_userinfo : List (Nat × Nat) := [(0x0, 0x20), (0x22, 0x23), (0x2f, 0x2f), (0x3a, 0x40), (0x5b, 0x5e), (0x60, 0x60), (0x7b, 0x7d), (0x7f, 0x10ffff)]

def set_host : List (Nat × Nat) := [(0x0, 0x20), (0x23, 0x23), (0x7f, 0x10ffff)]

def set_laxPath : List (Nat × Nat) := [(0x0, 0x20), (0x22, 0x23), (0x3f, 0x3f), (0x60, 0x60), (0x7b, 0x7b), (0x7d, 0x7d), (0x7f, 0x10ffff)]

def set_laxQuery : List (Nat × Nat) := [(0x0, 0x20), (0x23, 0x23), (0x3c, 0x3c), (0x3e, 0x3e), (0x7f, 0x10ffff)]

def set_repeatedQuery : List (Nat × Nat) := [(0x0, 0x20), (0x23, 0x23), (0x25, 0x26), (0x3d, 0x3d), (0x7f, 0x10ffff)]

def bitset_alnum : List (Nat × Nat) := [(0x30, 0x39), (0x41, 0x5a), (0x61, 0x7a)]

def bitset_alpha : List (Nat × Nat) := [(0x41, 0x5a), (0x61, 0x7a)]

def bitset_c0control : List (Nat × Nat) := [(0x0, 0x1f)]

def bitset_c0controlsp : List (Nat × Nat) := [(0x0, 0x20)]

def bitset_digit : List (Nat × Nat) := [(0x30, 0x39)]

def bitset_forbiddendomain : List (Nat × Nat) := [(0x0, 0x20), (0x23, 0x23), (0x25, 0x25), (0x2f, 0x2f), (0x3a, 0x3a), (0x3c, 0x3c), (0x3e, 0x40), (0x5b, 0x5e), (0x7c, 0x7c), (0x7f, 0x7f)]

def bitset_forbiddenhost : List (Nat × Nat) := [(0x0, 0x0), (0x9, 0xa), (0xd, 0xd), (0x20, 0x20), (0x23, 0x23), (0x2f, 0x2f), (0x3a, 0x3a), (0x3c, 0x3c), (0x3e, 0x40), (0x5b, 0x5e), (0x7c, 0x7c)]

def bitset_hex : List (Nat × Nat) := [(0x30, 0x39), (0x41, 0x46), (0x61, 0x66)]

def bitset_tabnl : List (Nat × Nat) := [(0x9, 0xa), (0xd, 0xd)]

def urlCodePoints : List (Nat × Nat) := [(0x24, 0x24), (0x26, 0x3b), (0x3d, 0x3d), (0x3f, 0x5a), (0x5f, 0x5f), (0x61, 0x7a), (0x7e, 0x7e), (0xa0, 0xfdcf), (0xfdf0, 0xfffd), (0x10000, 0x1fffd), (0x20000, 0x2fffd), (0x30000, 0x3fffd), (0x40000, 0x4fffd), (0x50000, 0x5fffd), (0x60000, 0x6fffd), (0x70000, 0x7fffd), (0x80000, 0x8fffd), (0x90000, 0x9fffd), (0xa0000, 0xafffd), (0xb0000, 0xbfffd), (0xc0000, 0xcfffd), (0xd0000, 0xdfffd), (0xe0000, 0xefffd), (0xf0000, 0xffffd), (0x100000, 0x10fffd)]

def defaultSpecialSchemes : List (String × String) := [("file", ""), ("ftp", "21"), ("http", "80"), ("https", "443"), ("ws", "80"), ("wss", "443")]

def profile_WhatWg : String := "0;0;x;0,0,0,0,66696c65=+667470=3231+68747470=3830+6874747073=343433+7773=3830+777373=343433,21:2800000100000000d000000c00000000,21:5000008c00000000,21:5000000c00000000,21:1000000005000000400000000,21:1000000005000000400000000"

def profile_WhatWgSortQuery : String := "0;1;x;0,0,0,0,66696c65=+667470=3231+68747470=3830+6874747073=343433+7773=3830+777373=343433,21:2800000100000000d000000c00000000,21:5000008c00000000,21:5000000c00000000,21:1000000005000000400000000,21:1000000005000000400000000"

def profile_GoogleSafeBrowsing : String := "14;0;x68747470;572,1,0,0,66696c65=+667470=3231+68747470=3830+6874747073=343433+7773=3830+777373=343433,21:2800000100000000d000000c00000000,21:5000008c00000000,21:5000000800000000,21:1000000005000000400000000,21:1000000005000000400000000"

def profile_Semantic : String := "13;1;x68747470;124,2,0,1,66696c65=+667470=3231+676f70686572=3730+68747470=3830+6874747073=343433+7773=3830+777373=343433,21:28000001000000008000000c00000000,21:5000008c00000000,21:5000000800000000,21:1000000005000000400000000,21:1000000005000000400000000"

def defaultCfgTok : String := "0,0,0,0,66696c65=+667470=3231+68747470=3830+6874747073=343433+7773=3830+777373=343433,21:2800000100000000d000000c00000000,21:5000008c00000000,21:5000000c00000000,21:1000000005000000400000000,21:1000000005000000400000000"

end WhatwgUrl.Generated
