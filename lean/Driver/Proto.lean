import WhatwgUrl.Impl.Profiles
/-
  Line protocol of the correspondence check: decoding of case lines, encoding of observations.
  The Go harness (/verif/harness) prints exactly the same observation format from the real code.
-/
namespace Driver
open WhatwgUrl WhatwgUrl.Impl

def hexNib (c : Char) : Nat := hexVal c.toNat

def unhexList : List Char → Bytes
  | a :: b :: rest => (hexNib a * 16 + hexNib b).toUInt8 :: unhexList rest
  | _ => []

/-- `x<hex>` token to bytes -/
def tokBytes (t : String) : Bytes := unhexList (t.toList.drop 1)

def hx (s : Bytes) : String := hexOfBytes s
def xs (s : Bytes) : String := "x" ++ hexOfBytes s

def b01 (b : Bool) : String := if b then "1" else "0"

def natOfHex (s : String) : Nat := s.toList.foldl (fun acc c => acc * 16 + hexNib c) 0

/-! ### configurations -/

/-- a charmap sent as a table: `t` + replacement byte (2 hex) + for every byte its decoded code point (4 hex) and the byte
    `EncodeRune` returns for that code point (2 hex) -/
def charmapOfTok (t : String) : Option Charmap :=
  match t.toList with
  | 't' :: r1 :: r2 :: rest =>
    let repl : UInt8 := (hexNib r1 * 16 + hexNib r2).toUInt8
    let rec go : List Char → List (Nat × UInt8) → List (Nat × UInt8)
      | a :: b :: c :: d :: e :: f :: more, acc =>
        go more (((hexNib a * 16 + hexNib b) * 256 + hexNib c * 16 + hexNib d, (hexNib e * 16 + hexNib f).toUInt8) :: acc)
      | _, acc => acc.reverse
    let tbl := go rest []
    if tbl.length != 256 then none else
    some { enc := fun r => if r.toNat == 0xfffd then (repl, false) else   -- an undefined byte decodes to U+FFFD, which no charmap encodes
                           match tbl.find? (fun p => p.1 == r.toNat) with
                           | some p => (p.2, true)
                           | none => (repl, false)
           dec := fun x => Char.ofNat ((tbl.getD x.toNat (0xfffd, 0)).1) }
  | _ => none

-- `latin1`, `gsbPre`, `semanticPre`: WhatwgUrl/Impl/Profiles.lean (the theorems of Props/C18e.lean are about them)

/-- synthetic closures used by the harness -/
def constHost (_ : Url) (_ : Bytes) : Bytes := lit "example.org"
def upperFirst (_ : Url) (h : Bytes) : Bytes := match h with | [] => [] | x :: r => (if isLowerN x.toNat then x - 0x20 else x) :: r
def schemeSuffix (u : Url) (h : Bytes) : Bytes := h ++ lit "." ++ u.scheme

def hostFn (id : Nat) : Option (Url → Bytes → Bytes) :=
  match id with
  | 1 => some gsbPre
  | 2 => some semanticPre
  | 3 => some constHost
  | 4 => some upperFirst
  | 5 => some schemeSuffix
  | _ => none

def psetOfTok (t : String) : PSet :=
  match t.splitOn ":" with
  | [a, b] => ⟨natOfHex a, natOfHex b⟩
  | _ => ⟨0, 0⟩

/-- special scheme table: `name=port+name=port` with hex strings; `-` = empty map -/
def schemesOfTok (t : String) : List (Bytes × Bytes) :=
  if t == "-" then []
  else (t.splitOn "+").filterMap fun e =>
    match e.splitOn "=" with
    | [a, b] => some (unhexList a.toList, unhexList b.toList)
    | _ => none

/-- cfg token: `flags,pre,post,enc,schemes,path,spq,q,spf,f`; flags bit order:
    report fail lax collapse accept pctSingle allowNonBase skipDrive skipTrailing skipEquals -/
def cfgOfTok (t : String) : Cfg :=
  match t.splitOn "," with
  | [fl, pre, post, enc, sch, ps, sq, q, sf, f] =>
    let n := fl.toNat!
    { report := n.testBit 0, failOnVErr := n.testBit 1, laxHost := n.testBit 2, collapse := n.testBit 3,
      acceptInvalid := n.testBit 4, pctSingle := n.testBit 5, allowNonBasePath := n.testBit 6, skipDrive := n.testBit 7,
      skipTrailingSlash := n.testBit 8, skipEquals := n.testBit 9,
      preHost := hostFn pre.toNat!, postHost := hostFn post.toNat!,
      encOverride := if enc == "1" then some latin1 else charmapOfTok enc,
      specialSchemes := schemesOfTok sch,
      pathSet := psetOfTok ps, spQuerySet := psetOfTok sq, querySet := psetOfTok q, spFragSet := psetOfTok sf, fragSet := psetOfTok f }
  | _ => {}

/-- profile token: `cflags;sort;x<defaultScheme>;<cfg token>`; cflags bits: removeUserInfo removePort removeFragment repeatedDecoding -/
def profileOfTok (t : String) : Profile :=
  match t.splitOn ";" with
  | [cf, so, ds, c] =>
    let n := cf.toNat!
    { cfg := cfgOfTok c, removeUserInfo := n.testBit 0, removePort := n.testBit 1, removeFragment := n.testBit 2,
      repeatedPercentDecoding := n.testBit 3,
      sortQuery := if so == "1" then .sortKeys else if so == "2" then .sortParameter else .noSort,
      defaultScheme := tokBytes ds }
  | _ => {}

/-- the closure / charmap ids of a profile token (`pre`, `post`, `enc` fields of its cfg token) -/
def profileIds (t : String) : List String :=
  match t.splitOn ";" with
  | [_, _, _, c] => (match c.splitOn "," with | [_, pre, post, enc, _, _, _, _, _, _] => [pre, post, enc] | _ => [])
  | _ => []

/-- `LPROF`: the token of a predefined profile (printed by the harness from the real Go object) decodes to the Lean value the
    theorems are stated about — all data fields, and the ids of the closures / the charmap -/
def profileMatches (name tok : String) : Bool :=
  match name with
  | "GoogleSafeBrowsing" => (profileOfTok tok).sameData gsbProfile && profileIds tok == ["1", "0", "0"]
  | "Semantic" => (profileOfTok tok).sameData semanticProfile && profileIds tok == ["2", "0", "1"]
  | "WhatWg" => (profileOfTok tok).sameData {} && profileIds tok == ["0", "0", "0"]
  | "WhatWgSortQuery" => (profileOfTok tok).sameData { sortQuery := .sortKeys } && profileIds tok == ["0", "0", "0"]
  | _ => false

/-! ### the IDNA oracle as seen by the driver -/

def pureAsciiNoAce (s : Bytes) : Bool :=
  s.all (fun x => x.toNat < 0x80) && (splitOn 0x2e (asciiLower s)).all fun l => !startsWith l (lit "xn--")

abbrev IdnaTable := List (Bytes × (Bytes × Bool))

/-- table of answers attached to the line: `x<src>=x<out>=<0|1>+…` or `-` -/
def tableOfTok (t : String) : IdnaTable :=
  if t == "-" then []
  else (t.splitOn "+").filterMap fun e =>
    match e.splitOn "=" with
    | [a, b, c] => some (tokBytes a, (tokBytes b, c == "1"))
    | _ => none

def resolvable (tbl : IdnaTable) (s : Bytes) : Bool := pureAsciiNoAce s || (tbl.find? (·.1 == s)).isSome

/-- the oracle: law L1 for pure ASCII without ACE labels (checked against x/net by the correspondence itself),
    the attached table otherwise; a miss is answered arbitrarily and reported as NEED by the caller -/
def oracle (tbl : IdnaTable) : Idna := fun s =>
  match tbl.find? (·.1 == s) with
  | some e => e.2
  | none => if pureAsciiNoAce s then (asciiLower s, false) else ([], true)

/-! ### observations -/

def retTok (r : Ret) : String :=
  match r with
  | .url => "ok"
  | .nilNil => "NILNIL"
  | .err e _ => s!"E{e.t.idx},{b01 e.failure}"
  | .panic _ => "PANIC"
  | .outOfFuel => "OUTOFFUEL"

def pairsTok (l : Pairs) : String := ",".intercalate (l.map fun nv => hx nv.1 ++ "=" ++ hx nv.2)

/-- the observation of url object `i`; the same fields, in the same order, as `obsUrl` in the Go harness -/
def obsUrl (H : Heap) (i : Nat) : String :=
  match H.urls[i]? with
  | none => "?"
  | some o =>
    let u := o.u
    let nilBits := b01 u.host.isNone ++ b01 u.port.isNone ++ b01 u.query.isNone ++ b01 u.fragment.isNone
    let sp := match o.sp.bind (H.sps[·]?) with
      | none => "n"
      | some s => (match s.url with | some j => toString j | none => "-") ++ ":" ++ pairsTok s.params
    "|".intercalate [
      hx (href u false), hx (href u true), hx (protocol u), hx u.scheme, hx u.username, hx u.password,
      hx (hostG u), hx (hostname u), hx (portG u), toString (decodedPortG o.cfg u), hx (pathname u), b01 u.path.opq,
      hx (search u), hx (queryG u), hx (hashG u), hx (fragmentG u), b01 (o.cfg.isSpecial u.scheme), b01 (isIPv4 o.cfg u), b01 (isIPv6 u),
      nilBits, ",".intercalate (u.path.segs.map hx), toString u.decodedPort, sp,
      ",".intercalate (u.verrs.map fun e => s!"{e.t.idx}.{b01 e.failure}")]

end Driver
