import Driver.Proto
import WhatwgUrl.Spec.Url
/-
  `model`: reads case lines on stdin, executes the Lean model (Impl) on them and prints one observation
  line per case. See /verif/DESIGN.md §4.3 and /verif/harness for the Go side.
-/
namespace Driver
open WhatwgUrl WhatwgUrl.Impl

/-- interpreter state for one history -/
structure St where
  H : Heap := {}
  /-- url handles: index into `H.urls` -/
  uh : Array Nat := #[]
  /-- SearchParams handles: index into `H.sps` -/
  sh : Array Nat := #[]
  /-- last printed observation per url handle -/
  last : Array String := #[]
  /-- oracle queries seen in results that did not become objects -/
  extraQ : List Bytes := []
  out : Array String := #[]

def setterOf (k : Nat) : Setter :=
  match k with
  | 0 => .protocol | 1 => .username | 2 => .password | 3 => .host | 4 => .hostname
  | 5 => .port | 6 => .pathname | 7 => .search | _ => .hash

def iterFn (k : Nat) : Bytes × Bytes → Bytes × Bytes :=
  match k with
  | 1 => fun nv => (decodeEncode repeatedQuerySet nv.1, decodeEncode repeatedQuerySet nv.2)
  | 2 => fun nv => (nv.1, nv.2 ++ [0x78])
  | _ => id

/-- append the observations of all url handles whose observation changed -/
def flushObs (st : St) (res : String) : St := Id.run do
  let mut last := st.last
  let mut parts : Array String := #[res]
  for k in [0:st.uh.size] do
    let o := obsUrl st.H st.uh[k]!
    if last.getD k "" != o then
      parts := parts.push s!"h{k}={o}"
      if k < last.size then last := last.set! k o else last := last.push o
  return { st with last := last, out := st.out.push (" ".intercalate parts.toList) }

def pushUrl (st : St) (H : Heap) (i : Option Nat) (ret : Ret) : St :=
  match i with
  | some i => flushObs { st with H := H, uh := st.uh.push i } s!"ok{st.uh.size}"
  | none => flushObs { st with H := H } (retTok ret)

def resQ (r : Res) : List Bytes := r.url.qlog

/-- execute one op (a list of tokens) -/
def execOp (I : Idna) (st : St) (op : List String) : St :=
  let U := fun (t : String) => st.uh.getD t.toNat! 1000000
  let S := fun (t : String) => st.sh.getD t.toNat! 1000000
  match op with
  | ["P", c, x] =>
    let cfg := cfgOfTok c
    let r := parse cfg I (tokBytes x)
    let a := st.H.allocRes cfg r
    pushUrl { st with extraQ := st.extraQ ++ resQ r } a.1 a.2 r.ret
  | ["PR", c, b, x] =>
    let cfg := cfgOfTok c
    let r := parseRef cfg I (tokBytes b) (tokBytes x)
    let a := st.H.allocRes cfg r
    pushUrl { st with extraQ := st.extraQ ++ resQ r ++ resQ (parse cfg I (tokBytes b)) } a.1 a.2 r.ret
  | ["R", h, x] =>
    let r := st.H.urlParse I (U h) (tokBytes x)
    -- the failing result's log is not kept in the heap; re-run at value level to see its queries
    let q := match st.H.urls[U h]? with
      | some o => resQ (Impl.urlParse o.cfg I o.u (tokBytes x))
      | none => []
    pushUrl { st with extraQ := st.extraQ ++ q } r.1 r.2.1 r.2.2
  | ["C", h] =>
    let r := st.H.clone (U h)
    pushUrl st r.1 r.2 .url
  | ["S", k, h, x] =>
    let r := st.H.set I (U h) (setterOf k.toNat!) (tokBytes x)
    flushObs { st with H := r.1 } (match r.2 with | .panic _ => "PANIC" | _ => "-")
  | ["G", h] =>
    let r := st.H.searchParams (U h)
    (match r.2 with
     | some s => flushObs { st with H := r.1, sh := st.sh.push s } s!"s{st.sh.size}"
     | none => flushObs { st with H := r.1 } "?")
  | ["QA", s, n, v] => flushObs { st with H := st.H.spMutate (S s) (.append (tokBytes n) (tokBytes v)) } "-"
  | ["QD", s, n] => flushObs { st with H := st.H.spMutate (S s) (.delete (tokBytes n)) } "-"
  | ["QS", s, n, v] => flushObs { st with H := st.H.spMutate (S s) (.set (tokBytes n) (tokBytes v)) } "-"
  | ["QO", s] => flushObs { st with H := st.H.spMutate (S s) .sort } "-"
  | ["QB", s] => flushObs { st with H := st.H.spMutate (S s) .sortAbs } "-"
  | ["QI", s, k] => flushObs { st with H := st.H.spMutate (S s) (.iterate (iterFn k.toNat!)) } "-"
  | ["QG", s, n] => flushObs st (xs (spGet (((st.H.sps[S s]?).map (·.params)).getD []) (tokBytes n)))
  | ["QL", s, n] => flushObs st ("l" ++ ",".intercalate ((spGetAll (((st.H.sps[S s]?).map (·.params)).getD []) (tokBytes n)).map hx))
  | ["QH", s, n] => flushObs st (b01 (spHas (((st.H.sps[S s]?).map (·.params)).getD []) (tokBytes n)))
  | ["QT", s] =>
    (match st.H.sps[S s]? with
     | some sp =>
       (match sp.url.bind (st.H.urls[·]?) with
        | some o => flushObs st (xs (spString o.cfg sp.params))
        | none => flushObs st "PANIC")
     | none => flushObs st "?")
  | ["SSP", h, s] => flushObs { st with H := st.H.setSearchParams (U h) (S s) } "-"
  | ["CP", p, x] =>
    let pr := profileOfTok p
    let r := canonParse I pr st.H (tokBytes x)
    pushUrl { st with extraQ := st.extraQ ++ resQ (canonParseBase I pr (tokBytes x)) ++ resQ (parse pr.cfg I (tokBytes x)) } r.1 r.2.1 r.2.2
  | ["CR", p, b, x] =>
    let pr := profileOfTok p
    let r := canonParseRef I pr st.H (tokBytes b) (tokBytes x)
    let bq := canonParseBase I pr (tokBytes b)
    pushUrl { st with extraQ := st.extraQ ++ resQ bq ++ resQ (parse pr.cfg I (tokBytes b)) ++
                (if bq.isOk then resQ (Impl.urlParse pr.cfg I bq.url (tokBytes x)) else []) } r.1 r.2.1 r.2.2
  | ["CC", p, h] =>
    let r := canonicalize I (profileOfTok p) st.H (U h)
    flushObs { st with H := r.1 } (match r.2 with | .panic _ => "PANIC" | _ => "-")
  | ["NU", c] =>
    let a := st.H.allocUrl { u := {}, sp := none, cfg := cfgOfTok c }
    pushUrl st a.1 (some a.2) .url
  | _ => flushObs st "BADOP"

/-- split a token list at the separator `;` -/
def splitOps : List String → List (List String)
  | [] => [[]]
  | t :: rest =>
    if t == ";" then [] :: splitOps rest
    else match splitOps rest with
      | h :: tl => (t :: h) :: tl
      | [] => [[t]]

def allQueries (st : St) : List Bytes := st.extraQ ++ st.H.urls.flatMap (·.u.qlog)

def ipv6OfTok (t : String) : List Nat := (t.splitOn ",").map (·.toNat!)

def hostOut (hr : HR) : String :=
  match hr.out with
  | .ok h => "ok " ++ xs h
  | .err e => s!"E{e.t.idx},{b01 e.failure}"
  | .panic _ => "PANIC"

def namedSet (n : String) : PSet :=
  match n with
  | "c0" => c0Set | "c0sp" => c0OrSpaceSet | "fragment" => fragmentSet | "query" => querySet
  | "specialquery" => specialQuerySet | "path" => pathSet | "userinfo" => userinfoSet | "host" => hostSet
  | "laxpath" => laxPathSet | "laxquery" => laxQuerySet | "repeatedquery" => repeatedQuerySet
  | _ => ⟨0, 0⟩

def bitsetHas (n : String) (c : Nat) : Bool :=
  match n with
  | "tabnl" => c == 9 || c == 10 || c == 13
  | "alpha" => isAlphaN c | "digit" => isDigitN c | "hex" => isHexN c | "alnum" => isAlnumN c
  | "c0control" => c ≤ 0x1f | "c0controlsp" => c ≤ 0x20
  | "forbiddenhost" => forbiddenHost c | "forbiddendomain" => forbiddenDomain c
  | "urlcp" => isUrlCp c
  | _ => false


/-! ### the same histories on Spec (parse, resolve, setters; default configuration only) -/

instance : Inhabited Spec.SUrl := ⟨{}⟩

structure SSt where
  uh : Array Spec.SUrl := #[]
  last : Array String := #[]
  out : Array String := #[]

def specObs (u : Spec.SUrl) : String :=
  let h := fun (s : Str) => hx (utf8 s)
  let nilBits := b01 u.host.isNone ++ b01 u.port.isNone ++ b01 u.query.isNone ++ b01 u.fragment.isNone
  "|".intercalate [
    h (Spec.serialize u false), h (Spec.serialize u true), h (Spec.getProtocol u), h u.scheme, h u.username, h u.password,
    h (Spec.getHost u), h (Spec.getHostname u), h (Spec.getPort u), "~", h (Spec.pathSerialize u), b01 u.hasOpaquePath,
    h (Spec.getSearch u), h (u.query.getD []), h (Spec.getHash u), h (u.fragment.getD []), b01 u.isSpecial, "~", "~",
    nilBits, (match u.path with | .list l => ",".intercalate (l.map h) | .opaque s => h s), "~", "~", "~"]

def sflush (st : SSt) (res : String) : SSt := Id.run do
  let mut last := st.last
  let mut parts : Array String := #[res]
  for k in [0:st.uh.size] do
    let o := specObs st.uh[k]!
    if last.getD k "" != o then
      parts := parts.push s!"h{k}={o}"
      if k < last.size then last := last.set! k o else last := last.push o
  return { st with last := last, out := st.out.push (" ".intercalate parts.toList) }

def spush (st : SSt) (r : Option Spec.SUrl) : SSt :=
  match r with
  | some u => sflush { st with uh := st.uh.push u } s!"ok{st.uh.size}"
  | none => sflush st "E"

def specSetterOf (k : Nat) : Spec.Setter :=
  match k with
  | 0 => .protocol | 1 => .username | 2 => .password | 3 => .host | 4 => .hostname
  | 5 => .port | 6 => .pathname | 7 => .search | _ => .hash

def sstr (t : String) : Str := goRunes (tokBytes t)

def specOp (I : Spec.SIdna) (st : SSt) (op : List String) : SSt :=
  match op with
  | ["P", _, x] => spush st (Spec.apiParse I (sstr x) none)
  | ["PR", _, b, x] => if (tokBytes b).isEmpty then spush st (Spec.apiParse I (sstr x) none) else spush st (Spec.apiParse I (sstr x) (some (sstr b)))
  | ["R", h, x] =>
    (match st.uh[h.toNat!]? with
     | some b => let r := Spec.basicParse I (sstr x) (some b) none none; spush st (if r.2 then none else some r.1)
     | none => sflush st "?")
  | ["S", k, h, x] =>
    (match st.uh[h.toNat!]? with
     | some u => sflush { st with uh := st.uh.set! h.toNat! (Spec.set I (specSetterOf k.toNat!) u (sstr x)) } "-"
     | none => sflush st "?")
  | _ => sflush st "BADOP"

/-- the Spec-side oracle: the library's answer (through the table) is "taken as given"; `dflt` answers unresolved keys -/
def specIdna (tbl : IdnaTable) (dflt : Option Str) : Spec.SIdna := fun d =>
  let src := utf8 d
  match tbl.find? (·.1 == src) with
  | some e =>
    if e.2.2 && !asciiOrMiscNoPuny d 0 then none
    else if e.2.1.isEmpty then none else some (goRunes e.2.1)
  | none => if d.any (· == repl) then none else dflt   -- U+FFFD is disallowed by UTS #46

def runSpecLine (id : String) (tbl : String) (rest : List String) : String :=
  let table := tableOfTok tbl
  let a := (splitOps rest).foldl (specOp (specIdna table none)) {}
  let b := (splitOps rest).foldl (specOp (specIdna table (some ['z', 'z']))) {}
  if a.out != b.out then id ++ "\tSPECNEED"
  else id ++ "\t" ++ "\t".intercalate a.out.toList

/-- one case line → one output line -/
def runLine (line : String) : String :=
  match line.splitOn " " with
  | id :: "H" :: tbl :: rest =>
    let table := tableOfTok tbl
    let I := oracle table
    let st := (splitOps rest).foldl (execOp I) {}
    let needs := (allQueries st).filter (!resolvable table ·)
    if needs.isEmpty then id ++ "\t" ++ "\t".intercalate st.out.toList
    else id ++ "\tNEED " ++ " ".intercalate (needs.eraseDups.map xs)
  | id :: "SH" :: tbl :: rest => runSpecLine id tbl rest
  | [id, "LH", tbl, c, ns, x] =>
    let table := tableOfTok tbl
    let hr := parseHost (cfgOfTok c) (oracle table) {} (tokBytes x) (ns == "1")
    let needs := hr.url.qlog.filter (!resolvable table ·)
    if needs.isEmpty then id ++ "\t" ++ hostOut hr else id ++ "\tNEED " ++ " ".intercalate (needs.eraseDups.map xs)
  | [id, "L4", x] => id ++ "\t" ++ hostOut (parseIPv4 {} {} (tokBytes x))
  | [id, "LE", x] => id ++ "\t" ++ b01 (endsInANumber {} {} (tokBytes x))
  | [id, "L6", x] => id ++ "\t" ++ hostOut (parseIPv6 {} {} (tokBytes x))
  | [id, "L6S", a] => id ++ "\t" ++ xs (ipv6String (ipv6OfTok a))
  | [id, "L4S", n] => id ++ "\t" ++ xs (ipv4String n.toNat!)
  | [id, "LENC", c, set, x] => id ++ "\t" ++ xs (percentEncodeString (cfgOfTok c) (psetOfTok set) (tokBytes x))
  | [id, "LDEC", c, x] => id ++ "\t" ++ xs (decodePercent (cfgOfTok c) (tokBytes x))
  | [id, "LR", x] => id ++ "\t" ++ ",".intercalate ((goRunes (tokBytes x)).map fun c => toString c.toNat)
  | [id, "LTRIM", x] => let r := trim c0OrSpaceSet (tokBytes x); id ++ "\t" ++ xs r.1 ++ " " ++ b01 r.2
  | [id, "LREM", x] => let r := removeTabNl (tokBytes x); id ++ "\t" ++ xs r.1 ++ " " ++ b01 r.2
  | [id, "LSPI", c, x] => id ++ "\t" ++ pairsTok (spInit (cfgOfTok c) (tokBytes x))
  | [id, "LHAS", set, cp] => id ++ "\t" ++ b01 ((namedSet set).has cp.toNat!)
  | [id, "LBIT", set, cp] => id ++ "\t" ++ b01 (bitsetHas set cp.toNat!)
  | [id, "LDE", set, x] => id ++ "\t" ++ xs (decodeEncode (psetOfTok set) (tokBytes x))
  | [id, "LOBS", c, sc, un, pw, ho, po, dp, oq, sg, qu, fr] =>
    -- getters / accessors of a url value given by its stored fields (as dumped from the Go object)
    let opt := fun (t : String) => if t == "-" then none else some (tokBytes t)
    let segs : List Bytes := if sg == "-" then [] else (sg.splitOn ",").map fun t => unhexList t.toList
    let u : Url := { scheme := tokBytes sc, username := tokBytes un, password := tokBytes pw, host := opt ho, port := opt po,
                     decodedPort := dp.toNat!, path := ⟨segs, oq == "1"⟩, query := opt qu, fragment := opt fr }
    let H : Heap := { urls := [{ u := u, sp := none, cfg := cfgOfTok c }], sps := [] }
    id ++ "\t" ++ "|".intercalate (((obsUrl H 0).splitOn "|").take 19)
  | [id, "LF3", x] =>
    -- class predicate of finding F3: removing tab/newline bytes splices an ill-formed UTF-8 sequence
    id ++ "\t" ++ b01 (goRunes (removeTabNl (tokBytes x)).1 != (goRunes (tokBytes x)).filter (fun c => !(c.toNat == 9 || c.toNat == 10 || c.toNat == 13)))
  | [id, "LPROF", name, tok] => id ++ "\t" ++ b01 (profileMatches name tok)
  | [id, "LRD", x] => id ++ "\t" ++ xs (repeatedDecode (tokBytes x))
  | id :: _ => id ++ "\tBADLINE"
  | [] => "BADLINE"

partial def mainLoop (hin hout : IO.FS.Stream) : IO Unit := do
  let line ← hin.getLine
  if line.isEmpty then return ()
  let l := (line.dropEndWhile (fun c => c == '\n' || c == '\r')).toString
  if !l.isEmpty then hout.putStrLn (runLine l)
  mainLoop hin hout

end Driver

def main : IO Unit := do
  let hin ← IO.getStdin
  let hout ← IO.getStdout
  Driver.mainLoop hin hout
  hout.flush
