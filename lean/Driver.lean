import Driver.Proto
import Driver.Main
