#!/usr/bin/env python3
"""Correspondence (T2): run the Lean driver on the case lines the Go harness produced, answer its IDNA
oracle queries through the harness, and compare observations under a per-property projection."""
import os, subprocess, sys, json, re
from concurrent.futures import ThreadPoolExecutor

VERIF = os.path.dirname(os.path.dirname(os.path.abspath(__file__)))
MODEL = os.path.join(VERIF, "lean/.lake/build/bin/model")
HARNESS = os.path.join(VERIF, "harness/bin/vharness")

FIELDS = ["href", "hrefnf", "protocol", "scheme", "username", "password", "host", "hostname", "port", "decodedport",
          "pathname", "opaque", "search", "query", "hash", "fragment", "isspecial", "isipv4", "isipv6",
          "nilbits", "segs", "decodedportraw", "sp", "verrs"]
FIDX = {n: i for i, n in enumerate(FIELDS)}
ALL = list(range(len(FIELDS)))


def run_model(lines, jobs=12):
    """lines: list of case lines -> dict id -> output (rest of line after id\\t)"""
    if not lines:
        return {}
    jobs = max(1, min(jobs, (len(lines) + 199) // 200))
    chunks = [lines[i::jobs] for i in range(jobs)]

    def one(chunk):
        p = subprocess.run([MODEL], input=("\n".join(chunk) + "\n").encode(), stdout=subprocess.PIPE, stderr=subprocess.PIPE)
        if p.returncode != 0:
            raise RuntimeError("model driver failed: " + p.stderr.decode()[:2000])
        return p.stdout.decode()

    res = {}
    with ThreadPoolExecutor(max_workers=jobs) as ex:
        for out in ex.map(one, chunks):
            for l in out.split("\n"):
                if not l:
                    continue
                i = l.find("\t")
                if i < 0:
                    res[l] = ""
                else:
                    res[l[:i]] = l[i + 1:]
    return res


# ---- the oracle laws the conformance theorems assume (Proofs/SimDefs.lean: IdnaLaws), checked on every answer of x/net --------
LAW_CHECKED = [0]
LAW_VIOLATIONS = []


def _ascii_or_misc_no_puny(runes):
    """containsOnlyASCIIOrMiscAndNoPunycode of url/hostparser.go (= asciiOrMiscNoPuny of Impl/Host.lean)"""
    p = 0
    for r in runes:
        if ord(r) < 0x80:
            r = r.lower()
        if ord(r) >= 0x80 and r not in "\u2260\u226e\u226f":
            return False
        if r == ".":
            p = 0
        elif p == 0 and r == "x":
            p = 1
        elif p == 1 and r == "n":
            p = 2
        elif p == 2 and r == "-":
            p = 3
        elif p == 3 and r == "-":
            return False
        else:
            p = -1
    return True


def check_idna_laws(line):
    """line: x<src>=x<out>=<0|1>"""
    try:
        src, out, flag = line.split("=")
        sb, ob, err = bytes.fromhex(src[1:]), bytes.fromhex(out[1:]), flag == "1"
    except Exception:
        return
    LAW_CHECKED[0] += 1
    runes = sb.decode("utf-8", errors="replace")
    bad = []
    if any(b >= 0x80 for b in ob):
        bad.append("L2 out_ascii")
    if "\ufffd" in runes and not err:
        bad.append("L3 repl_fails")
    aom = _ascii_or_misc_no_puny(runes)
    if sb and err and aom and not ob:
        bad.append("L4 nonempty")
    if all(b < 0x80 for b in sb) and aom and ob != sb.lower():
        bad.append("L1 ascii_lower")
    for b in bad:
        if len(LAW_VIOLATIONS) < 20:
            LAW_VIOLATIONS.append({"law": b, "answer": line, "input": runes, "output": ob.decode("latin-1"), "error": err})


def _ask_idna(keys):
    ans = {}
    for i in range(0, len(keys), 200):
        p = subprocess.run([HARNESS, "idna"] + keys[i:i + 200], stdout=subprocess.PIPE, check=True)
        for l in p.stdout.decode().split("\n"):
            if l:
                ans[l.split("=")[0]] = l
    return ans


# ---- two more laws, assumed only by Props/C09d.lean (Proofs/HostCase.lean): L5 the library is ASCII-case-insensitive (output and
# error flag), L6 its output has no upper-case ASCII letter. Checked on every answer: the library is asked again for the
# lower-cased and the upper-cased spelling of every query of the run.
LAW_C09_CHECKED = [0]
LAW_C09_VIOLATIONS = []


def _ascii_case(b, up):
    return bytes((c - 32 if (up and 97 <= c <= 122) else c + 32 if (not up and 65 <= c <= 90) else c) for c in b)


def check_case_laws(ans):
    need = {}
    for k, l in ans.items():
        try:
            sb = bytes.fromhex(k[1:])
        except Exception:
            continue
        for v in (_ascii_case(sb, False), _ascii_case(sb, True)):
            if v != sb:
                need.setdefault("x" + v.hex(), []).append(k)
    extra = _ask_idna([k for k in need if k not in ans])
    for vk, srcs in need.items():
        la = ans.get(vk) or extra.get(vk)
        if la is None:
            continue
        for k in srcs:
            LAW_C09_CHECKED[0] += 1
            if la.split("=")[1:] != ans[k].split("=")[1:] and len(LAW_C09_VIOLATIONS) < 20:
                LAW_C09_VIOLATIONS.append({"law": "L5 case_insensitive", "answer": ans[k], "variant_answer": la})
    for k, l in ans.items():
        try:
            ob = bytes.fromhex(l.split("=")[1][1:])
        except Exception:
            continue
        if any(65 <= c <= 90 for c in ob) and len(LAW_C09_VIOLATIONS) < 20:
            LAW_C09_VIOLATIONS.append({"law": "L6 out_lower", "answer": l})


def idna_answers(keys):
    ans = _ask_idna(list(keys))
    for l in ans.values():
        check_idna_laws(l)
    if os.environ.get("VERIF_CASE_LAWS"):
        check_case_laws(ans)
    return ans


def with_table(line, table):
    """replace the table token of a case line (third token for H, fourth... for LH)"""
    t = line.split(" ")
    if t[1] in ("H", "LH"):
        t[2] = "+".join(table) if table else "-"
    return " ".join(t)


def run_with_oracle(case_lines, max_rounds=4, stats=None):
    """runs the driver, answering NEED rounds. Returns dict id -> output."""
    by_id = {l.split(" ", 1)[0]: l for l in case_lines}
    tables = {}
    res = run_model(case_lines)
    rounds = 0
    while rounds < max_rounds:
        need = {i: o for i, o in res.items() if o.startswith("NEED ")}
        if not need:
            break
        rounds += 1
        keys = set()
        for o in need.values():
            keys.update(o.split(" ")[1:])
        ans = idna_answers(keys)
        redo = []
        for i, o in need.items():
            tb = tables.setdefault(i, [])
            for k in o.split(" ")[1:]:
                if k in ans and ans[k] not in tb:
                    tb.append(ans[k])
            redo.append(with_table(by_id[i], tb))
        res.update(run_model(redo))
    if stats is not None:
        stats["oracle_rounds"] = rounds
        stats["cases_with_oracle_queries"] = len(tables)
        stats["oracle_answers"] = sum(len(t) for t in tables.values())
    return res, tables


def project_obs(o, idx):
    f = o.split("|")
    return "|".join(f[i] if i < len(f) else "?" for i in idx)


def states(out, idx, results=True):
    """out: one observation line (ops separated by tabs). Returns the list, per op, of
    (result token, {handle: projected observation})."""
    cur = {}
    seq = []
    for op in out.split("\t"):
        toks = op.split(" ")
        for t in toks[1:]:
            m = re.match(r"h(\d+)=(.*)$", t)
            if m:
                cur[int(m.group(1))] = project_obs(m.group(2), idx)
        seq.append((toks[0] if results else "", dict(cur)))
    return seq


def compare(go, lean, idx=ALL, results=True, restok=None, lobs_idx=None):
    """go, lean: dict id -> output line. Returns list of (id, op index, go part, lean part)."""
    dis = []
    for i, g in go.items():
        l = lean.get(i)
        if l is None:
            dis.append((i, -1, g[:200], "<missing>"))
            continue
        if g == l:
            continue
        if "=" not in g and "=" not in l:
            # leaf line; an LOBS leaf is an observation and is projected like one
            if g.count("|") == 18 and l.count("|") == 18 and idx is not ALL:
                li = lobs_idx if lobs_idx is not None else [k for k in idx if k < 19]
                if project_obs(g, li) == project_obs(l, li):
                    continue
            dis.append((i, 0, g, l))
            continue
        sg, sl = states(g, idx, results), states(l, idx, results)
        if restok:
            sg = [(restok(a), b) for a, b in sg]
            sl = [(restok(a), b) for a, b in sl]
        if sg != sl:
            k = 0
            while k < min(len(sg), len(sl)) and sg[k] == sl[k]:
                k += 1
            dis.append((i, k, repr(sg[k]) if k < len(sg) else "<end>", repr(sl[k]) if k < len(sl) else "<end>"))
    return dis


def load(path):
    d = {}
    with open(path, encoding="utf-8", errors="surrogateescape") as f:
        for l in f:
            l = l.rstrip("\n")
            if not l:
                continue
            i = l.find("\t")
            d[l[:i]] = l[i + 1:]
    return d


def unhex_tokens(line):
    """human readable rendering of a case line"""
    def cv(t):
        if re.fullmatch(r"x([0-9a-f]{2})*", t):
            return repr(bytes.fromhex(t[1:]))[1:]
        return t
    return " ".join(cv(t) for t in line.split(" "))


if __name__ == "__main__":
    d = sys.argv[1]
    fields = sys.argv[2].split(",") if len(sys.argv) > 2 else FIELDS
    idx = [FIDX[f] for f in fields]
    cases = [l.rstrip("\n") for l in open(os.path.join(d, "cases.txt"))]
    stats = {}
    lean, tables = run_with_oracle(cases, stats=stats)
    go = load(os.path.join(d, "go.txt"))
    dis = compare(go, lean, idx)
    by_id = {l.split(" ", 1)[0]: l for l in cases}
    print("cases", len(cases), "disagreements", len(dis), stats)
    for i, k, a, b in dis[:int(os.environ.get("SHOW", "15"))]:
        print("----", i, "op", k)
        print(" case:", unhex_tokens(by_id[i])[:1500])
        print(" go  :", a[:1200])
        print(" lean:", b[:1200])


# ---- conformance: Go versus Spec ------------------------------------------------------------------------

SPEC_FIELDS = [FIDX[f] for f in ["href", "protocol", "username", "password", "host", "hostname", "port", "pathname", "search", "hash"]]
SPEC_OPS = {"P", "PR", "R", "S"}


def spec_eligible(line, default_cfg):
    t = line.split(" ")
    if len(t) < 3 or t[1] != "H":
        return False
    ops = " ".join(t[3:]).split(" ; ")
    for op in ops:
        o = op.split(" ")
        if o[0] not in SPEC_OPS:
            return False
        if o[0] in ("P", "PR") and o[1] != default_cfg:
            return False
    return True


def okerr(tok):
    if tok.startswith("ok"):
        return tok
    if tok.startswith("E"):
        return "E"
    return tok


def spec_compare(case_lines, go, tables, default_cfg):
    """returns (evaluated, undecided, list of (id, op, go, spec))"""
    el = [l for l in case_lines if spec_eligible(l, default_cfg)]
    slines = []
    for l in el:
        t = l.split(" ")
        t[1] = "SH"
        t[2] = "+".join(tables.get(t[0], [])) or "-"
        slines.append(" ".join(t))
    res = run_model(slines)
    undecided = 0
    dev = []
    for l in el:
        i = l.split(" ", 1)[0]
        s = res.get(i, "")
        if s.startswith("SPECNEED"):
            undecided += 1
            continue
        g = go[i]
        sg = [(okerr(a), b) for a, b in states(g, SPEC_FIELDS)]
        ss = [(okerr(a), b) for a, b in states(s, SPEC_FIELDS)]
        if sg != ss:
            k = 0
            while k < min(len(sg), len(ss)) and sg[k] == ss[k]:
                k += 1
            dev.append((i, k, repr(sg[k]) if k < len(sg) else "<end>", repr(ss[k]) if k < len(ss) else "<end>"))
    return len(el), undecided, dev
