"""C14: the harness built with -race runs goroutines over shared parsers, profiles and base URLs (supporting search, not a
proof); the theorems are over the regenerated mod/ref facts (Props/C14.lean)."""
import os, subprocess, json
import t2

VERIF = t2.VERIF


def run(tier, seed, work, st):
    fails = []
    cov = {}
    env = dict(os.environ, GOFLAGS="-mod=mod", GOPROXY="off", GOSUMDB="off", GOTOOLCHAIN="local", CGO_ENABLED="1")
    binp = os.path.join(VERIF, "harness/bin/vharness-race")
    if os.path.exists(binp):
        os.remove(binp)
    r = subprocess.run(["go", "build", "-race", "-tags", "verif", "-o", "bin/vharness-race", "."], cwd=os.path.join(VERIF, "harness"),
                       env=env, stdout=subprocess.PIPE, stderr=subprocess.STDOUT, text=True)
    if r.returncode != 0:
        cov["race_run"] = "the race-enabled harness did not build: " + r.stdout[-400:]
        cov["evaluations"] = 0
        cov["distinct_nontrivial"] = 0
        return fails, cov
    jobs, workers, rounds = (1500, 8, 2) if tier == "quick" else (6000, 16, 6)
    total = 0
    samples = []
    for k in range(rounds):
        p = subprocess.run([binp, "race", str(seed + k), str(jobs), str(workers)], stdout=subprocess.PIPE, stderr=subprocess.PIPE, text=True,
                           env=dict(env, GORACE="halt_on_error=0 exitcode=66"))
        out = p.stdout.strip().split("\n")[-1] if p.stdout.strip() else "{}"
        try:
            info = json.loads(out)
        except Exception:
            info = {}
        total += info.get("operations", 0)
        samples.append(info)
        if "WARNING: DATA RACE" in p.stderr:
            rep = p.stderr[p.stderr.index("WARNING: DATA RACE"):][:3000]
            fails.append({"property": "C14", "class": "data-race", "what": "the race detector reported a data race", "case": rep,
                          "tokens": "vharness-race race %d %d %d" % (seed + k, jobs, workers)})
            break
        if info.get("mismatches"):
            fails.append({"property": "C14", "class": "concurrent-result-differs", "what": info.get("first_mismatch", ""), "case": out,
                          "tokens": "vharness-race race %d %d %d" % (seed + k, jobs, workers)})
            break
        if info.get("tables_changed"):
            fails.append({"property": "C14", "class": "table-modified", "what": "a package-level table changed", "case": out,
                          "tokens": "vharness-race race %d %d %d" % (seed + k, jobs, workers)})
            break
        if p.returncode != 0:
            fails.append({"property": "C14", "class": "race-run-failed", "what": "exit code %d: %s" % (p.returncode, p.stderr[-500:]), "case": out,
                          "tokens": "vharness-race race %d %d %d" % (seed + k, jobs, workers)})
            break
    cov.update({"evaluations": total, "distinct_nontrivial": sum(s.get("jobs", 0) for s in samples),
                "rule": "operations = jobs x goroutines executed under the Go race detector on shared default parser, shared Parser value, the four predefined profiles and %s shared base URLs; every result compared with the result of the same call run alone; distinct_nontrivial counts the distinct generated jobs" % (samples[0].get("bases") if samples else "?"),
                "samples": samples[:2], "race_run": "go build -race; GORACE=halt_on_error=0"})
    return fails, cov
