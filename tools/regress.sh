#!/bin/bash
# tools/regress.sh [mutants|harmless|all] — regression of the checks themselves: every stored seeded change must be reported by
# the check of the property it was written for (quick tier), and every stored behaviour-preserving patch must be silent
# on all 20 checks. Sequential (the changes are applied to /repo's working tree and reverted). Writes .work/regress.log.
cd /verif
what=${1:-all}
log=.work/regress.log; : > $log
if [ $what = mutants ] || [ $what = all ]; then
  for d in seeded/S*/; do
    id=$(basename $d); prop=$(python3 -c "import json;print(json.load(open('$d/meta.json'))['property'])")
    out=$(tools/seedtest.sh $d/patch.diff $prop 2>&1)
    if echo "$out" | grep -q "^VIOLATION property=$prop"; then
      if echo "$out" | grep -q "no-failing-input-found"; then echo "MUTANT $id $prop caught:obligation-only" >> $log; else echo "MUTANT $id $prop caught:failing-input" >> $log; fi
    else echo "MUTANT $id $prop MISSED" >> $log; fi
  done
fi
if [ $what = harmless ] || [ $what = all ]; then
  for f in seeded/harmless/H*.diff; do
    id=$(basename $f .diff)
    out=$(tools/seedtest.sh $f C01 C02 C03 C04 C05 C06 C07 C08 C09 C10 C11 C12 C13 C14 C15 C16 C17 C18 C19 C20 2>&1)
    al=$(echo "$out" | grep "^VIOLATION" | sed 's/ replay=[^ ]*//' | tr '\n' ';')
    if [ -z "$al" ]; then echo "HARMLESS $id silent" >> $log; else echo "HARMLESS $id ALARMS: $al" >> $log; fi
  done
fi
echo done >> $log
