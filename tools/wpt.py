#!/usr/bin/env python3
"""Fidelity test of the Lean Spec against the WPT vectors that ship in /repo/testdata
(urltestdata.json, setters_tests.json). A mismatch here is a machinery failure (Spec transcription slip),
never a violation of a property."""
import json, os, sys
sys.path.insert(0, os.path.dirname(os.path.abspath(__file__)))
import t2

DEF_CFG = None


def default_cfg_tok():
    global DEF_CFG
    if DEF_CFG is None:
        import subprocess
        DEF_CFG = subprocess.run([t2.HARNESS, "cfgtok"], stdout=subprocess.PIPE, check=True).stdout.decode().strip()
    return DEF_CFG


def fix(s):
    # scalar value string: every lone surrogate becomes U+FFFD
    return "".join("\ufffd" if 0xD800 <= ord(c) <= 0xDFFF else c for c in s)


def enc(s):
    return "x" + fix(s).encode("utf-8").hex()


def dec(h):
    return bytes.fromhex(h).decode("utf-8", errors="replace")


GETTERS = ["href", "protocol", "username", "password", "host", "hostname", "port", "pathname", "search", "hash"]
SETTER_IDX = {"protocol": 0, "username": 1, "password": 2, "host": 3, "hostname": 4, "port": 5, "pathname": 6, "search": 7, "hash": 8}


def obs_fields(o):
    f = o.split("|")
    return {"href": dec(f[0]), "protocol": dec(f[2]), "username": dec(f[4]), "password": dec(f[5]), "host": dec(f[6]),
            "hostname": dec(f[7]), "port": dec(f[8]), "pathname": dec(f[10]), "search": dec(f[12]), "hash": dec(f[14])}


def last_obs(out, handle=0):
    cur = None
    for op in out.split("\t"):
        for t in op.split(" ")[1:]:
            if t.startswith("h%d=" % handle):
                cur = t.split("=", 1)[1]
    return cur


def main():
    cfg = default_cfg_tok()
    cases = []   # (id, ops string, expectation)
    data = json.load(open("/repo/testdata/urltestdata.json"))
    n = 0
    for e in data:
        if not isinstance(e, dict):
            continue
        n += 1
        base = e.get("base")
        if base is None:
            ops = "P %s %s" % (cfg, enc(e["input"]))
        else:
            ops = "PR %s %s %s" % (cfg, enc(base), enc(e["input"]))
        cases.append(("u%d" % n, ops, e))
    sdata = json.load(open("/repo/testdata/setters_tests.json"))
    for name, l in sdata.items():
        if name not in SETTER_IDX:
            continue
        for e in l:
            n += 1
            ops = "P %s %s ; S %d 0 %s" % (cfg, enc(e["href"]), SETTER_IDX[name], enc(e["new_value"]))
            cases.append(("s%d" % n, ops, e))
    hlines = ["%s H - %s" % (i, ops) for i, ops, _ in cases]
    _, tables = t2.run_with_oracle(hlines)
    slines = ["%s SH %s %s" % (i, "+".join(tables.get(i, [])) or "-", ops) for i, ops, _ in cases]
    res = t2.run_model(slines)
    bad = 0
    checked = 0
    for i, ops, e in cases:
        out = res.get(i, "")
        if out.startswith("SPECNEED"):
            print("UNDECIDED", i, e.get("input", e.get("href")))
            continue
        checked += 1
        if i.startswith("u"):
            first = out.split("\t")[0].split(" ")[0]
            if e.get("failure"):
                if first != "E":
                    bad += 1
                    print("SPEC/WPT mismatch (should fail)", i, repr(e["input"]), repr(e.get("base")), out[:100])
                continue
            if first == "E":
                bad += 1
                print("SPEC/WPT mismatch (should parse)", i, repr(e["input"]), repr(e.get("base")))
                continue
            got = obs_fields(last_obs(out))
            for g in GETTERS:
                if g in e and fix(e[g]) != got[g]:
                    bad += 1
                    print("SPEC/WPT mismatch", i, repr(e["input"]), repr(e.get("base")), g, "expected", repr(e[g]), "got", repr(got[g]))
                    break
        else:
            o = last_obs(out)
            if o is None:
                bad += 1
                print("SPEC/WPT setter: start url did not parse", i, e["href"])
                continue
            got = obs_fields(o)
            for g, v in e["expected"].items():
                if g in got and fix(v) != got[g]:
                    bad += 1
                    print("SPEC/WPT setter mismatch", i, repr(e["href"]), repr(e["new_value"]), g, "expected", repr(v), "got", repr(got[g]))
                    break
    print("wpt vectors checked on Spec:", checked, "mismatches:", bad)
    return 1 if bad else 0


if __name__ == "__main__":
    sys.exit(main())
