#!/bin/bash
# tools/seedtest.sh <patch.diff> <Cxx> [more properties…]
# applies a seeded change to /repo, runs the named checks (quick), and always restores /repo afterwards.
patch=$(realpath "$1"); shift
cd /repo || exit 2
if ! git diff --quiet; then echo "/repo is dirty"; exit 2; fi
git apply "$patch" || { echo "patch does not apply"; exit 2; }
# evidence written while the seeded change is applied must not survive
rm -rf /verif/.work/evidence.bak; cp -r /verif/evidence /verif/.work/evidence.bak
trap 'git -C /repo checkout -- . ; git -C /repo clean -fdq ; rm -f /verif/.work/stamp.json; rm -rf /verif/evidence; mv /verif/.work/evidence.bak /verif/evidence' EXIT
cd /verif
for p in "$@"; do
  out=$(VERIF_SEED=${VERIF_SEED:-1} ./bin/check $p ${TIER:-quick} 2>&1)
  rc=$?
  echo "$out" | grep -E "^VIOLATION|^$p " | cut -c1-260
  echo "   -> $p exit $rc"
done
