#!/bin/bash
# tools/automut.sh <dir with Mnn.diff> — which check catches each mechanical mutant? Applies each patch to /repo's working tree in
# turn (sequential; never run next to a sweep), runs the checks in a fixed order and stops at the first one that reports a
# violation WITH a failing input; prints one line per mutant. Mutants caught by no check are listed as MISSED (candidates
# for a generator hole — or a behaviour none of the 20 properties speaks about: triage by hand).
cd /verif
dir=$(realpath "$1"); log=.work/automut.log; : > $log
order="C01 C05 C02 C15 C16 C17 C18 C11 C12 C13 C03 C04 C06 C07 C08 C09 C10 C19 C14 C20"
for f in $dir/M*.diff; do
  id=$(basename $f .diff)
  (cd /repo && git apply --check $f 2>/dev/null) || { echo "$id DOES-NOT-APPLY" | tee -a $log; continue; }
  cd /repo && git apply $f && cd /verif
  rm -rf .work/evidence.bak; cp -r evidence .work/evidence.bak
  res=MISSED; obl=""
  for p in $order; do
    out=$(./bin/check $p quick 2>&1)
    if echo "$out" | grep -q "^VIOLATION property=$p"; then
      if echo "$out" | grep -q "no-failing-input-found"; then obl="$obl $p"; else res="caught:$p"; break; fi
    fi
  done
  git -C /repo checkout -- . ; git -C /repo clean -fdq; rm -f .work/stamp.json; rm -rf evidence; mv .work/evidence.bak evidence
  echo "$id $res obligation-only:[$obl ]" | tee -a $log
done
echo done >> $log
