#!/bin/bash
# tools/seedconfirm.sh <seed dir>…  — independent confirmation of a seeded change in a scratch worktree of /repo:
# the patch applies, builds (with and without -tags verif), vets, passes the whole existing suite; the demonstration fails
# with the change and passes without it. Writes <seed dir>/confirmed.json. The worktree is removed afterwards.
export GOFLAGS=-mod=mod GOPROXY=off GOSUMDB=off GOTOOLCHAIN=local
for d in "$@"; do
  d=$(realpath "$d"); id=$(basename "$d")
  wt=/tmp/seedconfirm-$id
  git -C /repo worktree remove --force $wt 2>/dev/null
  git -C /repo worktree add -q --detach $wt HEAD || { echo "$id: cannot create worktree"; continue; }
  pkg=url; grep -q "\./canonicalizer" $d/demo_test.go.txt && pkg=canonicalizer
  run=$(grep -oE "\-run [A-Za-z0-9]+" $d/demo_test.go.txt | head -1 | cut -d' ' -f2); run=${run:-TestSeedDemo}
  race=""; grep -q "go test -race" $d/demo_test.go.txt && race="-race" && export CGO_ENABLED=1
  cd $wt
  cp $d/demo_test.go.txt $pkg/zz_demo_test.go
  go test $race -vet=off -count=1 -run $run ./$pkg >/tmp/$id.without.txt 2>&1; without=$?
  rm $pkg/zz_demo_test.go
  git apply $d/patch.diff; applied=$?
  go build ./... >/dev/null 2>&1; b1=$?
  go build -tags verif ./... >/dev/null 2>&1; b2=$?
  go vet ./... >/dev/null 2>&1; v=$?
  go test -vet=off -count=1 ./... >/tmp/$id.suite.txt 2>&1; suite=$?
  cp $d/demo_test.go.txt $pkg/zz_demo_test.go
  go test $race -vet=off -count=1 -run $run ./$pkg >/tmp/$id.with.txt 2>&1; with=$?
  cd /verif
  git -C /repo worktree remove --force $wt
  ok=false; [ $applied = 0 ] && [ $b1 = 0 ] && [ $b2 = 0 ] && [ $v = 0 ] && [ $suite = 0 ] && [ $without = 0 ] && [ $with != 0 ] && ok=true
  printf '{"confirmed": %s, "repo_head": "%s", "patch_applies": %s, "go_build": %s, "go_build_tags_verif": %s, "go_vet": %s, "existing_suite_passes_with_change": %s, "demo_passes_without_change": %s, "demo_fails_with_change": %s, "demo_command": "go test %s -vet=off -count=1 -run %s ./%s (demo copied to %s/zz_demo_test.go)"}\n' \
    $ok $(git -C /repo rev-parse --short HEAD) $([ $applied = 0 ] && echo true || echo false) $([ $b1 = 0 ] && echo true || echo false) $([ $b2 = 0 ] && echo true || echo false) $([ $v = 0 ] && echo true || echo false) $([ $suite = 0 ] && echo true || echo false) $([ $without = 0 ] && echo true || echo false) $([ $with != 0 ] && echo true || echo false) "$race" $run $pkg $pkg > $d/confirmed.json
  echo "$id confirmed=$ok (apply=$applied build=$b1/$b2 vet=$v suite=$suite demo without=$without with=$with)"
  rm -f /tmp/$id.without.txt /tmp/$id.suite.txt /tmp/$id.with.txt
  unset CGO_ENABLED
done
