#!/bin/bash
# tools/coverage.sh [n] — how much of the Go code do the correspondence streams execute? Builds the harness with Go's
# coverage instrumentation for the two library packages, runs every stream once (seed VERIF_SEED or 1, n cases each,
# default 2500 = quick tier) and prints the statement coverage and the blocks never executed. Not part of any check:
# a measurement of generator quality for the tie between model and code (DESIGN §13.8).
export GOFLAGS=-mod=mod GOPROXY=off GOSUMDB=off GOTOOLCHAIN=local
n=${1:-2500}; seed=${VERIF_SEED:-1}
w=$(mktemp -d /var/tmp/vcov.XXXXXX); trap 'rm -rf $w' EXIT
cd /verif/harness && go build -tags verif -cover -coverpkg=./...,github.com/nlnwa/whatwg-url/... -o $w/vh . || exit 2
mkdir $w/cov
for s in C01 C02 C03 C04 C05 C06 C07 C08 C09 C10 C11 C12 C13 C15 C16 C17 C18 C19; do
  GOCOVERDIR=$w/cov $w/vh gen -stream $s -seed $seed -n $n -out $w/out >/dev/null 2>&1
done
go tool covdata percent -i=$w/cov | grep "whatwg-url/\(url\|canonicalizer\)"
go tool covdata textfmt -i=$w/cov -o $w/cov.txt
echo "never executed:"
grep "whatwg-url/\(url\|canonicalizer\)/" $w/cov.txt | grep -v verif_export | awk '$NF==0' | sed 's/.*whatwg-url\///' | sort -t: -k1,1 -k2,2n
