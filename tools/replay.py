"""bin/check Cxx --replay <file>: re-execute the failing history of a replay file on the Go code and on the model."""
import json, os, subprocess, sys
import t2


def main(prop, path):
    r = json.load(open(path))
    f = r.get("failing") or {}
    tokens = f.get("tokens", "")
    print("property:", r.get("property"), "kind:", r.get("kind"))
    print("what    :", f.get("what", f.get("go", "")))
    print("case    :", f.get("case", ""))
    if r.get("broken_obligations"):
        print("broken obligations:", json.dumps(r["broken_obligations"], indent=1)[:3000])
    if not tokens:
        return 0
    if tokens.startswith("vharness"):
        print("re-run:", tokens)
        return 0
    line = tokens if (" H " in tokens[:12] or tokens.split(" ")[1:2] in (["H"], ["LH"])) else None
    parts = tokens.split(" ")
    if len(parts) > 1 and parts[1] in ("H", "LH", "L4", "LE", "L6", "L6S", "L4S", "LENC", "LDEC", "LHAS", "LBIT", "LSPI", "LDE", "LRD"):
        line = tokens
    elif parts[0].startswith("L"):
        line = "r " + tokens
    else:
        line = "r H - " + tokens
    p = subprocess.run([t2.HARNESS, "exec"], input=line + "\n", stdout=subprocess.PIPE, text=True)
    print("go   :", p.stdout.strip()[:4000])
    lean, _ = t2.run_with_oracle([line])
    print("model:", "\t".join(lean.values())[:4000])
    return 0
