"""C20: allocation growth between n and 4n for every repetition family, measured on the Go code (search);
the theorems are the step bound (C02) and the classified inventory of loop-carried concatenations (Props/C20.lean)."""
import os, subprocess, json
import t2

LIMIT = 10.0   # quadratic growth gives 16, linear 4, n log n about 4.5; amortised doubling of a builder up to 8


def confirm_time(family, n, times=3):
    """wall time is the one measurement here that other load on the machine can distort (allocation counts are exact): a
    time-only failure must REPRODUCE — the family is measured again, alone, `times` more times, and counts only if every
    repetition shows the same superlinear growth. A genuinely quadratic family gives a ratio near 16 every time."""
    for _ in range(times):
        try:
            p = subprocess.run([t2.HARNESS, "cost", str(n), family], stdout=subprocess.PIPE, stderr=subprocess.PIPE, text=True,
                               env=dict(os.environ, GOGC="100", GOMEMLIMIT="6GiB"), timeout=1500)
        except subprocess.TimeoutExpired:
            return True
        if p.returncode != 0:
            return True
        ok = False
        for line in p.stdout.split("\n"):
            line = line.strip()
            if line.startswith("{") and '"starting"' not in line:
                try:
                    r = json.loads(line)
                except Exception:
                    continue
                if r.get("family") == family and r.get("time_ratio", 0) > LIMIT and r.get("time_ns_64n", 0) > 50_000_000:
                    ok = True
        if not ok:
            return False
    return True


def run(tier, seed, work, st):
    fails = []
    cov = {}
    if not st.get("harness_ok"):
        return fails, [], {"evaluations": 0, "distinct_nontrivial": 0}
    sizes = [2000] if tier == "quick" else [2000, 8000]
    rows_all = []
    for n in sizes:
        # one JSON object per line: {"starting": family} before each family, then its row. A memory limit and a time limit
        # keep a quadratic family from taking the machine down; the family being measured when the run died is reported.
        try:
            p = subprocess.run([t2.HARNESS, "cost", str(n)], stdout=subprocess.PIPE, stderr=subprocess.PIPE, text=True,
                               env=dict(os.environ, GOGC="100", GOMEMLIMIT="6GiB"), timeout=1500)
            out, rc = p.stdout, p.returncode
        except subprocess.TimeoutExpired as e:
            out, rc = (e.stdout.decode() if isinstance(e.stdout, bytes) else (e.stdout or "")), -9
        rows, current = [], None
        for line in out.split("\n"):
            line = line.strip()
            if not line.startswith("{"):
                continue
            try:
                obj = json.loads(line)
            except Exception:
                continue
            if "starting" in obj:
                current = obj["starting"]
            else:
                rows.append(obj)
                current = None
        if rc != 0 or current is not None:
            fails.append({"property": "C20", "class": "cost-run-died:" + str(current),
                          "what": "the cost measurement was killed or timed out (exit %s) while measuring family %s at n=%d: memory or time blew up" % (rc, current, n),
                          "case": json.dumps({"family": current, "n": n, "exit": rc}), "tokens": "vharness cost %d  # family %s" % (n, current)})
        rows_all += rows
        for r in rows:
            ratio = max(r["alloc_ratio"], r["mallocs_ratio"])
            # the work done: wall time between 16n and 64n (minimum of three runs each); judged only when the larger run took
            # long enough (50 ms) for the ratio to be more than timer noise — a linear family at these sizes takes a few ms
            if r.get("time_ratio", 0) > LIMIT and r.get("time_ns_64n", 0) > 50_000_000 and confirm_time(r["family"], n):
                fails.append({"property": "C20", "class": "superlinear-time:" + r["family"],
                              "what": "%s (%s): time grows by a factor %.1f from 16n to 64n (n=%d): %.1f ms -> %.1f ms" % (r["family"], r["op"], r["time_ratio"], r["n"], r["time_ns_16n"] / 1e6, r["time_ns_64n"] / 1e6),
                              "case": json.dumps(r), "tokens": "vharness cost %d  # family %s" % (n, r["family"])})
            if ratio > LIMIT:
                fails.append({"property": "C20", "class": "superlinear:" + r["family"],
                              "what": "%s (%s): allocation grows by a factor %.1f (bytes) / %.1f (mallocs) from n=%d to 4n" % (r["family"], r["op"], r["alloc_ratio"], r["mallocs_ratio"], r["n"]),
                              "case": json.dumps(r), "tokens": "vharness cost %d  # family %s" % (n, r["family"])})
    cov.update({"evaluations": len(rows_all), "distinct_nontrivial": len(set(r["family"] for r in rows_all if r["alloc_n"] > 0)),
                "rule": "one measurement per repetition family and size: runtime.MemStats TotalAlloc/Mallocs deltas around the operation for n and 4n (GC forced before); a family is linear when both ratios are <= %.0f and its wall time (minimum of three runs) between 16n and 64n grows by at most the same factor (judged only when the larger run takes more than 50 ms, and only when the growth reproduces in three further measurements of that family alone); distinct_nontrivial = families with a non-zero allocation" % LIMIT,
                "samples": rows_all[:3], "growth_table": [{k: r.get(k) for k in ("family", "op", "n", "alloc_ratio", "mallocs_ratio", "time_ratio", "time_ns_64n")} for r in rows_all]})
    return fails, [], cov
