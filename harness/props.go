package main

// per-property streams and oracles are registered here
func propStream(name string, r *Rand, n int, o *Out) bool { return false }
func extraCommand(cmd string, args []string) bool       { return false }
