package main

// Per-property streams: the cases of the property-scoped correspondence (T2) together with the direct
// oracle of the property evaluated on the Go objects while the cases are executed.

import (
	"fmt"
	"os"
	"sort"
	"strings"

	"golang.org/x/text/encoding/charmap"

	"github.com/nlnwa/whatwg-url/canonicalizer"
	"github.com/nlnwa/whatwg-url/errors"
	"github.com/nlnwa/whatwg-url/url"
)

func extraCommand(cmd string, args []string) bool {
	switch cmd {
	case "cfgtok":
		fmt.Println(defaultCfg.Tok)
		return true
	case "exec":
		execCommand()
		return true
	case "cost":
		return costCommand(args)
	case "race":
		return raceCommand(args)
	case "facts":
		return factsCommand(args)
	case "modref":
		u, c, st := modref()
		fmt.Println(strings.Join(u, "\n"))
		fmt.Println(strings.Join(c, "\n"))
		fmt.Println(st)
		return true
	}
	return false
}

func defaultHist(check ...string) HistOpts {
	m := map[string]bool{}
	for _, c := range check {
		m[c] = true
	}
	return HistOpts{Cfg: onlyDefault, Setters: true, Resolve: true, Clone: false, MinOps: 0, MaxOps: 6, Check: m}
}

func propStream(name string, r *Rand, n int, o *Out) bool {
	defer orc.Write(o.dir)
	switch name {
	case "C01":
		streamC01(r, n, o)
	case "C02":
		streamC02(r, n, o)
	case "C03X":
	case "C03":
		// histories run on the Go code only (oracle after every step); the correspondence cases are the reached states:
		// their serialization (LOBS) and the parse of that serialization
		stateOut = o
		streamCorpusChecked(nil, "C03")
		exhaustiveChecked("C03")
		setterPairs(r, n, func(h *Hist) {}, "C03")
		for i := 0; i < n; i++ {
			randomHistory(r.Fork(), defaultHist("C03"))
		}
	case "C04":
		stateOut = o
		streamCorpusChecked(nil, "C04")
		exhaustiveChecked("C04")
		setterPairs(r, n, func(h *Hist) {}, "C04")
		for i := 0; i < n; i++ {
			randomHistory(r.Fork(), defaultHist("C04"))
		}
	case "C05":
		streamC05(r, n, o)
	case "C06":
		streamC06(r, n, o)
	case "C07":
		streamC07(r, n, o)
	case "C08":
		streamC08(r, n, o)
	case "C09":
		streamC09(r, n, o)
	case "C10":
		streamC10(r, n, o)
	case "C11":
		streamC11(r, n, o)
	case "C12":
		streamC12(r, n, o)
	case "C13":
		streamC13(r, n, o)
	case "C15":
		streamC15(r, n, o)
	case "C16":
		streamC16(r, n, o)
	case "C17":
		streamC17(r, n, o)
	case "C18":
		streamC18(r, n, o)
	case "C19":
		stateOut = o
		streamCorpusChecked(nil, "C19")
		exhaustiveChecked("C19")
		// every host of the pools, as a special and as a non-special host, through parse, the hostname setter, resolve and
		// clone: the derived accessors (IsIPv4 / IsIPv6 / DecodedPort …) on hosts that only LOOK like addresses
		for _, hs := range append(append([]string{}, weirdHosts...), "1.2.3.4", "0x7f.1", "1.2.3", "256.1.1.1", "[::1]", "[1:2::3.4.5.6]", "1.2.3.4.5", "999", "1.2.3.4:80", "h:65535", "h:0") {
			h := &Hist{Check: map[string]bool{"C19": true}}
			h.ParsePkg("http://" + hs + "/p")
			h.ParsePkg("sc://" + hs + "/p")
			if k := h.ParsePkg("https://start.example:8/x?q#f"); k >= 0 {
				h.Set(k, 4, hs)
				h.Resolve(k, "../y")
				h.Clone(k)
				h.Set(k, 3, hs)
			}
		}
		// parsers with their own special-scheme table (as the Semantic profile has): "the scheme's default port" and "special" are
		// the table's — through parse, the protocol and port setters, clone and resolution
		for _, tbl := range []map[string]string{gopherSchemes, {"http": "8080", "https": "443", "file": "", "ipfs": ""}} {
			c := newCfg("specialSchemes:c19", url.NewParser(url.WithSpecialSchemes(tbl)), 0, 0)
			schemes := []string{"http", "https", "ftp", "gopher", "ipfs", "ws", "sc"}
			for _, sch := range schemes {
				for _, port := range []string{"", ":80", ":8080", ":70", ":21", ":0", ":443"} {
					h := &Hist{}
					k := h.Parse(c, sch+"://1.2.3.4"+port+"/x")
					if k < 0 {
						continue
					}
					checkAccessorsTbl(h.urls[k], tbl, strings.Join(h.ops, " ; "))
					to := schemes[(len(sch)+len(port))%len(schemes)]
					h.Set(k, 0, to)
					checkAccessorsTbl(h.urls[k], tbl, strings.Join(h.ops, " ; "))
					if c2 := h.Clone(k); c2 >= 0 {
						checkAccessorsTbl(h.urls[c2], tbl, strings.Join(h.ops, " ; "))
					}
					if r2 := h.Resolve(k, "/y"); r2 >= 0 {
						checkAccessorsTbl(h.urls[r2], tbl, strings.Join(h.ops, " ; "))
					}
					h.Set(k, 5, "")
					checkAccessorsTbl(h.urls[k], tbl, strings.Join(h.ops, " ; "))
					o.EmitHist("t", h)
				}
			}
		}
		// the accessors under every single parser option (other than lax host parsing and the host hooks, which change what a
		// host may look like): urls of every shape, every setter with values that would change the shape, clone, resolution
		for i := range optSpecs {
			// (fail mode is excluded too: there a setter stops at the first validation error and leaves the url half-way —
			// `sc:/p` + SetPathname("C|") is `sc:` with an empty non-opaque path; recorded in DESIGN 13.4, outside the
			// property's default-parser histories)
			if nm := optSpecs[i].Name; nm == "LaxHostParsing" || nm == "PreParseHostFunc" || nm == "PostParseHostFunc" || nm == "FailOnValidationError" {
				continue
			}
			c := cfgFromMask(r.Fork(), 1<<uint(i))
			tbl := c.Opts.SpecialSchemes
			for _, st := range []string{"mailto:user@example.com", "sc:op ?q#f", "data:x", "sc:/p", "sc://h/p", "http://h:8/p?q#f", "file:///C:/x", "http://1.2.3.4/"} {
				for setter := 0; setter < 9; setter++ {
					for _, v := range []string{"/inbox", "//h2/x", "", "x", "C|", "h2:1", "file", "sc", "[::1]", "?", "#"} {
						h := &Hist{}
						k := h.Parse(c, st)
						if k < 0 {
							continue
						}
						h.Set(k, setter, v)
						checkAccessorsTbl(h.urls[k], tbl, strings.Join(h.ops, " ; "))
						if c2 := h.Clone(k); c2 >= 0 {
							checkAccessorsTbl(h.urls[c2], tbl, strings.Join(h.ops, " ; "))
						}
						if r2 := h.Resolve(k, "y"); r2 >= 0 {
							checkAccessorsTbl(h.urls[r2], tbl, strings.Join(h.ops, " ; "))
						}
						if setter == 6 || v == "/inbox" {
							o.EmitHist("o", h)
						}
					}
				}
			}
		}
		for i := 0; i < n; i++ {
			ho := defaultHist("C19")
			ho.Clone = true
			randomHistory(r.Fork(), ho)
		}
	default:
		return false
	}
	return true
}

// exhaustiveChecked: EVERY string over the structural alphabet up to length 3 (thorough, first seed: 4) as an input
// after three prefixes and as a reference against three bases, and up to length 2 (3) as the value of every setter on
// three start urls — with the property's oracle evaluated on every reached state (round trip, well-formedness,
// accessors), and the reached states handed to the correspondence.
func exhaustiveChecked(prop string) {
	alphabet := []string{"a", "C", ":", "/", "\\", "?", "#", "@", ".", "%", "2", "e", "[", "]", " ", "|", "\t", "0", "é"}
	maxLen := 3
	if v := os.Getenv("VERIF_EXHAUSTIVE"); v != "" {
		fmt.Sscan(v, &maxLen)
	}
	if maxLen <= 0 {
		return
	}
	var all []string
	var gen func(prefix string, depth int)
	gen = func(prefix string, depth int) {
		if depth > 0 {
			all = append(all, prefix)
		}
		if depth < maxLen {
			for _, a := range alphabet {
				gen(prefix+a, depth+1)
			}
		}
	}
	gen("", 0)
	for _, w := range all {
		h := &Hist{Check: map[string]bool{prop: true}}
		h.ParsePkg("a:" + w)
		h.ParsePkg("http:" + w)
		h.ParsePkg("http://h" + w)
		h.ParsePkg("file:" + w)
		h.ParseRefPkg("http://u:p@h:8/p/q?r#s", w)
		h.ParseRefPkg("file:///C:/d/e", w)
		h.ParseRefPkg("sc:/p/q", w)
		if len([]rune(w)) <= maxLen-1 {
			for _, st := range []string{"https://u:p@h:8/a/b?q#f", "file:///C:/x", "sc:opaque ?q#f"} {
				for setter := 0; setter < 9; setter++ {
					if k := h.ParsePkg(st); k >= 0 {
						h.Set(k, setter, w)
					}
				}
			}
		}
	}
}

func streamCorpusChecked(o *Out, prop string) {
	for _, c := range loadWPT() {
		h := &Hist{Check: map[string]bool{prop: true}}
		if c.Base != nil {
			h.ParseRefPkg(*c.Base, c.Input)
		} else {
			h.ParsePkg(c.Input)
		}
		if o != nil {
			o.EmitHist("w", h)
		}
	}
	for name, l := range loadSetterWPT() {
		k := setterIndex(name)
		if k < 0 {
			continue
		}
		for _, c := range l {
			h := &Hist{Check: map[string]bool{prop: true}}
			if u := h.ParsePkg(c.Href); u >= 0 {
				h.Set(u, k, c.NewValue)
			}
			if o != nil {
				o.EmitHist("s", h)
			}
		}
	}
}

func setterIndex(name string) int {
	for i, s := range setterNames {
		if s == name {
			return i
		}
	}
	return -1
}

// ---- C01 ---------------------------------------------------------------------------------------------

func streamC01(r *Rand, n int, o *Out) {
	streamCorpus(o)
	// every reference shape against every base kind, through (*Url).Parse
	for _, b := range basePool {
		h := &Hist{}
		if k := h.ParsePkg(b); k >= 0 {
			for _, ref := range relPool {
				h.Resolve(k, ref)
			}
		}
		o.EmitHist("x", h)
	}
	// every host of the pool (boundary numbers, zero-padded numbers, IPv6 literals with tied zero runs and digit-count
	// boundaries, forbidden code points …) under a special, the file and a non-special scheme, and through the host setter:
	// deterministic, so that a catch does not depend on a draw
	for _, hs := range weirdHosts {
		h := &Hist{}
		h.ParsePkg("http://" + hs + "/p")
		h.ParsePkg("file://" + hs + "/p")
		h.ParsePkg("sc://" + hs + "/p")
		if k := h.ParsePkg("https://start.example/x"); k >= 0 {
			h.Set(k, 3, hs)
			h.Resolve(k, "//"+hs+"/y")
		}
		o.EmitHist("w", h)
	}
	// exhaustive: EVERY string over the structural alphabet up to a length that grows with the budget (quick: 3,
	// thorough: 4), parsed alone, after "a:" / "http:" / "file:" prefixes chosen so that every state is entered, and as a
	// reference against one base of each kind. Systematic where the grammar generator is random: all short paths through
	// the state machine (delimiter orders, empty components, drive letters, dot segments, brackets, escapes).
	alphabet := []string{"a", "C", ":", "/", "\\", "?", "#", "@", ".", "%", "2", "e", "[", "]", " ", "|", "\t", "-", "é"}
	maxLen := 3
	if v := os.Getenv("VERIF_EXHAUSTIVE"); v != "" { // bin/check: 4 for the first seed of the thorough tier, 0 for its other seeds
		fmt.Sscan(v, &maxLen)
	}
	exhaustiveBases := []string{"http://h/p/q?r#s", "file:///C:/d/e", "sc://h/p", "sc:opaque", "sc:/p/q"}
	var gen func(prefix string, depth int)
	cnt := 0
	gen = func(prefix string, depth int) {
		if depth > 0 {
			h := &Hist{}
			h.ParsePkg(prefix)
			h.ParsePkg("a:" + prefix)
			h.ParsePkg("http:" + prefix)
			if depth <= 3 {
				h.ParsePkg("file:" + prefix)
				h.ParsePkg("http://h" + prefix)
				for _, b := range exhaustiveBases {
					h.ParseRefPkg(b, prefix)
				}
			}
			o.EmitHist("e", h)
			cnt++
		}
		if depth == maxLen {
			return
		}
		for _, a := range alphabet {
			gen(prefix+a, depth+1)
		}
	}
	gen("", 0)
	for i := 0; i < n; i++ {
		rr := r.Fork()
		h := &Hist{}
		switch i % 5 {
		case 0:
			h.ParsePkg(genInput(rr))
		case 1:
			h.ParseRefPkg(genBase(rr), genRef(rr, ""))
		case 2:
			h.ParseRef(defaultCfg, genBase(rr), genRef(rr, ""))
		case 3:
			if k := h.Parse(defaultCfg, genBase(rr)); k >= 0 {
				h.Resolve(k, genRef(rr, h.urls[k].Scheme()))
				if rr.P(30) {
					h.Resolve(k, genRef(rr, h.urls[k].Scheme()))
				}
			}
		default:
			h.ParseRefPkg(genInput(rr), genInput(rr))
		}
		o.EmitHist("p", h)
	}
}

// ---- C02 ---------------------------------------------------------------------------------------------

func streamC02(r *Rand, n int, o *Out) {
	check := func(h *Hist) {
		orc.Eval("C02")
		if h.panics > 0 {
			orc.Fail("C02", "panic", "panic: "+lastPanic, strings.Join(h.ops, " ; "))
		}
	}
	for i := 0; i < n; i++ {
		rr := r.Fork()
		var h *Hist
		switch i % 6 {
		case 0:
			h = randomHistory(rr, allOps(randomCfg))
		case 1:
			h = &Hist{}
			p := randomProf(rr)
			in := genInput(rr)
			if rr.P(30) {
				in = genGarbage(rr)
			}
			k := h.CanonParse(p, in)
			if k >= 0 {
				h.CanonParse(p, h.urls[k].Href(false))
				h.Set(k, rr.N(9), genGarbage(rr))
			}
			h.CanonParseRef(p, genBase(rr), genRef(rr, ""))
		case 2:
			h = &Hist{}
			c := randomCfg(rr)
			h.ParseRef(c, genInput(rr), genInput(rr))
			h.ParseRef(c, genGarbage(rr), genGarbage(rr))
			h.Parse(c, genGarbage(rr))
		case 3:
			// the option most likely to matter next to invalid bytes
			h = &Hist{}
			c := cfgFromMask(rr, (1<<4)|uint32(rr.N(1<<uint(len(optSpecs)))))
			in := "http://" + r.Pick(weirdHosts) + genGarbage(rr) + "/"
			h.Parse(c, in)
			h.ParseRef(c, r.Pick(basePool), genRef(rr, ""))
		case 4:
			h = randomHistory(rr, allOps(func(r *Rand) *Cfg { return cfgFromMask(r, uint32(r.N(1<<uint(len(optSpecs))))) }))
		default:
			h = randomHistory(rr, allOps(onlyDefault))
		}
		check(h)
		o.EmitHist("t", h)
	}
	// deterministic: url values of every unusual SHAPE (empty path list, no host, opaque path, drive letters — reached by
	// parsing under an option or by a setter that stops half-way) used as the base of every kind of reference and as the
	// target of a second setter, under the default parser, every single option, and the diagnostic pairs. (A catch must not
	// depend on a draw: the empty-path file base of wave 9's S92 came only from random histories before.)
	{
		cfgs := []*Cfg{defaultCfg, cfgFail, cfgReportFail}
		for i := range optSpecs {
			cfgs = append(cfgs, cfgFromMask(r.Fork(), 1<<uint(i)))
			if i >= 2 && (optSpecs[i].Name == "SkipTrailingSlashNormalization" || optSpecs[i].Name == "AllowSettingPathForNonBaseUrl" || optSpecs[i].Name == "CollapseConsecutiveSlashes") {
				cfgs = append(cfgs, cfgFromMask(r.Fork(), (1<<uint(i))|2))
			}
		}
		starts := []string{"file://host", "file://", "file://h?q", "file://h#f", "file:///C:/a", "file:///C|/a", "sc://h", "sc:", "sc:op", "http://h", "sc:/", "file:", "http://h/a/b", "sc://h/..", "file:///"}
		type pre struct {
			setter int
			v      string
		}
		pres := []pre{{-1, ""}, {6, "a b"}, {6, ""}, {6, "\\"}, {6, "C|"}, {3, ""}, {0, "file"}, {0, "sc"}, {0, "http"}, {7, ""}, {8, ""}, {4, ""}, {5, ""}}
		refs := []string{"/x", "\\x", "/", "x", "?q", "#f", "//h2", "/C:/a", "", "..", "C|/x", "file:/y", "./"}
		for _, c := range cfgs {
			for _, st := range starts {
				for _, p := range pres {
					h := &Hist{}
					k := h.Parse(c, st)
					if k < 0 {
						break
					}
					if p.setter >= 0 {
						h.Set(k, p.setter, p.v)
					}
					for _, ref := range refs {
						h.Resolve(k, ref)
					}
					h.Set(k, 6, "/C|/..")
					h.Set(k, 3, "h:1")
					check(h)
					o.Count("shape_histories")
					o.EmitHist("s", h)
				}
			}
		}
	}
	// very long inputs (the property names them), on the Go code only — the model is not asked to replay a 256 KB string:
	// every repetition family, as input, base, reference and setter value, under the default parser, two option sets and
	// the four predefined profiles. A panic is recovered and reported; a hang is seen by the watchdog.
	{
		size := 1 << 15
		if n >= 20000 {
			size = 1 << 18
		}
		rep := func(s string) string { return strings.Repeat(s, size/len(s)+1) }
		longs := []string{"http://h/" + rep("a/"), "http://h/" + rep("../"), "http://h/" + rep("%2e%2E/"), "http://" + rep("a") + "/", "http://" + rep("a.") + "com/",
			"http://" + rep("u:p@") + "h/", "http://h:" + rep("9") + "/", "http://[" + rep("1:") + "]/", "http://" + rep("1.") + "1/", "http://h/?" + rep("a=b&"),
			"http://h/?" + rep("%2525"), "http://h/#" + rep("\xff"), rep("x") + "://h/", rep(" ") + "http://h/" + rep("\t"), "sc:" + rep("opaque "), "file:" + rep("/"),
			"file://" + rep("C|"), rep("\\"), rep("%"), rep("\xf0\x9f"), "http://h/" + rep("\u00e9"), "http://" + rep("%41") + "/", "http://" + rep("xn--") + "a/"}
		cfgs := []*Cfg{defaultCfg, cfgReportFail, cfgFromMask(NewRand(3), (1<<2)|(1<<3)|(1<<4)|(1<<7))}
		for _, in := range longs {
			h := &Hist{}
			for _, c := range cfgs {
				if k := h.Parse(c, in); k >= 0 {
					h.Resolve(k, in)
					h.Set(k, 6, in)
					h.Set(k, 3, in)
					h.Set(k, 7, in)
				}
				h.ParseRef(c, "http://u:p@h:8/a/b?q#f", in)
			}
			for _, p := range predefinedProfiles {
				h.CanonParse(p, in)
			}
			check(h)
			o.Count("very_long_inputs")
		}
	}
	if n >= 20000 {
		// thorough tier: a stride through all 2^19 subsets of the option constructors on a fixed input pool
		streamC02Subsets(r, o, 41+r.N(7))
	}
}

// all subsets of the option constructors on a fixed input pool (thorough tier of C02)
func streamC02Subsets(r *Rand, o *Out, stride int) {
	pool := []string{"http://a\xff\xfeb/", "file://h", "http://u:p@[::1]:80/a/../b//c?q#f", "sc://%/x?'#`", "http://ex%41mple.com./C|/", "  ht\ttp://1.0x2.03/%%", "//x", "file:///C|/a", "x:opaque path ?q"}
	for mask := 0; mask < 1<<uint(len(optSpecs)); mask += stride {
		c := cfgFromMask(r, uint32(mask))
		h := &Hist{}
		for _, in := range pool {
			if k := h.Parse(c, in); k >= 0 {
				h.Resolve(k, "/x")
				h.Set(k, 3, "h\xff\xfe:1")
			}
		}
		orc.Eval("C02")
		if h.panics > 0 {
			orc.Fail("C02", "panic", "panic: "+lastPanic, strings.Join(h.ops, " ; "))
		}
		o.EmitHist("o", h)
	}
}

// ---- C05 ---------------------------------------------------------------------------------------------

func streamC05(r *Rand, n int, o *Out) {
	streamCorpus(o)
	setterPairs(r, n, func(h *Hist) { o.EmitHist("q", h) }, "")
	// exhaustive: every value over the structural alphabet up to length 2 (thorough, first seed: 3), through each of the
	// nine setters, on one start url of each kind (each call on a fresh parse: the state overrides' short paths)
	{
		alphabet := []string{"a", "C", ":", "/", "\\", "?", "#", "@", ".", "%", "2", "[", "]", " ", "|", "\t", "0", "é"}
		maxLen := 2
		if v := os.Getenv("VERIF_EXHAUSTIVE"); v != "" {
			fmt.Sscan(v, &maxLen)
			if maxLen > 0 {
				maxLen--
			}
		}
		starts := []string{"http://u:p@h:8/a/b?q#f", "file:///C:/x", "sc://h/p?q#f", "sc:opaque ?q#f", "sc:/p", "http://h/"}
		var vals []string
		var gen func(prefix string, depth int)
		gen = func(prefix string, depth int) {
			vals = append(vals, prefix)
			if depth < maxLen {
				for _, a := range alphabet {
					gen(prefix+a, depth+1)
				}
			}
		}
		if maxLen > 0 {
			gen("", 0)
		}
		for _, st := range starts {
			for setter := 0; setter < 9; setter++ {
				for i := 0; i < len(vals); i += 40 {
					h := &Hist{}
					end := i + 40
					if end > len(vals) {
						end = len(vals)
					}
					for _, v := range vals[i:end] {
						if k := h.ParsePkg(st); k >= 0 {
							h.Set(k, setter, v)
						}
					}
					o.EmitHist("e", h)
				}
			}
		}
	}
	for i := 0; i < n; i++ {
		rr := r.Fork()
		ho := defaultHist()
		ho.Resolve = false
		ho.MinOps, ho.MaxOps = 1, 6
		o.EmitHist("h", randomHistory(rr, ho))
	}
}

// ---- C06 ---------------------------------------------------------------------------------------------

func stripForScheme(s string) string {
	// leading/trailing C0 or space, then tab/newline removal
	i, j := 0, len(s)
	for i < j && s[i] <= 0x20 {
		i++
	}
	for j > i && s[j-1] <= 0x20 {
		j--
	}
	s = s[i:j]
	s = strings.NewReplacer("\t", "", "\n", "", "\r", "").Replace(s)
	return s
}

func hasScheme(ref string) bool {
	s := stripForScheme(ref)
	if len(s) == 0 || !((s[0] >= 'a' && s[0] <= 'z') || (s[0] >= 'A' && s[0] <= 'Z')) {
		return false
	}
	for i := 1; i < len(s); i++ {
		c := s[i]
		if c == ':' {
			return true
		}
		if !((c >= 'a' && c <= 'z') || (c >= 'A' && c <= 'Z') || (c >= '0' && c <= '9') || c == '+' || c == '-' || c == '.') {
			return false
		}
	}
	return false
}

func sameResult(u1 *url.Url, e1 error, u2 *url.Url, e2 error) bool {
	if (e1 != nil) != (e2 != nil) {
		return false
	}
	if e1 != nil {
		return true
	}
	return getters(u1) == getters(u2)
}

func checkC06(baseStr, ref string) {
	b, err := url.Parse(baseStr)
	if err != nil {
		return
	}
	checkC06On(b, baseStr, ref, "PR "+defaultCfg.Tok+" "+xs(baseStr)+" "+xs(ref))
}

// checkC06On evaluates the laws for one reference against the base VALUE b (which may already have been used as a base)
func checkC06On(b *url.Url, baseStr, ref, tok string) {
	orc.Eval("C06")
	u1, e1 := url.ParseRef(baseStr, ref)
	u2, e2 := defaultCfg.Parser.ParseRef(baseStr, ref)
	u3, e3 := b.Parse(ref)
	if !sameResult(u1, e1, u2, e2) || !sameResult(u1, e1, u3, e3) {
		orc.Fail("C06", "entry-points-disagree", "ParseRef / Parser.ParseRef / (*Url).Parse differ", tok)
	}
	d := url.VerifDump(b)
	s := stripForScheme(ref)
	switch {
	case s == "":
		if d.Opaque {
			if e3 == nil {
				orc.Fail("C06", "opaque-base-accepts", "empty reference accepted by a base with an opaque path", tok)
			}
		} else if e3 != nil || u3.Href(false) != b.Href(true) {
			orc.Fail("C06", "empty-reference", "empty reference does not yield the base without fragment", tok)
		}
	case s[0] == '#':
		if e3 != nil || u3.Href(true) != b.Href(true) {
			orc.Fail("C06", "fragment-reference", "'#f' reference changed more than the fragment", tok)
		}
	case s[0] == '?' && !d.Opaque:
		if e3 != nil {
			orc.Fail("C06", "query-reference", "'?q' reference rejected", tok)
		} else {
			g, gb := getters(u3), getters(b)
			if g.Protocol != gb.Protocol || g.Username != gb.Username || g.Password != gb.Password || g.Host != gb.Host || g.Pathname != gb.Pathname {
				orc.Fail("C06", "query-reference", "'?q' reference changed scheme/credentials/host/port/path", tok)
			}
			if !strings.Contains(s, "#") && g.Hash != "" {
				orc.Fail("C06", "query-reference", "'?q' reference kept the fragment", tok)
			}
		}
	}
	// the RESULT of a resolution is a url like any other: its serialization resolves to itself (a state only a resolution
	// reaches — a component that the relative states write differently from the absolute ones — shows here)
	if e3 == nil {
		checkC06Self(u3, b, tok+" ; R-self")
	}
	if !hasScheme(ref) {
		if d.Opaque && !(len(s) > 0 && s[0] == '#') && e3 == nil {
			orc.Fail("C06", "opaque-base-accepts", "relative reference accepted by a base with an opaque path", tok)
		}
		if e3 == nil && u3.Scheme() != b.Scheme() {
			orc.Fail("C06", "scheme-not-inherited", "relative reference without scheme changed the scheme", tok)
		}
	}
}

// the serialization of u resolves to u itself against any base
func checkC06Self(u *url.Url, b *url.Url, tok string) {
	orc.Eval("C06.self")
	v, err := b.Parse(u.Href(false))
	if err == nil && getters(v) == getters(u) {
		return
	}
	if stdNonRoundTrip(u) {
		return
	}
	class := "self-resolution"
	if hasAceLabel(u.Hostname()) && (err != nil || v.Hostname() != u.Hostname()) {
		class = "idn-host"
	}
	orc.Fail("C06", class, fmt.Sprintf("%s against %s", q(u.Href(false)), q(b.Href(false))), tok)
}

// crossBases: base strings that parsers with different options read differently (consecutive slashes, a port that is the
// default only under a custom table, a '|' drive letter, a lone '%', an empty file path, a host only the lax parser accepts)
var crossBases = []string{"http://example.com/a//b/c?x#y", "gopher://h:70/a/b?q#f", "file:///C|/d/e?q#f", "http://h/a%zz/b%?q%#f%", "file://h", "http://h/a/b/", "sc://h:70/p//q/",
	"http://a b/x/y?q#f", "http://h/\xff/y?\xfe#f", "http://u:p@h:80/p?a'b#`", "sc:/a//b|/c", "http://h//", "file:////x//y"}
var crossRefs = []string{"", "d", "?q2", "#f2", "../e", "/r//s", "//h2:70/z", "?", "x//y"}

// checkC06Cfg: the agreement of the entry points under ONE parser c: resolving against the base string equals parsing the
// base with that parser and resolving against the value
func checkC06Cfg(c *Cfg, baseStr, ref, tok string) {
	orc.Eval("C06")
	u1, e1 := c.Parser.ParseRef(baseStr, ref)
	b, eb := c.Parser.Parse(baseStr)
	var u2 *url.Url
	var e2 error
	if eb != nil {
		e2 = eb
	} else {
		u2, e2 = b.Parse(ref)
	}
	if !sameResult(u1, e1, u2, e2) {
		orc.Fail("C06", "entry-points-disagree", "Parser.ParseRef(base string) differs from Parser.Parse(base).Parse(ref) under parser "+c.Name, tok)
	}
}

// crossParsers: the laws hold for EVERY parser, whatever other parsers of the process did before: parsers with different
// options take turns on the same base string (both orders, the package-level functions in between)
func crossParsers(r *Rand, o *Out) {
	cfgs := []*Cfg{defaultCfg}
	for i := range optSpecs {
		cfgs = append(cfgs, cfgFromMask(r.Fork(), 1<<uint(i)))
	}
	for _, base := range crossBases {
		for i, a := range cfgs {
			b := cfgs[(i+1)%len(cfgs)]
			ref := crossRefs[i%len(crossRefs)]
			for _, pair := range [][2]*Cfg{{a, b}, {b, a}, {a, defaultCfg}, {defaultCfg, a}} {
				x, y := pair[0], pair[1]
				x.Parser.ParseRef(base, "d")
				tok := "PR " + x.Tok + " " + xs(base) + " " + xs("d") + " ; PR " + y.Tok + " " + xs(base) + " " + xs(ref)
				checkC06Cfg(y, base, ref, tok)
				if y == defaultCfg {
					x.Parser.ParseRef(base, "d")
					checkC06(base, ref)
				}
			}
			h := &Hist{}
			h.ParseRef(a, base, "d")
			h.ParseRef(b, base, ref)
			h.ParseRefPkg(base, ref)
			h.ParseRef(a, base, ref)
			o.EmitHist("c", h)
		}
	}
}

func streamC06(r *Rand, n int, o *Out) {
	crossParsers(r, o)
	for _, b := range basePool {
		h := &Hist{}
		k := h.ParsePkg(b)
		// the same base value is reused for every reference: a resolution must not leave anything behind in it
		shared, serr := url.Parse(b)
		toks := "P " + defaultCfg.Tok + " " + xs(b)
		// … and a base value whose parameter list has been materialised by a read-only use (Has): resolving against it must
		// give what resolving against the base string gives (the list is a cache of the query, not a second source of truth)
		used, uerr := url.Parse(b)
		utoks := "P " + defaultCfg.Tok + " " + xs(b) + " ; G 0"
		if uerr == nil {
			used.SearchParams().Has("x")
		}
		h2 := &Hist{}
		k2 := h2.ParsePkg(b)
		if k2 >= 0 {
			h2.Grab(k2)
		}
		for _, ref := range relPool {
			checkC06(b, ref)
			if serr == nil {
				toks += " ; R 0 " + xs(ref)
				checkC06On(shared, b, ref, toks)
			}
			if uerr == nil {
				checkC06On(used, b, ref, utoks+" ; R 0 "+xs(ref))
			}
			if k >= 0 {
				h.Resolve(k, ref)
			}
			if k2 >= 0 && (ref == "" || strings.HasPrefix(ref, "#") || strings.HasPrefix(ref, "?") || len(ref) < 4) {
				h2.Resolve(k2, ref)
			}
		}
		o.EmitHist("x", h)
		o.EmitHist("x", h2)
	}
	for i := 0; i < n; i++ {
		rr := r.Fork()
		base := genBase(rr)
		ref := genRef(rr, "")
		if rr.P(30) {
			ref = rr.Pick([]string{"#", "?", "", " ", "#" + rr.Pick(fragPool), "?" + rr.Pick(queryPool), "?" + rr.Pick(queryPool) + "#" + rr.Pick(fragPool), "\t#x", " ?y "})
		}
		checkC06(base, ref)
		if rr.P(30) {
			if ub, err := url.Parse(base); err == nil {
				ub.SearchParams().Has("x")
				checkC06On(ub, base, ref, "P "+defaultCfg.Tok+" "+xs(base)+" ; G 0 ; R 0 "+xs(ref))
			}
		}
		h := &Hist{}
		h.ParseRefPkg(base, ref)
		h.ParseRef(defaultCfg, base, ref)
		if k := h.ParsePkg(base); k >= 0 {
			h.Resolve(k, ref)
			if rr.P(40) {
				if u, err := url.Parse(genInput(rr)); err == nil {
					checkC06Self(u, h.urls[k], "P "+defaultCfg.Tok+" "+xs(base)+" ; R 0 "+xs(u.Href(false)))
					h.Resolve(k, u.Href(false))
				}
			}
		}
		o.EmitHist("r", h)
	}
}

// ---- C07 ---------------------------------------------------------------------------------------------

func parseHostCases(o *Out, host string, schemes []string) {
	for _, sc := range schemes {
		h := &Hist{}
		h.ParsePkg(sc + "://" + host + "/")
		o.EmitHist("a", h)
	}
}

func streamC07(r *Rand, n int, o *Out) {
	alphabet := "019xXfg.+-87"
	var rec func(prefix string, depth int)
	maxLen := 3
	if n >= 50000 {
		maxLen = 4
	}
	rec = func(prefix string, depth int) {
		if prefix != "" {
			leafSimple(o, "LE", xs(prefix), recovered(func() string { return b01(url.VerifEndsInANumber(prefix)) }))
			leafSimple(o, "L4", xs(prefix), recovered(func() string { return hostRes(url.VerifParseIPv4(prefix)) }))
			if len(prefix) <= 3 || r.P(10) {
				parseHostCases(o, prefix, []string{"http", "sc"})
			}
		}
		if depth == maxLen {
			return
		}
		for i := 0; i < len(alphabet); i++ {
			rec(prefix+string(alphabet[i]), depth+1)
		}
	}
	rec("", 0)
	// which scheme is special is a matter of the parser's table: number-like hosts under tables without `file`, without
	// anything, and with an added scheme — a host is read as an IPv4 address exactly when ITS scheme is special in THAT table
	{
		noFile := newCfg("specialSchemes-without-file", url.NewParser(url.WithSpecialSchemes(map[string]string{"http": "80", "https": "443", "ws": "80", "wss": "443", "ftp": "21"})), 0, 0)
		none := newCfg("specialSchemes-empty", url.NewParser(url.WithSpecialSchemes(map[string]string{})), 0, 0)
		added := newCfg("specialSchemes+sc", url.NewParser(url.WithSpecialSchemes(map[string]string{"http": "80", "https": "443", "ws": "80", "wss": "443", "ftp": "21", "file": "", "sc": "7"})), 0, 0)
		for _, c := range []*Cfg{noFile, none, added, defaultCfg} {
			for _, hs := range []string{"0x7f.1", "2130706433", "127.1", "1.2.3.4.5", "0x100.1", "09", "1.2.3.4", "0X10.010.8", "256", "4294967296", "1.2.3.4.", "a.1", "1.a"} {
				h := &Hist{}
				for _, sch := range []string{"file", "http", "sc", "ws", "foo"} {
					in := sch + "://" + hs + "/p"
					k := h.Parse(c, in)
					orc.Eval("C07")
					special := c.Opts.SpecialSchemes[sch]
					_, isSpecial := c.Opts.SpecialSchemes[sch]
					_ = special
					if !isSpecial {
						// a non-special url: the host is opaque text, never reinterpreted
						if k < 0 || h.urls[k].Hostname() != hs || h.urls[k].IsIPv4() {
							got := "rejected"
							if k >= 0 {
								got = h.urls[k].Hostname()
							}
							orc.Fail("C07", "non-special-host-reinterpreted", fmt.Sprintf("%s under %s: host %s", q(in), c.Name, q(got)), strings.Join(h.ops, " ; "))
						}
					}
					if k >= 0 {
						h.Set(k, 4, hs)
					}
				}
				if k := h.Parse(c, "file://h/x"); k >= 0 {
					h.Set(k, 4, hs)
					h.Set(k, 3, hs+":")
				}
				o.EmitHist("t", h)
			}
		}
	}
	// boundaries in every radix and part count
	for _, a := range ipv4Nums {
		for np := 0; np < 4; np++ {
			s := strings.Repeat("1.", np) + a
			leafSimple(o, "L4", xs(s), recovered(func() string { return hostRes(url.VerifParseIPv4(s)) }))
			leafSimple(o, "LE", xs(s), recovered(func() string { return b01(url.VerifEndsInANumber(s)) }))
			parseHostCases(o, s, []string{"https", "sc"})
			s2 := a + strings.Repeat(".1", np)
			leafSimple(o, "L4", xs(s2), recovered(func() string { return hostRes(url.VerifParseIPv4(s2)) }))
			parseHostCases(o, s2, []string{"ws"})
		}
	}
	for i := 0; i < n; i++ {
		rr := r.Fork()
		s := genIPv4(rr)
		if rr.P(20) {
			s = pctSome(rr, s, 30)
		}
		leafSimple(o, "L4", xs(s), recovered(func() string { return hostRes(url.VerifParseIPv4(s)) }))
		leafSimple(o, "LE", xs(s), recovered(func() string { return b01(url.VerifEndsInANumber(s)) }))
		parseHostCases(o, s, []string{rr.Pick(specialSchemes), "sc", "file"})
		n32 := uint32(rr.U64())
		leafSimple(o, "L4S", fmt.Sprint(n32), xs(url.IPv4Addr(n32).String()))
	}
}

// ---- C08 ---------------------------------------------------------------------------------------------

// reference serializer, written independently: lowercase hex, first longest run of >= 2 zero pieces compressed
func refIPv6String(a [8]uint16) string {
	best, bestLen := -1, 0
	for i := 0; i < 8; {
		if a[i] != 0 {
			i++
			continue
		}
		j := i
		for j < 8 && a[j] == 0 {
			j++
		}
		if j-i >= 2 && j-i > bestLen {
			best, bestLen = i, j-i
		}
		i = j
	}
	var sb strings.Builder
	for i := 0; i < 8; i++ {
		if i == best {
			if i == 0 {
				sb.WriteString("::")
			} else {
				sb.WriteString(":")
			}
			i += bestLen - 1
			continue
		}
		sb.WriteString(fmt.Sprintf("%x", a[i]))
		if i != 7 {
			sb.WriteString(":")
		}
	}
	return sb.String()
}

func checkC08Addr(o *Out, a url.IPv6Addr) {
	orc.Eval("C08")
	parts := make([]string, 8)
	for k := 0; k < 8; k++ {
		parts[k] = fmt.Sprint(a[k])
	}
	s := a.String()
	leafSimple(o, "L6S", strings.Join(parts, ","), xs(s))
	tok := "L6S " + strings.Join(parts, ",")
	if ref := refIPv6String([8]uint16(a)); ref != s {
		orc.Fail("C08", "serializer-not-canonical", fmt.Sprintf("String()=%s, canonical text is %s", q(s), q(ref)), tok)
	}
	u, err := url.Parse("http://[" + s + "]/")
	if err != nil || u.Hostname() != "["+s+"]" {
		orc.Fail("C08", "serialize-parse-not-identity", "parsing the serialization of "+q(s)+" is not the identity", tok)
	}
}

func streamC08(r *Rand, n int, o *Out) {
	// all 256 zero patterns x three fillings
	for pat := 0; pat < 256; pat++ {
		for fill := 0; fill < 3; fill++ {
			var a url.IPv6Addr
			for k := 0; k < 8; k++ {
				if pat&(1<<uint(k)) != 0 {
					switch fill {
					case 0:
						a[k] = 1
					case 1:
						a[k] = 0xffff
					default:
						a[k] = uint16(0x10<<uint(k)) | uint16(k+1)
					}
				}
			}
			checkC08Addr(o, a)
		}
	}
	brackets := func(t string) []string {
		return []string{"[" + t + "]", "[[" + t + "]]", "[" + t, t + "]", "[" + t + "]]", "[[" + t + "]", "[" + t + "]x", "[]" + t, "[" + t + "]:80"}
	}
	// '::' positions x piece counts x digit counts x ipv4 tails
	for pieces := 0; pieces <= 9; pieces++ {
		for pos := -1; pos <= pieces; pos++ {
			for _, digits := range []string{"1", "0", "abcd", "00a", "12345", "g"} {
				ps := make([]string, pieces)
				for i := range ps {
					ps[i] = digits
				}
				var t string
				if pos < 0 {
					t = strings.Join(ps, ":")
				} else {
					t = strings.Join(ps[:pos], ":") + "::" + strings.Join(ps[pos:], ":")
				}
				for _, tail := range []string{"", "1.2.3.4", "1.2.3", "255.255.255.256", "01.2.3.4", "255.255.255.255", "192.168.100.200"} { // the last two: the longest valid texts (45 code points with six 4-digit pieces)
					tt := t
					if tail != "" {
						if tt == "" || strings.HasSuffix(tt, ":") {
							tt += tail
						} else {
							tt += ":" + tail
						}
					}
					leafSimple(o, "L6", xs(tt), recovered(func() string { return hostRes(url.VerifParseIPv6(tt)) }))
					if digits == "1" || digits == "abcd" {
						h := &Hist{}
						h.ParsePkg("http://[" + tt + "]/")
						h.ParsePkg("sc://[" + tt + "]/")
						o.EmitHist("b", h)
					}
				}
			}
		}
	}
	// IPv4 tails: every part position x boundary values of the part, incl. the windows in which a fixed-width accumulator
	// wraps (2^31, 2^32, 2^63, 2^64, 2^128 and their neighbours, values that are small again modulo 2^k)
	v4parts := []string{"0", "00", "1", "9", "10", "99", "100", "199", "249", "255", "256", "260", "299", "300", "999", "1000", "0255", "1e1", "0x1", "",
		"2147483647", "2147483648", "2147483649", "4294967295", "4294967296", "4294967297", "4294967551", "4294967552",
		"9223372036854775807", "9223372036854775808", "9223372036854775809", "92233720368547758085", "18446744073709551615", "18446744073709551616",
		"18446744073709551617", "18446744073709551871", "18446744073709551872", "36893488147419103233", "340282366920938463463374607431768211456",
		"340282366920938463463374607431768211457", "99999999999999999999999999999999999999999"}
	for pos := 0; pos < 4; pos++ {
		for _, pv := range v4parts {
			parts := []string{"1", "2", "3", "4"}
			parts[pos] = pv
			for _, pre := range []string{"::", "::ffff:", "1:2:3:4:5:6:", "1::"} {
				tt := pre + strings.Join(parts, ".")
				leafSimple(o, "L6", xs(tt), recovered(func() string { return hostRes(url.VerifParseIPv6(tt)) }))
				if pre == "::" {
					h := &Hist{}
					h.ParsePkg("http://[" + tt + "]/")
					if k := h.ParsePkg("sc://x/"); k >= 0 {
						h.Set(k, 4, "["+tt+"]")
					}
					o.EmitHist("b", h)
				}
			}
		}
	}
	for _, t := range []string{"::1", "1::", "::", "1:2:3:4:5:6:7:8", "::1.2.3.4", "1::2"} {
		for _, b := range brackets(t) {
			h := &Hist{}
			h.ParsePkg("http://" + b + "/")
			h.ParsePkg("sc://" + b + "/")
			if k := h.ParsePkg("http://x/"); k >= 0 {
				h.Set(k, 3, b)
				h.Set(k, 4, b)
			}
			o.EmitHist("b", h)
		}
	}
	for i := 0; i < n; i++ {
		rr := r.Fork()
		t := genIPv6Text(rr)
		leafSimple(o, "L6", xs(t), recovered(func() string { return hostRes(url.VerifParseIPv6(t)) }))
		h := &Hist{}
		hs := genIPv6Host(rr)
		h.ParsePkg(rr.Pick(specialSchemes) + "://" + hs + "/")
		h.ParsePkg("sc://" + hs + "/")
		o.EmitHist("b", h)
		var a url.IPv6Addr
		zero := rr.N(256)
		for k := 0; k < 8; k++ {
			if zero&(1<<uint(k)) == 0 {
				a[k] = uint16(rr.N(0x10000) >> uint(4*rr.N(4)))
			}
		}
		checkC08Addr(o, a)
		// a parsed address re-parses to itself
		if u, err := url.Parse("http://[" + t + "]/"); err == nil {
			orc.Eval("C08")
			v, err2 := url.Parse("http://" + u.Hostname() + "/")
			if err2 != nil || v.Hostname() != u.Hostname() {
				orc.Fail("C08", "parse-not-canonical", "host "+q(u.Hostname())+" does not re-parse to itself", "P "+defaultCfg.Tok+" "+xs("http://["+t+"]/"))
			}
		}
	}
}

// ---- C09 ---------------------------------------------------------------------------------------------

func flipCase(r *Rand, s string) string {
	b := []byte(s)
	for i, c := range b {
		if r.P(50) {
			if c >= 'a' && c <= 'z' {
				b[i] = c - 0x20
			} else if c >= 'A' && c <= 'Z' {
				b[i] = c + 0x20
			}
		}
	}
	return string(b)
}

func asciiLowerStr(s string) string {
	b := []byte(s)
	for i, c := range b {
		if c >= 'A' && c <= 'Z' {
			b[i] = c + 0x20
		}
	}
	return string(b)
}

func streamC09(r *Rand, n int, o *Out) {
	for i := 0; i < n; i++ {
		rr := r.Fork()
		var d string
		switch rr.N(6) {
		case 0:
			d = rr.Pick(weirdHosts)
			if strings.ContainsAny(d, "%") {
				d = genDomain(rr)
			}
		case 1:
			d = genIPv4(rr)
		default:
			d = genDomain(rr)
		}
		if d == "" || strings.ContainsAny(d, "/?#\\@:[]\t\n\r") || !utf8Valid(d) || isDriveLetter(d, false) {
			continue // not a host: delimiters, or the file drive letter quirk
		}
		res := map[string]string{}
		var first string
		variants := []string{d, flipCase(rr, d), pctSome(rr, d, 100), pctSome(rr, flipCase(rr, d), 40), pctSome(rr, d, 20)}
		h := &Hist{}
		for vi, v := range variants {
			for _, scheme := range []string{"https", "file"} {
				orc.Eval("C09")
				in := scheme + "://" + v + "/"
				// the same host TEXT under a non-special scheme first, on the same parser: what a host means is decided by the
				// scheme of the url being parsed, never by what the parser saw before (a host memo keyed by the text, wave 10's S99)
				url.Parse("sc://" + v + "/")
				u, err := url.Parse(in)
				k := "ERR"
				if err == nil {
					k = "ok:" + u.Hostname()
				}
				if vi == 0 {
					res[scheme] = k
					first = in
				} else if res[scheme] != k {
					orc.Fail("C09", "spelling-dependent", fmt.Sprintf("%s gives %s but %s gives %s", q(first), q(res[scheme]), q(in), q(k)), "P "+defaultCfg.Tok+" "+xs(in))
				}
				if err == nil {
					hn := u.Hostname()
					if !strings.HasPrefix(hn, "[") {
						if !isASCII(hn) || hn != asciiLowerStr(hn) {
							orc.Fail("C09", "not-ascii-lowercase", "host "+q(hn), "P "+defaultCfg.Tok+" "+xs(in))
						}
						for _, c := range hn {
							if forbiddenDomainCp(c) {
								orc.Fail("C09", "forbidden-code-point", "host "+q(hn), "P "+defaultCfg.Tok+" "+xs(in))
							}
						}
					}
					if isASCII(d) && !hasAceLabel(d) && !isDottedDecimal(hn) && !(scheme == "file" && hn == "") && hn != asciiLowerStr(d) {
						orc.Fail("C09", "ascii-host-changed", "host "+q(hn)+" for "+q(d), "P "+defaultCfg.Tok+" "+xs(in))
					}
					if scheme == "file" && asciiLowerStr(d) == "localhost" && hn != "" {
						orc.Fail("C09", "file-localhost", "host "+q(hn), "P "+defaultCfg.Tok+" "+xs(in))
					}
				}
				h.ParsePkg("sc://" + v + "/")
				h.ParsePkg(in)
				// the same spelling through the host setters, on a parsed URL and on a clone of it: the pipeline is the same one
				if vi == 0 || rr.P(35) {
					start := scheme + "://start.example/p?q#f"
					if k0 := h.ParsePkg(start); k0 >= 0 {
						kc := h.Clone(k0)
						for _, kk := range []int{k0, kc} {
							if kk < 0 {
								continue
							}
							st := 3 + rr.N(2) // host / hostname setter
							h.Set(kk, st, v)
							orc.Eval("C09")
							got := "ok:" + h.urls[kk].Hostname()
							want := res[scheme]
							if want == "ERR" || (scheme == "file" && want == "ok:") {
								want = "" // a rejected value leaves the host alone; the empty host of file://localhost is set as such
							}
							if want != "" && got != want {
								orc.Fail("C09", "setter-spelling-dependent", fmt.Sprintf("%s parses to %s but the host setter on %s gives %s", q(in), q(want), map[bool]string{true: "a clone", false: "a parsed url"}[kk == kc], q(got)), strings.Join(h.ops, " ; "))
							}
						}
					}
				}
			}
		}
		o.EmitHist("d", h)
	}
	for _, sp := range []string{"localhost", "LOCALHOST", "LocalHost", "%6cocalhost", "%4Cocalhost", "l%6Fcalhost", "%6c%6f%63%61%6c%68%6f%73%74"} {
		h := &Hist{}
		k := h.ParsePkg("file://" + sp + "/x")
		orc.Eval("C09")
		if k < 0 || h.urls[k].Hostname() != "" {
			orc.Fail("C09", "file-localhost", "file://"+sp+"/x", "P "+defaultCfg.Tok+" "+xs("file://"+sp+"/x"))
		}
		o.EmitHist("d", h)
	}
}

func utf8Valid(s string) bool {
	for _, c := range s {
		if c == 0xFFFD {
			return false
		}
	}
	return true
}

// ---- C10 ---------------------------------------------------------------------------------------------

type namedSet struct {
	name string
	set  *url.PercentEncodeSet
	std  func(rune) bool
}

func streamC10(r *Rand, n int, o *Out) {
	sets := []namedSet{
		{"c0", url.C0PercentEncodeSet, inC0},
		{"fragment", url.FragmentPercentEncodeSet, inFragment},
		{"query", url.QueryPercentEncodeSet, inQuery},
		{"specialquery", url.SpecialQueryPercentEncodeSet, inSpecialQuery},
		{"path", url.PathPercentEncodeSet, inPath},
		{"userinfo", url.UserInfoPercentEncodeSet, inUserinfo},
		{"c0sp", url.C0OrSpacePercentEncodeSet, func(c rune) bool { return inC0(c) || c == ' ' }},
		{"host", url.HostPercentEncodeSet, func(c rune) bool { return inC0(c) || c == ' ' || c == '#' }},
		{"laxpath", canonicalizer.LaxPathPercentEncodeSet, nil},
		{"laxquery", canonicalizer.LaxQueryPercentEncodeSet, nil},
		{"repeatedquery", canonicalizer.RepeatedQueryPercentDecodeSet, nil},
	}
	cps := []rune{}
	for c := rune(0); c < 0x300; c++ {
		cps = append(cps, c)
	}
	for _, c := range []rune{0x7ff, 0x800, 0xd7ff, 0xe000, 0xfffd, 0xffff, 0x10000, 0x10ffff} {
		cps = append(cps, c)
	}
	for i := 0; i < 200; i++ {
		cps = append(cps, rune(r.N(0x110000)))
	}
	fp := func() string {
		var sb strings.Builder
		for _, s := range sets {
			for c := rune(0); c < 0x100; c++ {
				sb.WriteString(b01(s.set.RuneShouldBeEncoded(c)))
			}
		}
		return sb.String()
	}
	before := fp()
	for _, s := range sets {
		for _, c := range cps {
			if c >= 0xd800 && c <= 0xdfff {
				continue
			}
			orc.Eval("C10")
			got := s.set.RuneShouldBeEncoded(c)
			leafSimple(o, "LHAS", s.name+" "+fmt.Sprint(int(c)), b01(got))
			if s.std != nil && got != s.std(c) {
				orc.Fail("C10", "set-differs-from-standard", fmt.Sprintf("%s set: U+%04X member=%v, the standard says %v", s.name, c, got, s.std(c)), "LHAS "+s.name+" "+fmt.Sprint(int(c)))
			}
		}
	}
	for name, bs := range url.VerifBitsets() {
		for c := uint(0); c < 0x100; c++ {
			leafSimple(o, "LBIT", name+" "+fmt.Sprint(c), b01(bs.Test(c)))
		}
	}
	for _, c := range cps {
		if c >= 0xd800 && c <= 0xdfff {
			continue
		}
		leafSimple(o, "LBIT", "urlcp "+fmt.Sprint(int(c)), b01(url.VerifIsURLCodePoint(c)))
	}
	// deriving a set never alters the source; string laws on random sets
	hexFree := func(p *url.PercentEncodeSet) bool {
		for _, c := range "0123456789abcdefABCDEF" {
			if p.RuneShouldBeEncoded(c) {
				return false
			}
		}
		return true
	}
	p := defaultCfg.Parser
	// the codec under the options that change it: single-percent-sign encoding and the encoding override
	cfgPct := newCfg("pctSingle", url.NewParser(url.WithPercentEncodeSinglePercentSign()), 0, 0)
	optCfgs := []*Cfg{cfgPct, newCfg("latin1", url.NewParser(url.WithEncodingOverride(charmap.ISO8859_1)), 0, 0),
		newCfg("pctSingle+latin1", url.NewParser(url.WithPercentEncodeSinglePercentSign(), url.WithEncodingOverride(charmap.ISO8859_1)), 0, 0),
		newCfg("ebcdic037", url.NewParser(url.WithEncodingOverride(charmap.CodePage037)), 0, 0),
		newCfg("windows1252", url.NewParser(url.WithEncodingOverride(charmap.Windows1252)), 0, 0),
		newCfg("koi8r+pctSingle", url.NewParser(url.WithPercentEncodeSinglePercentSign(), url.WithEncodingOverride(charmap.KOI8R)), 0, 0)}
	for i := 0; i < n; i++ {
		rr := r.Fork()
		set := sets[rr.N(6)].set
		s := rr.Pick([]string{"", "a", "é", "日本", "\U0001F600", "ab", "j\u00f6rg"}) + rr.Pick([]string{"%41", "%4", "%", "%zz", "%C3%A9", "%%41", "%é41", "%4é"}) +
			rr.Pick([]string{"", "x", "é", "%42", "%"}) + rr.Pick(userPool)
		for _, c := range optCfgs {
			e1 := c.Parser.PercentEncodeString(s, set)
			leafSimple(o, "LENC", c.Tok+" "+setTok(set)+" "+xs(s), xs(e1))
			leafSimple(o, "LDEC", c.Tok+" "+xs(e1), xs(url.VerifDecodePercentEncoded(c.Parser, e1)))
			// decoding inverts encoding when '%' is in the set — also under an encoding override, for text the charmap can
			// represent (every code point goes through the charmap on the way out and on the way back)
			if cm := charmapByName(c.Opts.EncodingOverride); cm != nil {
				t := "a b%c" + scalar(s)
				ok := true
				for _, ch := range t {
					if _, in := cm.EncodeRune(ch); !in {
						ok = false
					}
				}
				if ok {
					orc.Eval("C10")
					full := set.Set('%')
					enc := c.Parser.PercentEncodeString(t, full)
					if dec := url.VerifDecodePercentEncoded(c.Parser, enc); dec != t {
						orc.Fail("C10", "decode-does-not-invert-under-override", fmt.Sprintf("%s: %s -> %s -> %s", c.Name, q(t), q(enc), q(dec)), "LENC "+c.Tok+" "+setTok(full)+" "+xs(t))
					}
				}
			}
		}
		// with single-percent-sign encoding an existing well-formed escape stays untouched and a lone '%' becomes %25
		orc.Eval("C10")
		var want strings.Builder
		rs := []rune(scalar(s))
		for k, ch := range rs {
			lone := ch == '%' && !(k+2 < len(rs) && rs[k+1] < 0x80 && rs[k+2] < 0x80 && isHexByte(byte(rs[k+1])) && isHexByte(byte(rs[k+2])))
			if lone || set.RuneShouldBeEncoded(ch) {
				for _, b := range []byte(string(ch)) {
					want.WriteString(fmt.Sprintf("%%%02X", b))
				}
			} else {
				want.WriteRune(ch)
			}
		}
		if got := cfgPct.Parser.PercentEncodeString(s, set); got != want.String() {
			orc.Fail("C10", "encode-shape-single-percent", fmt.Sprintf("encode(%s) = %s, expected %s", q(s), q(got), q(want.String())), "LENC "+cfgPct.Tok+" "+setTok(set)+" "+xs(s))
		}
	}
	for i := 0; i < n; i++ {
		rr := r.Fork()
		base := sets[rr.N(6)].set
		var derived *url.PercentEncodeSet
		c := uint(0x20 + rr.N(0x5f))
		if rr.P(20) {
			c = uint(0x7e + rr.N(0x82)) // also beyond the table: 0x7e..0xff (everything above U+007E is in every set anyway)
		}
		c2 := uint(0x20 + rr.N(0x5f))
		isSet := rr.P(50)
		switch {
		case isSet && rr.P(15):
			ab, _ := url.VerifSetDump(base)
			derived = url.NewPercentEncodeSet(int32(ab), c, c2)
			base = url.NewPercentEncodeSet(int32(ab))
		case isSet:
			derived = base.Set(c, c2)
		default:
			derived = base.Clear(c)
		}
		orc.Eval("C10")
		// the derive law, for every code point around the table's end: Set adds exactly its arguments, Clear removes exactly
		// its argument, and everything above U+007E stays in the set whatever was set or cleared
		for cp := rune(0); cp < 0x180; cp++ {
			want := base.RuneShouldBeEncoded(cp)
			if isSet && (uint(cp) == c || uint(cp) == c2) {
				want = true
			}
			if baseAb, _ := url.VerifSetDump(base); !isSet && uint(cp) == c && cp <= 0x7e && cp >= rune(baseAb) {
				want = false // Clear only clears the table bit: below the set's all-below bound and above U+007E it has no effect
			}
			if derived.RuneShouldBeEncoded(cp) != want || (cp < 0x100 && derived.ByteShouldBeEncoded(byte(cp)) != want) {
				orc.Fail("C10", "derive-law", fmt.Sprintf("derived set (set=%v, %#x, %#x): U+%04X member=%v, expected %v", isSet, c, c2, cp, derived.RuneShouldBeEncoded(cp), want), "LENC "+defaultCfg.Tok+" "+setTok(derived)+" "+xs(string(cp)))
				break
			}
		}
		if fp() != before {
			orc.Fail("C10", "derive-alters-source", fmt.Sprintf("Set/Clear(%#x) changed a named set", c), "LHAS derive "+fmt.Sprint(c))
			before = fp()
		}
		s := rr.Pick(segPool) + rr.Pick(queryPool) + rr.Pick(userPool) + rr.Pick(fragPool)
		if rr.P(20) {
			s = genGarbage(rr)
		}
		if c >= 0x7e {
			s += rr.Pick([]string{"\x7f", "a\x7fb\u00e9", "\u0080", "~\x7f\u00ff", "\u00e9"})
		}
		tok := "LENC " + defaultCfg.Tok + " " + setTok(derived) + " " + xs(s)
		e1 := p.PercentEncodeString(s, derived)
		leafSimple(o, "LENC", defaultCfg.Tok+" "+setTok(derived)+" "+xs(s), xs(e1))
		leafSimple(o, "LDEC", defaultCfg.Tok+" "+xs(e1), xs(url.VerifDecodePercentEncoded(p, e1)))
		pctIn := derived.RuneShouldBeEncoded('%')
		if hexFree(derived) {
			// nothing left unencoded
			for _, ch := range e1 {
				if derived.RuneShouldBeEncoded(ch) && !(ch == '%') {
					orc.Fail("C10", "left-unencoded", fmt.Sprintf("%s still contains %s", q(e1), q(string(ch))), tok)
					break
				}
			}
			if !pctIn {
				if e2 := p.PercentEncodeString(e1, derived); e2 != e1 {
					orc.Fail("C10", "not-idempotent", fmt.Sprintf("%s -> %s -> %s", q(s), q(e1), q(e2)), tok)
				}
				if url.VerifDecodePercentEncoded(p, e1) != url.VerifDecodePercentEncoded(p, string([]rune(s))) {
					orc.Fail("C10", "decode-differs", fmt.Sprintf("decode(encode(%s)) != decode(%s)", q(s), q(s)), tok)
				}
			} else if url.VerifDecodePercentEncoded(p, e1) != string([]rune(s)) {
				orc.Fail("C10", "decode-not-inverse", fmt.Sprintf("decode(encode(%s)) = %s", q(s), q(url.VerifDecodePercentEncoded(p, e1))), tok)
			}
		}
		// escapes are upper-case hex of the UTF-8 bytes, everything else untouched
		var want strings.Builder
		for _, ch := range s {
			if derived.RuneShouldBeEncoded(ch) {
				for _, b := range []byte(string(ch)) {
					want.WriteString(fmt.Sprintf("%%%02X", b))
				}
			} else {
				want.WriteRune(ch)
			}
		}
		if want.String() != e1 {
			orc.Fail("C10", "encode-shape", fmt.Sprintf("encode(%s) = %s, expected %s", q(s), q(e1), q(want.String())), tok)
		}
	}
}

// ---- C11 ---------------------------------------------------------------------------------------------

type refList [][2]string

func (l refList) get(n string) string {
	for _, p := range l {
		if p[0] == n {
			return p[1]
		}
	}
	return ""
}

func refParseUrlencoded(qs string) refList {
	var res refList
	for _, seq := range strings.Split(qs, "&") {
		if seq == "" {
			continue
		}
		name, value := seq, ""
		if i := strings.IndexByte(seq, '='); i >= 0 {
			name, value = seq[:i], seq[i+1:]
		}
		dec := func(s string) string {
			s = strings.ReplaceAll(s, "+", " ")
			var b []byte
			for i := 0; i < len(s); i++ {
				if s[i] == '%' && i+2 < len(s) && isHexByte(s[i+1]) && isHexByte(s[i+2]) {
					b = append(b, unhexByte(s[i+1])<<4|unhexByte(s[i+2]))
					i += 2
				} else {
					b = append(b, s[i])
				}
			}
			return string(b)
		}
		res = append(res, [2]string{dec(name), dec(value)})
	}
	return res
}

func isHexByte(c byte) bool {
	return (c >= '0' && c <= '9') || (c >= 'a' && c <= 'f') || (c >= 'A' && c <= 'F')
}
func unhexByte(c byte) byte {
	switch {
	case c >= '0' && c <= '9':
		return c - '0'
	case c >= 'a' && c <= 'f':
		return c - 'a' + 10
	default:
		return c - 'A' + 10
	}
}

func scalar(s string) string { return string([]rune(s)) }

func pairsOf(sp *url.SearchParams) refList {
	_, l := url.VerifSearchParamsDump(sp)
	return refList(l)
}

func eqLists(a, b refList) bool {
	if len(a) != len(b) {
		return false
	}
	for i := range a {
		if scalar(a[i][0]) != scalar(b[i][0]) || scalar(a[i][1]) != scalar(b[i][1]) {
			return false
		}
	}
	return true
}

// roundTripClassOf classifies a list that did not survive serialize-and-parse by the pairs that were LOST (multiset
// difference, scalar-value reading): the recorded findings F8 / F8b are about pairs holding a delimiter, an escape, a quote or
// a control character — a loss of any other pair is not one of them, whatever else the list holds.
func roundTripClassOf(orig, back refList) string {
	key := func(p [2]string) string { return scalar(p[0]) + "\x00=" + scalar(p[1]) }
	have := map[string]int{}
	for _, p := range back {
		have[key(p)]++
	}
	var lost refList
	for _, p := range orig {
		if have[key(p)] > 0 {
			have[key(p)]--
		} else {
			lost = append(lost, p)
		}
	}
	if len(lost) == 0 {
		return "other"
	}
	class := ""
	for _, p := range lost {
		c := roundTripClass(refList{p})
		if c == "other" {
			return "other"
		}
		if class == "" || c == "urlencoded-delimiter-or-escape-in-pair" {
			class = c
		}
	}
	return class
}

func hasCompleteEscape(s string) bool {
	isHex := func(c byte) bool { return c >= '0' && c <= '9' || c >= 'a' && c <= 'f' || c >= 'A' && c <= 'F' }
	for i := 0; i+2 < len(s); i++ {
		if s[i] == '%' && isHex(s[i+1]) && isHex(s[i+2]) {
			return true
		}
	}
	return false
}

func roundTripClass(l refList) string {
	for _, p := range l {
		// the EXACT class of pairs that do not survive (Props/C11b.lean, `C11b_roundtrip_iff`): ill-formed UTF-8, a name with
		// `&`, `=` or `+`, a value with `&` or `+`, or a complete escape `%XX` in either (a lone `%` and `#` survive)
		if strings.ContainsAny(p[0], "&=+") || strings.ContainsAny(p[1], "&+") || hasCompleteEscape(p[0]) || hasCompleteEscape(p[1]) || !utf8Valid(p[0]) || !utf8Valid(p[1]) {
			return "urlencoded-delimiter-or-escape-in-pair"
		}
		if strings.ContainsAny(p[0], "'\x00\t\n\r") || strings.ContainsAny(p[1], "'\x00\t\n\r") {
			return "quote-or-control-in-pair"
		}
	}
	return "other"
}

func streamC11(r *Rand, n int, o *Out) {
	// exhaustive: every query string over the urlencoded structural alphabet up to length 4 (thorough, first seed: 5):
	// parsed into a list (every delimiter order, empty names / values / sequences, '+', complete and broken escapes),
	// the list read back, sorted, and written through once
	{
		alphabet := []string{"a", "b", "&", "=", "+", "%", "2", "6", " ", "\xff"}
		maxLen := 4
		if v := os.Getenv("VERIF_EXHAUSTIVE"); v != "" {
			fmt.Sscan(v, &maxLen)
			if maxLen > 0 {
				maxLen++
			}
		}
		var gen func(prefix string, depth int)
		gen = func(prefix string, depth int) {
			if depth > 0 {
				h := &Hist{}
				if k := h.ParsePkg("http://h/?" + prefix); k >= 0 {
					sp := h.Grab(k)
					if depth <= 3 {
						h.QSort(sp)
						h.QAppend(sp, "z", "")
					}
				}
				o.EmitHist("e", h)
			}
			if depth < maxLen {
				for _, a := range alphabet {
					gen(prefix+a, depth+1)
				}
			}
		}
		if maxLen > 0 {
			gen("", 0)
		}
	}
	for i := 0; i < n; i++ {
		rr := r.Fork()
		h := &Hist{}
		qs := rr.Pick(queryPool)
		if rr.P(40) {
			qs += "&" + rr.Pick(queryPool)
		}
		if i%5 == 0 {
			// long lists with few distinct names: stability of a sort only shows beyond the small-slice fast paths
			np := 13 + rr.N(40)
			parts := make([]string, np)
			for j := range parts {
				parts[j] = rr.Pick([]string{"b", "a", "c", "a", "b"}) + "=" + fmt.Sprint(j)
			}
			qs = strings.Join(parts, "&")
		}
		k := h.ParsePkg("http://h/?" + qs)
		if k < 0 {
			o.EmitHist("s", h)
			continue
		}
		u := h.urls[k]
		s := h.Grab(k)
		sp := h.sps[s]
		// parsing follows application/x-www-form-urlencoded
		orc.Eval("C11")
		ref := refParseUrlencoded(u.Query())
		if !eqLists(pairsOf(sp), ref) {
			orc.Fail("C11", "urlencoded-parse", fmt.Sprintf("query %s parsed as %q, expected %q", q(u.Query()), pairsOf(sp), ref), strings.Join(h.ops, " ; "))
		}
		nops := rr.N(7)
		if i%5 == 0 {
			nops = 1 + rr.N(3)
		}
		for j := 0; j < nops; j++ {
			name, val := rr.Pick(spNames), rr.Pick(spValues)
			if len(ref) > 0 && rr.P(50) {
				name = ref[rr.N(len(ref))][0]
			}
			opk := rr.N(8)
			if i%5 == 0 && j == 0 {
				opk = 5 + rr.N(2)
			}
			switch opk {
			case 0, 1:
				h.QAppend(s, name, val)
				ref = append(ref, [2]string{name, val})
			case 2:
				h.QDelete(s, name)
				var nl refList
				for _, p := range ref {
					if p[0] != name {
						nl = append(nl, p)
					}
				}
				ref = nl
			case 3, 4:
				h.QSet(s, name, val)
				var nl refList
				done := false
				for _, p := range ref {
					if p[0] == name {
						if !done {
							nl = append(nl, [2]string{name, val})
							done = true
						}
					} else {
						nl = append(nl, p)
					}
				}
				if !done {
					nl = append(nl, [2]string{name, val})
				}
				ref = nl
			case 5:
				h.QSort(s)
				nl := append(refList{}, ref...)
				sort.SliceStable(nl, func(a, b int) bool { return nl[a][0] < nl[b][0] })
				ref = nl
			case 6:
				h.QSortAbs(s)
				nl := append(refList{}, ref...)
				sort.SliceStable(nl, func(a, b int) bool { return nl[a][0]+nl[a][1] < nl[b][0]+nl[b][1] })
				ref = nl
			default:
				g := h.QGet(s, name)
				all := h.QGetAll(s, name)
				has := h.QHas(s, name)
				var vals []string
				for _, p := range ref {
					if p[0] == name {
						vals = append(vals, hx(p[1]))
					}
				}
				if g != xs(ref.get(name)) || all != "l"+strings.Join(vals, ",") || has != b01(len(vals) > 0) {
					orc.Fail("C11", "list-semantics", "get/getAll/has of "+q(name), strings.Join(h.ops, " ; "))
				}
			}
			orc.Eval("C11")
			if !eqLists(pairsOf(sp), ref) {
				orc.Fail("C11", "list-semantics", fmt.Sprintf("list is %q, expected %q", pairsOf(sp), ref), strings.Join(h.ops, " ; "))
				ref = pairsOf(sp)
			}
		}
		// serializing the list and parsing the result returns the same list
		orc.Eval("C11.roundtrip")
		h.QString(s)
		if v, err := url.Parse(u.Href(false)); err == nil {
			back := pairsOf(v.SearchParams())
			if !eqLists(back, ref) {
				orc.Fail("C11", roundTripClassOf(ref, back), fmt.Sprintf("list %q serializes to %s which parses to %q", ref, q(u.Query()), back), strings.Join(h.ops, " ; "))
			}
		}
		o.EmitHist("s", h)
		leafSimple(o, "LSPI", defaultCfg.Tok+" "+xs(qs), pairsTok(url.VerifSearchParamsInit(defaultCfg.Parser, qs)))
	}
}

// ---- C12 ---------------------------------------------------------------------------------------------

func checkSync(h *Hist, k int, what string) {
	orc.Eval("C12")
	u := h.urls[k]
	d := url.VerifDump(u)
	if !d.HasSearchParams {
		return
	}
	sp := u.SearchParams()
	ser := sp.String()
	if u.Query() != ser || (ser != "" && u.Search() != "?"+ser) || (ser == "" && u.Search() != "") {
		orc.Fail("C12", "query-differs-from-list", fmt.Sprintf("%s: Query=%s Search=%s list serializes to %s", what, q(u.Query()), q(u.Search()), q(ser)), strings.Join(h.ops, " ; "))
	}
	if ser != "" && !strings.Contains(u.Href(false), "?"+ser) {
		orc.Fail("C12", "href-differs-from-list", fmt.Sprintf("%s: Href=%s list=%s", what, q(u.Href(false)), q(ser)), strings.Join(h.ops, " ; "))
	}
}

func streamC12(r *Rand, n int, o *Out) {
	for i := 0; i < n; i++ {
		rr := r.Fork()
		h := &Hist{}
		start := rr.Pick([]string{"http://h/p", "http://h/p?a=1&b=2", "sc://h/p?x", "sc:opaque?q=1#f", "file:///x?a=b+c", "https://u@h:8/?a=1&a=2#f", "sc:/p?%41=%42"})
		if rr.P(30) {
			start = rr.Pick(basePool)
		}
		k := h.ParsePkg(start)
		if k < 0 {
			continue
		}
		u := h.urls[k]
		s := -1
		if rr.P(70) {
			s = h.Grab(k) // a handle obtained before later setter calls
		}
		nops := 1 + rr.N(7)
		for j := 0; j < nops; j++ {
			switch rr.N(10) {
			case 0, 1, 2, 3:
				if s < 0 {
					s = h.Grab(k)
				}
				switch rr.N(5) {
				case 0:
					h.QAppend(s, rr.Pick(spNames), rr.Pick(spValues))
				case 1:
					h.QDelete(s, rr.Pick(spNames))
				case 2:
					h.QSet(s, rr.Pick(spNames), rr.Pick(spValues))
				case 3:
					h.QSort(s)
				default:
					h.QSortAbs(s)
				}
				checkSync(h, k, "after a SearchParams mutation")
				// the old handle is still the URL's list
				if h.sps[s] != u.SearchParams() {
					orc.Fail("C12", "stale-handle", "the SearchParams handle is no longer the URL's list", strings.Join(h.ops, " ; "))
				}
			case 4, 5, 6:
				v := genSetterValue(rr, 7)
				// re-assigning the current text (after list mutations the list is in general NOT the parse of it: names with
				// & = + %) must re-initialise the list like any other value
				if rr.P(25) {
					v = u.Search()
				} else if rr.P(8) {
					v = u.Query()
				}
				h.Set(k, 7, v)
				orc.Eval("C12")
				d := url.VerifDump(u)
				if d.HasSearchParams {
					want := refList(nil)
					if d.Query != nil {
						want = refList(url.VerifSearchParamsInit(defaultCfg.Parser, *d.Query))
					}
					if !eqLists(refList(d.SearchParams), want) {
						orc.Fail("C12", "list-not-reinitialised", fmt.Sprintf("after SetSearch(%s): list %q, query %s", q(v), d.SearchParams, q(u.Query())), strings.Join(h.ops, " ; "))
					}
					if v == "" && (len(d.SearchParams) != 0 || d.Query != nil) {
						orc.Fail("C12", "not-cleared", "after SetSearch(\"\")", strings.Join(h.ops, " ; "))
					}
				}
				if s >= 0 && d.HasSearchParams && h.sps[s] != u.SearchParams() {
					orc.Fail("C12", "stale-handle", "the SearchParams handle obtained before SetSearch is no longer the URL's list", strings.Join(h.ops, " ; "))
				}
			default:
				st := []int{0, 1, 2, 3, 4, 5, 6, 8}[rr.N(8)]
				before := u.Query()
				var lb refList
				if url.VerifDump(u).HasSearchParams {
					lb = refList(url.VerifDump(u).SearchParams)
				}
				h.Set(k, st, genSetterValue(rr, st))
				orc.Eval("C12")
				d := url.VerifDump(u)
				if u.Query() != before || (d.HasSearchParams && !eqLists(refList(d.SearchParams), lb)) {
					orc.Fail("C12", "other-setter-touches-query", fmt.Sprintf("setter %s changed the query or the list", setterNames[st]), strings.Join(h.ops, " ; "))
				}
			}
		}
		o.EmitHist("y", h)
	}
}

// ---- C13 ---------------------------------------------------------------------------------------------

func snapshotNoErrs(u *url.Url) string {
	d := url.VerifDump(u)
	return fmt.Sprintf("%v|%v|%q|%v|%v|%v", getters(u), u.Href(true), d.SearchParams, u.DecodedPort(), u.OpaquePath(), u.IsIPv4())
}

func snapshot(u *url.Url) string {
	d := url.VerifDump(u)
	return fmt.Sprintf("%v|%v|%q|%v|%v|%v|%v", getters(u), u.Href(true), d.SearchParams, u.DecodedPort(), u.OpaquePath(), u.IsIPv4(), u.ValidationErrors())
}

// every kind of base x every kind of reference (or Clone) x every operation that writes a shared part in place
// (path stripping, path replacement, list write-through, host/port/credentials), applied to either side
func streamC13Enumerated(o *Out) {
	bases := []string{"sc:opaque  #f", "data:text/plain,x  ?q#f", "sc:opaque  ", "http://u:p@h:8/a/b?x=1#f", "file:///C:/a/b?q#f", "sc://h/p/q?a=b#f", "sc:/p/q", "http://h/a b/c?a=1&b=2"}
	refs := []string{"\x00CLONE", "#s", "", "?z=1", "x", "/y", "../z", "//h2/w", "#"}
	type opf struct {
		name string
		f    func(h *Hist, k int)
	}
	ops := []opf{
		{"SetHash(\"\")", func(h *Hist, k int) { h.Set(k, 8, "") }},
		{"SetSearch(\"\")", func(h *Hist, k int) { h.Set(k, 7, "") }},
		{"SetHash+SetSearch(\"\")", func(h *Hist, k int) { h.Set(k, 8, ""); h.Set(k, 7, "") }},
		{"SetPathname", func(h *Hist, k int) { h.Set(k, 6, "/n/e/w") }},
		{"SetPathname(\"\")", func(h *Hist, k int) { h.Set(k, 6, "") }},
		{"SetSearch", func(h *Hist, k int) { h.Set(k, 7, "n=1") }},
		{"SetHost", func(h *Hist, k int) { h.Set(k, 3, "other:9") }},
		{"SetUsername", func(h *Hist, k int) { h.Set(k, 1, "w") }},
		{"SetProtocol", func(h *Hist, k int) { h.Set(k, 0, "https") }},
		{"Append", func(h *Hist, k int) {
			if s := h.Grab(k); s >= 0 {
				h.QAppend(s, "n", "v")
			}
		}},
		{"Resolve", func(h *Hist, k int) { h.Resolve(k, "../r?s#t") }},
	}
	for _, b := range bases {
		for _, ref := range refs {
			for _, op := range ops {
				for side := 0; side < 2; side++ {
					h := &Hist{}
					a := h.ParsePkg(b)
					if a < 0 {
						continue
					}
					var c int
					kind := "resolve"
					if ref == "\x00CLONE" {
						c = h.Clone(a)
						kind = "clone"
					} else {
						c = h.Resolve(a, ref)
					}
					if c < 0 {
						continue
					}
					on, other := a, c
					if side == 1 {
						on, other = c, a
					}
					before := snapshot(h.urls[other])
					op.f(h, on)
					orc.Eval("C13")
					if snapshot(h.urls[other]) != before {
						orc.Fail("C13", "shared-state-"+kind, op.name+" on one value changed the other", strings.Join(h.ops, " ; "))
					}
					o.EmitHist("n", h)
				}
			}
		}
	}
}

func streamC13(r *Rand, n int, o *Out) {
	streamC13Enumerated(o)
	for i := 0; i < n; i++ {
		rr := r.Fork()
		h := &Hist{}
		start := genBase(rr)
		if rr.P(50) {
			start = rr.Pick([]string{"http://h/a/b?x=1&y=2#f", "sc://u:p@h:1/p/q?a=b", "file:///C:/a/b?q", "sc:opaque?q=1#f", "https://h/?a=1", "http://h/a/b/c/d"})
		}
		// a third of the histories run under the reporting parser on inputs that record validation errors, so that the
		// recorded-error list (a slice that setters append to) takes part in the independence check
		reporting := rr.P(33)
		var a int
		if reporting {
			start = rr.Pick([]string{"http://h/a b c d", "http://h/a b", " http://h/x y?p q#r s", "http://h\\a b/c d?e f", "sc://h/a b?c d#e f g", "http://u:p@h/a b c d e", "http://h/%zz %zz %zz"})
			a = h.Parse(cfgReport, start)
		} else {
			a = h.ParsePkg(start)
		}
		if a < 0 {
			continue
		}
		if rr.P(50) {
			h.Grab(a)
		}
		var b int
		kind := "clone"
		if rr.P(50) {
			b = h.Clone(a)
		} else {
			kind = "resolve"
			before := snapshot(h.urls[a])
			b = h.Resolve(a, genRef(rr, h.urls[a].Scheme()))
			orc.Eval("C13")
			if snapshot(h.urls[a]) != before {
				orc.Fail("C13", "resolve-modifies-base", "resolving changed the base", strings.Join(h.ops, " ; "))
			}
		}
		if b < 0 {
			o.EmitHist("z", h)
			continue
		}
		if kind == "clone" {
			orc.Eval("C13")
			// (the recorded validation errors are not compared here: the copy starts without them; they take part in the
			// independence checks below)
			if snapshotNoErrs(h.urls[a]) != snapshotNoErrs(h.urls[b]) {
				orc.Fail("C13", "clone-differs", "the clone differs from the original", strings.Join(h.ops, " ; "))
			}
		}
		nops := 1 + rr.N(6)
		for j := 0; j < nops; j++ {
			side, other := a, b
			if rr.P(50) {
				side, other = b, a
			}
			before := snapshot(h.urls[other])
			switch rr.N(10) {
			case 0, 1, 2, 3, 4:
				st := rr.N(9)
				v := genSetterValue(rr, st)
				if reporting && rr.P(60) {
					st = []int{6, 7, 8}[rr.N(3)]
					v = rr.Pick([]string{"x y", "p q r", "a b", "%zz z", "\"<>\""})
				}
				h.Set(side, st, v)
			case 5, 6, 7, 8:
				s := h.Grab(side)
				switch rr.N(5) {
				case 0, 1:
					h.QAppend(s, rr.Pick(spNames), rr.Pick(spValues))
				case 2:
					h.QDelete(s, rr.Pick(spNames))
				case 3:
					h.QSet(s, rr.Pick(spNames), rr.Pick(spValues))
				default:
					h.QSort(s)
				}
				// the operated-on value reflects the operation
				orc.Eval("C13")
				if h.urls[side].Query() != h.sps[s].String() {
					orc.Fail("C13", "operation-not-reflected", "the list operation is not reflected in the value it was applied to", strings.Join(h.ops, " ; "))
				}
			default:
				h.Resolve(side, genRef(rr, h.urls[side].Scheme()))
			}
			orc.Eval("C13")
			if snapshot(h.urls[other]) != before {
				orc.Fail("C13", "shared-state-"+kind, "an operation on one value changed the other", strings.Join(h.ops, " ; "))
			}
		}
		o.EmitHist("z", h)
	}
}

// ---- C15 ---------------------------------------------------------------------------------------------

func streamC15(r *Rand, n int, o *Out) {
	documented := map[errors.ErrorType]bool{}
	for _, t := range errCatalogue {
		documented[t] = true
	}
	// one input per non-fatal error site that the random part reaches only rarely (measured with tools/coverage.sh):
	// the early returns under fail-on-validation-error
	fixed := []string{"file:/\\x", "file:\\\\h/x", "file://C:/x", "file://c|/y", "file:/\\C|/x", "http:\\\\h\\p", "http://u:p@h:/x", "http://h:80\\x", "sc://h\\x?q#f",
		"http://h/%zz?%zz#%zz", "http://h/a b?a b#a b", "ht\ttp://h/", " http://h/ ", "http://1.2.3.4./", "http://0x1.0x2/", "http://[::1.2.3.4]/", "http:///h", "http:/h", "http:h",
		"REF file:///a/b /\\x", "REF file:///a/b \\\\h/x", "REF file://h/a //C:/x", "REF file:///C:/a /", "REF http://h/a \\\\g/x", "REF http://h/a /\\x", "REF sc://h/a ?q#f"}
	for i := 0; i < n+len(fixed); i++ {
		rr := r.Fork()
		in := genInput(rr)
		base := ""
		if rr.P(35) {
			base = genBase(rr)
		}
		if rr.P(15) {
			in = "http://" + rr.Pick(weirdHosts) + "/"
		}
		if i >= n {
			in, base = fixed[i-n], ""
			if strings.HasPrefix(in, "REF ") { // "REF <base> <reference>"
				t := strings.SplitN(in, " ", 3)
				base, in = t[1], t[2]
			}
		}
		h := &Hist{}
		type res struct {
			u   *url.Url
			err error
		}
		var rs [4]res
		for ci, c := range []*Cfg{defaultCfg, cfgReport, cfgFail, cfgReportFail} {
			var k int
			if base == "" {
				k = h.Parse(c, in)
				rs[ci].u, rs[ci].err = c.Parser.Parse(in)
			} else {
				k = h.ParseRef(c, base, in)
				rs[ci].u, rs[ci].err = c.Parser.ParseRef(base, in)
			}
			_ = k
		}
		tok := strings.Join(h.ops, " ; ")
		orc.Eval("C15")
		d, rp, f, rf := rs[0], rs[1], rs[2], rs[3]
		if !sameResult(d.u, d.err, rp.u, rp.err) {
			orc.Fail("C15", "reporting-changes-result", "reporting changed the result", tok)
		}
		if !sameResult(f.u, f.err, rf.u, rf.err) {
			orc.Fail("C15", "reporting-changes-result", "reporting changed the result of fail mode", tok)
		}
		if f.err == nil && (d.err != nil || getters(f.u) != getters(d.u)) {
			orc.Fail("C15", "failmode-accepts-more-or-differs", "fail mode accepted what the default rejects, or a different URL", tok)
		}
		if base == "" {
			recorded := rp.err == nil && len(rp.u.ValidationErrors()) == 0
			if (f.err == nil) != recorded {
				orc.Fail("C15", "failmode-not-exact", fmt.Sprintf("fail mode accepts=%v, reporting records nothing=%v", f.err == nil, recorded), tok)
			}
		}
		for ci, x := range rs {
			if x.err != nil {
				t := errors.Type(x.err)
				if t == "" || !documented[t] {
					orc.Fail("C15", "untyped-error", "returned error has no documented type: "+x.err.Error(), tok)
				}
				if !errors.Failure(x.err) {
					if ci >= 2 {
						orc.Fail("C15", "failmode-returns-nonfatal-object", "the error returned under fail-on-validation-error is marked non-fatal", tok)
					} else {
						orc.Fail("C15", "returned-error-not-failure", "returned error is not marked as failure", tok)
					}
				}
			} else if x.u != nil {
				for _, e := range x.u.ValidationErrors() {
					if errors.Failure(e) {
						orc.Fail("C15", "recorded-entry-fatal", "an entry recorded on a successfully parsed URL is marked as failure: "+string(errors.Type(e)), tok)
					}
					if t := errors.Type(e); t == "" || !documented[t] {
						orc.Fail("C15", "untyped-error", "recorded entry has no documented type", tok)
					}
				}
			}
		}
		o.EmitHist("e", h)
	}
}

// every ordered pair of setters on a pool of start URLs, with boundary values (a third of the pairs per quick run,
// rotating with the seed); `check` names the per-state oracle to evaluate, `emit` receives every executed history
// after a protocol change, re-assign every component's current text: the setter-only states (file + localhost,
// file + "C|", special + empty host …) are exactly those on which "set it to what it is" is not a no-op
func reassignAfterProtocolChange(emit func(h *Hist), check string, starts []string) {
	for _, st := range starts {
		for _, proto := range []string{"file", "http", "sc", "wss", "ftp:"} {
			for s3 := 0; s3 < 9; s3++ {
				h := &Hist{}
				if check != "" {
					h.Check = map[string]bool{check: true}
				}
				if k := h.ParsePkg(st); k >= 0 {
					h.Set(k, 0, proto)
					h.Set(k, s3, currentValue(h.urls[k], s3))
					h.Set(k, 0, "https")
				}
				emit(h)
			}
		}
	}
}

func setterPairs(r *Rand, n int, emit func(h *Hist), check string) {
	starts := []string{"http://h/", "https://u:p@h:8/a/b?q#f", "file:///C:/x", "file://h/x", "sc://h/p", "sc:/p", "sc:opaque", "sc://", "ftp://h:21/", "ws://h", "sc:opaque ?q#f", "sc:/.//p", "http://[::1]/", "http://1.2.3.4:80/",
		"sc://example.net:0/path", "https://h:0/p", "sc://u@h:0", "http://localhost/C|/x", "http://localhost/dir/f", "http://LOCALHOST:80/c|/x", "sc:   #f", "data:  ?q#f", "sc: ?q", "sc:a  b  #f", "sc://:pw@h/", "sc://h"}
	vals := [][]string{{"file", "http:", "sc", "wss", "1x", ""}, {"u", "", "é:@"}, {"p", "", "/:"}, {"h2:99", "", "[::1]", "h3/x", "1.2.3", "a b", "h:99999", "h:0"},
		{"h2", "", "x:8", "0x7f.1", "xn--a", "localhost"}, {"80", "", "8080x", "65536", "443", "0", "a"}, {"/x/../y", "", "a b", "//x", "C|/"}, {"q=1", "", "?a b'", "#"}, {"f", "", "#g h", "`"}}
	reassignAfterProtocolChange(emit, check, starts)
	// every punctuation character (and the characters next to the set boundaries) as the FIRST and as the LAST character of
	// a setter's value: setters do not strip their argument, so the end of a serialization can hold what parsing an input
	// never leaves there — the only way to see an off-by-one in a strip / trim predicate (S64: `!`, the code point equal to
	// the exclusive bound of the C0-or-space set)
	edge := []string{"!", "\"", "#", "$", "%", "&", "'", "(", ")", "*", "+", ",", "-", ".", "/", ":", ";", "<", "=", ">", "?", "@", "[", "\\", "]", "^", "_", "`", "{", "|", "}", "~",
		" ", "\x1f", "\x7f", "\u0080", "\u00a0", "0", "A"}
	for ei, e := range edge {
		for _, st := range []string{"https://example.com/docs?lang=en#f", "https://example.com/docs?lang=en", "https://example.com/docs", "sc://host:8080/x", "sc:opaque"} {
			for _, setter := range []int{1, 2, 4, 6, 7, 8} {
				if (ei+setter)%2 == int(r.s%2) && n < 50000 {
					continue
				}
				for _, v := range []string{"x" + e, e + "x", e} {
					h := &Hist{}
					if check != "" {
						h.Check = map[string]bool{check: true}
					}
					if k := h.ParsePkg(st); k >= 0 {
						h.Set(k, setter, v)
					}
					emit(h)
				}
			}
		}
	}
	cnt := 0
	for _, st := range starts {
		for s1 := 0; s1 < 9; s1++ {
			for s2 := 0; s2 < 9; s2++ {
				cnt++
				if cnt%3 != int(r.s%3) && n < 50000 {
					continue
				}
				h := &Hist{}
				if check != "" {
					h.Check = map[string]bool{check: true}
				}
				if k := h.ParsePkg(st); k >= 0 {
					h.Set(k, s1, vals[s1][(cnt/7)%len(vals[s1])])
					h.Set(k, s2, vals[s2][(cnt/3)%len(vals[s2])])
					// … then re-assign some component's current text (a no-op on parse results, not on setter-only states)
					s3 := []int{4, 6, 3, 0, 7, 8, 5, 1, 2}[cnt%9]
					h.Set(k, s3, currentValue(h.urls[k], s3))
				}
				emit(h)
			}
		}
	}
}
