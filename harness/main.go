package main

import (
	"bufio"
	"encoding/hex"
	"encoding/json"
	"flag"
	"fmt"
	"os"
	"path/filepath"
	"strings"
	"time"

	"github.com/nlnwa/whatwg-url/url"
)

// Out collects the case lines (for the driver) and the Go observations
type Out struct {
	dir     string
	cases   *bufio.Writer
	obs     *bufio.Writer
	fc, fo  *os.File
	n       int
	curFile string
	Stats   map[string]int
	Samples []string
}

func NewOut(dir string) *Out {
	os.MkdirAll(dir, 0o755)
	fc, err := os.Create(filepath.Join(dir, "cases.txt"))
	if err != nil {
		panic(err)
	}
	fo, err := os.Create(filepath.Join(dir, "go.txt"))
	if err != nil {
		panic(err)
	}
	return &Out{dir: dir, fc: fc, fo: fo, cases: bufio.NewWriterSize(fc, 1<<20), obs: bufio.NewWriterSize(fo, 1<<20),
		Stats: map[string]int{}, curFile: filepath.Join(dir, "current.txt")}
}

func (o *Out) ID(tag string) string {
	o.n++
	return fmt.Sprintf("%s%d", tag, o.n)
}

// Emit one case: line for the driver, observation from Go
func (o *Out) Emit(caseLine, obsLine string) {
	o.cases.WriteString(caseLine)
	o.cases.WriteByte('\n')
	o.obs.WriteString(obsLine)
	o.obs.WriteByte('\n')
	if len(o.Samples) < 5 && len(caseLine) < 600 {
		o.Samples = append(o.Samples, caseLine)
	}
}

func (o *Out) EmitHist(tag string, h *Hist) {
	c, g := h.Line(o.ID(tag))
	o.Emit(c, g)
	o.Stats["histories"]++
	o.Stats["ops"] += len(h.ops)
	o.Stats["panics"] += h.panics
}

func (o *Out) Count(k string) { o.Stats[k]++ }

func (o *Out) Close() {
	o.cases.Flush()
	o.obs.Flush()
	o.fc.Close()
	o.fo.Close()
	m := map[string]interface{}{"stats": o.Stats, "samples": o.Samples, "cases": o.n, "distribution": dist}
	b, _ := json.MarshalIndent(m, "", " ")
	os.WriteFile(filepath.Join(o.dir, "meta.json"), b, 0o644)
}

func watchdog() {
	go func() {
		last := progress
		idle := 0
		for {
			time.Sleep(2 * time.Second)
			if progress == last {
				idle++
				if idle >= 15 {
					fmt.Println("HANG: no progress for 30s; last case tokens are in current.txt")
					os.Exit(3)
				}
			} else {
				idle = 0
				last = progress
			}
		}
	}()
}

func main() {
	if len(os.Args) < 2 {
		fmt.Println("usage: vharness gen|idna|oracle|selfcheck ...")
		os.Exit(2)
	}
	initCfgs()
	switch os.Args[1] {
	case "gen":
		fs := flag.NewFlagSet("gen", flag.ExitOnError)
		stream := fs.String("stream", "mixed", "stream name")
		seed := fs.Uint64("seed", 1, "seed")
		n := fs.Int("n", 1000, "number of random cases")
		out := fs.String("out", "", "output directory")
		fs.Parse(os.Args[2:])
		watchdog()
		o := NewOut(*out)
		runStream(*stream, NewRand(*seed), *n, o)
		o.Close()
	case "idna":
		// answers oracle queries: args are x<hex>; prints x<src>=x<out>=<0|1>
		for _, a := range os.Args[2:] {
			b, _ := hex.DecodeString(strings.TrimPrefix(a, "x"))
			out, err := url.VerifRawIdna(string(b))
			fmt.Printf("%s=%s=%s\n", xs(string(b)), xs(out), b01(err != nil))
		}
	default:
		if !extraCommand(os.Args[1], os.Args[2:]) {
			fmt.Println("unknown command", os.Args[1])
			os.Exit(2)
		}
	}
}
