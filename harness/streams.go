package main

// Streams: which cases a property's correspondence run consists of.

import (
	"encoding/json"
	"fmt"
	"os"
	"strings"

	"github.com/nlnwa/whatwg-url/canonicalizer"
	"github.com/nlnwa/whatwg-url/url"
)

type HistOpts struct {
	Cfg     func(r *Rand) *Cfg
	Setters bool
	Resolve bool
	Clone   bool
	SP      bool
	SSP     bool
	Canon   bool
	NewUrl  bool
	Reparse bool // re-parse Href(false) of the touched handle after every op (C03)
	Check   map[string]bool
	MinOps  int
	MaxOps  int
}

func startHist(r *Rand, c *Cfg, h *Hist) int {
	switch r.N(10) {
	case 0, 1:
		return h.ParseRef(c, genBase(r), genRef(r, ""))
	case 2:
		if c == defaultCfg {
			return h.ParsePkg(genInput(r))
		}
		return h.Parse(c, genInput(r))
	case 3:
		return h.Parse(c, r.Pick(basePool))
	default:
		return h.Parse(c, genInputFor(r, c))
	}
}

func (h *Hist) reparse(k int) {
	if k >= 0 && k < len(h.urls) {
		h.Parse(defaultCfg, h.urls[k].Href(false))
	}
}

// randomHistory builds and executes one history
func randomHistory(r *Rand, o HistOpts) *Hist {
	h := &Hist{Check: o.Check}
	c := o.Cfg(r)
	k := startHist(r, c, h)
	if k < 0 && r.P(70) {
		k = h.Parse(c, r.Pick(basePool))
	}
	if o.NewUrl && r.P(5) {
		h.NewUrl(c)
	}
	nops := o.MinOps
	if o.MaxOps > o.MinOps {
		nops += r.N(o.MaxOps - o.MinOps + 1)
	}
	for i := 0; i < nops && len(h.urls) > 0; i++ {
		k := r.N(len(h.urls))
		choice := r.N(100)
		switch {
		case choice < 45 && o.Setters:
			s := r.N(9)
			v := genSetterValue(r, s)
			if r.P(15) {
				// re-assign the component's CURRENT text (or a neighbour's): a no-op on every parse result, but not on states that
				// only setters reach (file + localhost, file + "C|" after a protocol change, a list out of step with the query)
				v = currentValue(h.urls[k], []int{s, s, s, r.N(9)}[r.N(4)])
			}
			h.Set(k, s, v)
			if o.Reparse {
				h.reparse(k)
			}
		case choice < 55 && o.Resolve:
			nk := h.Resolve(k, genRef(r, h.urls[k].Scheme()))
			if o.Reparse {
				h.reparse(nk)
			}
		case choice < 62 && o.Clone:
			h.Clone(k)
		case choice < 90 && o.SP:
			var s int
			if len(h.sps) == 0 || r.P(30) {
				s = h.Grab(k)
			} else {
				s = r.N(len(h.sps))
			}
			if s < 0 {
				continue
			}
			switch r.N(12) {
			case 0, 1, 2:
				h.QAppend(s, r.Pick(spNames), r.Pick(spValues))
			case 3:
				h.QDelete(s, r.Pick(spNames))
			case 4, 5:
				h.QSet(s, r.Pick(spNames), r.Pick(spValues))
			case 6:
				h.QSort(s)
			case 7:
				h.QSortAbs(s)
			case 8:
				h.QGet(s, r.Pick(spNames))
				h.QGetAll(s, r.Pick(spNames))
				h.QHas(s, r.Pick(spNames))
			case 9:
				h.QString(s)
			case 10:
				h.QIter(s, r.N(3))
			default:
				h.Set(k, 7, genSetterValue(r, 7))
			}
		case choice < 93 && o.SSP && len(h.sps) > 0:
			h.SetSearchParams(k, r.N(len(h.sps)))
		case choice < 97 && o.Canon:
			h.Canonicalize(randomProf(r), k)
		default:
			if o.Setters {
				s := r.N(9)
				h.Set(k, s, genSetterValue(r, s))
			}
		}
	}
	return h
}

// the text the getter of setter kind s returns now
func currentValue(u *url.Url, s int) string {
	switch s {
	case 0:
		return u.Protocol()
	case 1:
		return u.Username()
	case 2:
		return u.Password()
	case 3:
		return u.Host()
	case 4:
		return u.Hostname()
	case 5:
		return u.Port()
	case 6:
		return u.Pathname()
	case 7:
		return u.Search()
	default:
		return u.Hash()
	}
}

func allOps(cfg func(r *Rand) *Cfg) HistOpts {
	return HistOpts{Cfg: cfg, Setters: true, Resolve: true, Clone: true, SP: true, SSP: true, Canon: true, NewUrl: true, MinOps: 0, MaxOps: 8}
}

func onlyDefault(r *Rand) *Cfg { return defaultCfg }

// ---- WPT corpus -----------------------------------------------------------------------------------

type wptCase struct {
	Input string  `json:"input"`
	Base  *string `json:"base"`
}

func loadWPT() []wptCase {
	var raw []json.RawMessage
	b, err := os.ReadFile("/repo/testdata/urltestdata.json")
	if err != nil {
		return nil
	}
	if json.Unmarshal(b, &raw) != nil {
		return nil
	}
	var res []wptCase
	for _, m := range raw {
		var c wptCase
		if len(m) > 0 && m[0] == '{' && json.Unmarshal(m, &c) == nil {
			res = append(res, c)
		}
	}
	return res
}

type setterCase struct {
	Href     string `json:"href"`
	NewValue string `json:"new_value"`
}

func loadSetterWPT() map[string][]setterCase {
	b, err := os.ReadFile("/repo/testdata/setters_tests.json")
	if err != nil {
		return nil
	}
	var raw map[string]json.RawMessage
	if json.Unmarshal(b, &raw) != nil {
		return nil
	}
	res := map[string][]setterCase{}
	for k, v := range raw {
		var l []setterCase
		if json.Unmarshal(v, &l) == nil {
			res[k] = l
		}
	}
	return res
}

// ---- streams --------------------------------------------------------------------------------------

func runStream(name string, r *Rand, n int, o *Out) {
	switch name {
	case "mixed":
		streamCorpus(o)
		for i := 0; i < n; i++ {
			rr := r.Fork()
			var h *Hist
			switch i % 4 {
			case 0:
				h = randomHistory(rr, allOps(onlyDefault))
			case 1:
				h = randomHistory(rr, allOps(randomCfg))
			case 2:
				h = &Hist{}
				p := randomProf(rr)
				k := h.CanonParse(p, genInput(rr))
				if k >= 0 && rr.P(50) {
					h.CanonParse(p, h.urls[k].Href(false))
				}
				if rr.P(30) {
					h.CanonParseRef(p, genBase(rr), genRef(rr, ""))
				}
			default:
				h = &Hist{}
				c := randomCfg(rr)
				h.ParseRef(c, genBase(rr), genRef(rr, ""))
				if len(h.urls) > 0 {
					h.Resolve(0, genRef(rr, h.urls[0].Scheme()))
				}
			}
			o.EmitHist("m", h)
		}
		streamLeaves(r.Fork(), n/2, o)
	default:
		if !propStream(name, r, n, o) {
			fmt.Println("unknown stream", name)
			os.Exit(2)
		}
	}
}

// the WPT vectors and their setter vectors as histories
func streamCorpus(o *Out) {
	for _, c := range loadWPT() {
		h := &Hist{}
		if c.Base != nil {
			h.ParseRefPkg(*c.Base, c.Input)
		} else {
			h.ParsePkg(c.Input)
		}
		o.EmitHist("w", h)
	}
	for name, l := range loadSetterWPT() {
		k := -1
		for i, s := range setterNames {
			if s == name {
				k = i
			}
		}
		if k < 0 {
			continue
		}
		for _, c := range l {
			h := &Hist{}
			if u := h.ParsePkg(c.Href); u >= 0 {
				h.Set(u, k, c.NewValue)
			}
			o.EmitHist("s", h)
		}
	}
}

func leafHost(o *Out, c *Cfg, notSpecial bool, s string) {
	id := o.ID("lh")
	h, err := url.VerifParseHost(c.Parser, s, notSpecial)
	res := "ok " + xs(h)
	if err != nil {
		res = errTok(err)
	}
	o.Emit(fmt.Sprintf("%s LH - %s %s %s", id, c.Tok, b01(notSpecial), xs(s)), id+"\t"+res)
}

func leafSimple(o *Out, kind string, arg string, res string) {
	id := o.ID("l")
	o.Emit(id+" "+kind+" "+arg, id+"\t"+res)
}

func hostRes(h string, err error) string {
	if err != nil {
		return errTok(err)
	}
	return "ok " + xs(h)
}

func recovered(f func() string) (res string) {
	defer func() {
		if p := recover(); p != nil {
			res = "PANIC"
			lastPanic = fmt.Sprint(p)
		}
	}()
	return f()
}

func streamLeaves(r *Rand, n int, o *Out) {
	for i := 0; i < n; i++ {
		progress++
		switch i % 10 {
		case 0:
			s := genIPv4(r)
			leafSimple(o, "L4", xs(s), recovered(func() string { return hostRes(url.VerifParseIPv4(s)) }))
			leafSimple(o, "LE", xs(s), recovered(func() string { return b01(url.VerifEndsInANumber(s)) }))
		case 1:
			s := genIPv6Text(r)
			leafSimple(o, "L6", xs(s), recovered(func() string { return hostRes(url.VerifParseIPv6(s)) }))
		case 2:
			var a url.IPv6Addr
			parts := make([]string, 8)
			zero := r.N(256)
			for k := 0; k < 8; k++ {
				if zero&(1<<uint(k)) == 0 {
					a[k] = uint16(r.N(0x10000) >> uint(4*r.N(4)))
				}
				parts[k] = fmt.Sprint(a[k])
			}
			leafSimple(o, "L6S", strings.Join(parts, ","), xs(a.String()))
		case 3:
			c := randomCfg(r)
			leafHost(o, c, r.P(30), genHost(r))
		case 4:
			c := randomCfg(r)
			set := randSet(r, url.PathPercentEncodeSet)
			s := r.Pick(segPool) + r.Pick(queryPool) + r.Pick(userPool)
			leafSimple(o, "LENC", c.Tok+" "+setTok(set)+" "+xs(s), xs(c.Parser.PercentEncodeString(s, set)))
		case 5:
			c := randomCfg(r)
			s := pctSome(r, r.Pick(segPool)+r.Pick(queryPool)+r.Pick(weirdHosts), 40)
			leafSimple(o, "LDEC", c.Tok+" "+xs(s), xs(url.VerifDecodePercentEncoded(c.Parser, s)))
		case 6:
			s := genGarbage(r)
			rs := []rune(s)
			p := make([]string, len(rs))
			for k, c := range rs {
				p[k] = fmt.Sprint(int(c))
			}
			leafSimple(o, "LR", xs(s), strings.Join(p, ","))
			t, ch := url.VerifTrim(s)
			leafSimple(o, "LTRIM", xs(s), xs(t)+" "+b01(ch))
			t, ch = url.VerifRemove(s)
			leafSimple(o, "LREM", xs(s), xs(t)+" "+b01(ch))
		case 7:
			c := randomCfg(r)
			q := r.Pick(queryPool) + r.Pick([]string{"", "&", "&&", "=", "+"}) + r.Pick(queryPool)
			leafSimple(o, "LSPI", c.Tok+" "+xs(q), pairsTok(url.VerifSearchParamsInit(c.Parser, q)))
		case 8:
			set := randSet(r, url.QueryPercentEncodeSet)
			s := pctSome(r, pctSome(r, r.Pick(segPool)+r.Pick(queryPool), 40), 30)
			leafSimple(o, "LDE", setTok(set)+" "+xs(s), xs(canonicalizer.VerifDecodeEncode(s, set)))
			leafSimple(o, "LRD", xs(s), xs(canonicalizer.VerifRepeatedDecode(s)))
		default:
			n := uint32(r.U64())
			leafSimple(o, "L4S", fmt.Sprint(n), xs(url.IPv4Addr(n).String()))
		}
	}
}

// leafObs: the stored fields of a url value (from the hook dump) as a case for the driver, the getters/accessors of the
// real object as the expected observation. Ties the model's serializer and accessors to the Go ones on exactly the states
// the Go code reached, independently of how they were reached.
var lobsSeen = map[string]bool{}

func leafObs(o *Out, u *url.Url, c *Cfg) {
	d := url.VerifDump(u)
	opt := func(p *string) string {
		if p == nil {
			return "-"
		}
		return xs(*p)
	}
	segs := "-"
	if len(d.Segs) > 0 {
		p := make([]string, len(d.Segs))
		for i, s := range d.Segs {
			p[i] = hx(s)
		}
		segs = strings.Join(p, ",")
	}
	arg := strings.Join([]string{c.Tok, xs(d.Scheme), xs(d.Username), xs(d.Password), opt(d.Host), opt(d.Port), fmt.Sprint(d.DecodedPort), b01(d.Opaque), segs, opt(d.Query), opt(d.Fragment)}, " ")
	if lobsSeen[arg] {
		return
	}
	lobsSeen[arg] = true
	f := strings.Split(obsUrl(u, nil), "|")
	leafSimple(o, "LOBS", arg, strings.Join(f[:19], "|"))
}
