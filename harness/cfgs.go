package main

import (
	"golang.org/x/text/encoding/charmap"

	"github.com/nlnwa/whatwg-url/canonicalizer"
	"github.com/nlnwa/whatwg-url/url"
)

var defaultCfg *Cfg
var cfgReport, cfgFail, cfgReportFail *Cfg
var profWhatWg, profWhatWgSort, profGSB, profSemantic *Prof
var predefinedProfiles []*Prof

func initCfgs() {
	defaultCfg = newCfg("default", url.NewParser(), 0, 0)
	cfgReport = newCfg("report", url.NewParser(url.WithReportValidationErrors()), 0, 0)
	cfgFail = newCfg("fail", url.NewParser(url.WithFailOnValidationError()), 0, 0)
	cfgReportFail = newCfg("report+fail", url.NewParser(url.WithReportValidationErrors(), url.WithFailOnValidationError()), 0, 0)
	profWhatWg = newProf("WhatWg", canonicalizer.WhatWg, 0, 0)
	profWhatWgSort = newProf("WhatWgSortQuery", canonicalizer.WhatWgSortQuery, 0, 0)
	profGSB = newProf("GoogleSafeBrowsing", canonicalizer.GoogleSafeBrowsing, 1, 0)
	profSemantic = newProf("Semantic", canonicalizer.Semantic, 2, 0)
	predefinedProfiles = []*Prof{profWhatWg, profWhatWgSort, profGSB, profSemantic}
}

// the 19 parser option constructors, with representative arguments for the non-boolean ones
type optSpec struct {
	Name string
	Mk   func(r *Rand) (url.ParserOption, int, int) // option, pre id, post id
}

func randSet(r *Rand, base *url.PercentEncodeSet) *url.PercentEncodeSet {
	s := base
	n := r.N(4)
	for i := 0; i < n; i++ {
		c := uint(0x20 + r.N(0x5f))
		if r.P(50) {
			s = s.Set(c)
		} else {
			s = s.Clear(c)
		}
	}
	if r.P(10) {
		s = url.NewPercentEncodeSet(int32(r.N(0x30)), uint(0x20+r.N(0x5f)))
	}
	if r.P(25) {
		s = s.Set('%') // the set decides what happens to a '%' that starts no escape
	}
	return s
}

var gopherSchemes = map[string]string{"ftp": "21", "file": "", "http": "80", "https": "443", "ws": "80", "wss": "443", "gopher": "70"}

var optSpecs = []optSpec{
	{"ReportValidationErrors", func(r *Rand) (url.ParserOption, int, int) { return url.WithReportValidationErrors(), 0, 0 }},
	{"FailOnValidationError", func(r *Rand) (url.ParserOption, int, int) { return url.WithFailOnValidationError(), 0, 0 }},
	{"LaxHostParsing", func(r *Rand) (url.ParserOption, int, int) { return url.WithLaxHostParsing(), 0, 0 }},
	{"CollapseConsecutiveSlashes", func(r *Rand) (url.ParserOption, int, int) { return url.WithCollapseConsecutiveSlashes(), 0, 0 }},
	{"AcceptInvalidCodepoints", func(r *Rand) (url.ParserOption, int, int) { return url.WithAcceptInvalidCodepoints(), 0, 0 }},
	{"PreParseHostFunc", func(r *Rand) (url.ParserOption, int, int) {
		id := 1 + r.N(5)
		return url.WithPreParseHostFunc(hostFns[id]), id, 0
	}},
	{"PostParseHostFunc", func(r *Rand) (url.ParserOption, int, int) {
		id := 3 + r.N(3)
		return url.WithPostParseHostFunc(hostFns[id]), 0, id
	}},
	{"PercentEncodeSinglePercentSign", func(r *Rand) (url.ParserOption, int, int) { return url.WithPercentEncodeSinglePercentSign(), 0, 0 }},
	{"AllowSettingPathForNonBaseUrl", func(r *Rand) (url.ParserOption, int, int) { return url.WithAllowSettingPathForNonBaseUrl(), 0, 0 }},
	{"SkipWindowsDriveLetterNormalization", func(r *Rand) (url.ParserOption, int, int) {
		return url.WithSkipWindowsDriveLetterNormalization(), 0, 0
	}},
	{"SpecialSchemes", func(r *Rand) (url.ParserOption, int, int) {
		switch r.N(4) {
		case 0:
			return url.WithSpecialSchemes(gopherSchemes), 0, 0
		case 1:
			return url.WithSpecialSchemes(map[string]string{"http": "80", "file": "", "sc": "7", "a+b": ""}), 0, 0
		case 2:
			return url.WithSpecialSchemes(map[string]string{}), 0, 0
		default:
			return url.WithSpecialSchemes(map[string]string{"ftp": "21", "file": "", "http": "8080", "https": "443", "ws": "80", "wss": "443", "foo": "x1"}), 0, 0
		}
	}},
	{"SkipTrailingSlashNormalization", func(r *Rand) (url.ParserOption, int, int) { return url.WithSkipTrailingSlashNormalization(), 0, 0 }},
	{"EncodingOverride", func(r *Rand) (url.ParserOption, int, int) {
		if r.P(30) {
			// not only Latin-1: an EBCDIC code page (not ASCII-compatible), a Windows and a Cyrillic one, the DOS one
			return url.WithEncodingOverride(charmapsUsed[1+r.N(len(charmapsUsed)-1)]), 0, 0
		}
		return url.WithEncodingOverride(charmap.ISO8859_1), 0, 0
	}},
	{"PathPercentEncodeSet", func(r *Rand) (url.ParserOption, int, int) {
		return url.WithPathPercentEncodeSet(randSet(r, url.PathPercentEncodeSet)), 0, 0
	}},
	{"QueryPercentEncodeSet", func(r *Rand) (url.ParserOption, int, int) {
		return url.WithQueryPercentEncodeSet(randSet(r, url.QueryPercentEncodeSet)), 0, 0
	}},
	{"SpecialQueryPercentEncodeSet", func(r *Rand) (url.ParserOption, int, int) {
		return url.WithSpecialQueryPercentEncodeSet(randSet(r, url.SpecialQueryPercentEncodeSet)), 0, 0
	}},
	{"FragmentPathPercentEncodeSet", func(r *Rand) (url.ParserOption, int, int) {
		return url.WithFragmentPathPercentEncodeSet(randSet(r, url.FragmentPercentEncodeSet)), 0, 0
	}},
	{"SpecialFragmentPathPercentEncodeSet", func(r *Rand) (url.ParserOption, int, int) {
		return url.WithSpecialFragmentPathPercentEncodeSet(randSet(r, url.FragmentPercentEncodeSet)), 0, 0
	}},
	{"SkipEqualsForEmptySearchParamsValue", func(r *Rand) (url.ParserOption, int, int) {
		return url.WithSkipEqualsForEmptySearchParamsValue(), 0, 0
	}},
}

// cfgFromMask builds the parser with exactly the options whose bit is set
func cfgFromMask(r *Rand, mask uint32) *Cfg {
	var opts []url.ParserOption
	pre, post := 0, 0
	name := ""
	for i, s := range optSpecs {
		if mask&(1<<uint(i)) != 0 {
			o, a, b := s.Mk(r)
			opts = append(opts, o)
			if a != 0 {
				pre = a
			}
			if b != 0 {
				post = b
			}
			name += s.Name + "+"
		}
	}
	return newCfg(name, url.NewParser(opts...), pre, post)
}

// randomCfg: a few options on, weighted toward small sets
func randomCfg(r *Rand) *Cfg {
	if r.P(30) {
		return defaultCfg
	}
	var mask uint32
	n := 1 + r.N(4)
	if r.P(10) {
		n = r.N(len(optSpecs))
	}
	for i := 0; i < n; i++ {
		mask |= 1 << uint(r.N(len(optSpecs)))
	}
	return cfgFromMask(r, mask)
}

// a composed canonicalizer profile from a mask over the six canonicalizer options plus a parser configuration
func profFromMask(r *Rand, cmask int, pmask uint32) *Prof {
	var opts []url.ParserOption
	pre, post := 0, 0
	for i, s := range optSpecs {
		if pmask&(1<<uint(i)) != 0 {
			o, a, b := s.Mk(r)
			opts = append(opts, o)
			if a != 0 {
				pre = a
			}
			if b != 0 {
				post = b
			}
		}
	}
	if cmask&1 != 0 {
		opts = append(opts, canonicalizer.WithRemoveUserInfo())
	}
	if cmask&2 != 0 {
		opts = append(opts, canonicalizer.WithRemovePort())
	}
	if cmask&4 != 0 {
		opts = append(opts, canonicalizer.WithRemoveFragment())
	}
	if cmask&8 != 0 {
		opts = append(opts, canonicalizer.WithRepeatedPercentDecoding())
	}
	if cmask&16 != 0 {
		opts = append(opts, canonicalizer.WithDefaultScheme([]string{"http", "https", "sc", "file", "http", "my_app", "1http", "web site", "a:b", "\xff"}[r.N(10)]))
	}
	switch (cmask >> 5) & 3 {
	case 1:
		opts = append(opts, canonicalizer.WithSortQuery(canonicalizer.SortKeys))
	case 2:
		opts = append(opts, canonicalizer.WithSortQuery(canonicalizer.SortParameter))
	}
	return newProf("composed", canonicalizer.New(opts...), pre, post)
}

func randomProf(r *Rand) *Prof {
	switch r.N(8) {
	case 0:
		return profWhatWg
	case 1:
		return profWhatWgSort
	case 2:
		return profGSB
	case 3:
		return profSemantic
	default:
		var pmask uint32
		if r.P(30) {
			pmask = 1 << uint(r.N(len(optSpecs)))
		}
		return profFromMask(r, r.N(96), pmask)
	}
}
