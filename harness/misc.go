package main

func costCommand(args []string) bool  { return false }
func raceCommand(args []string) bool  { return false }
func factsCommand(args []string) bool { return false }
