package main

// C20: allocation growth measurement; C14: concurrent use under the race detector.

import (
	"encoding/json"
	"fmt"
	"os"
	"runtime"
	"sort"
	"strings"
	"sync"
	"time"

	"github.com/nlnwa/whatwg-url/canonicalizer"
	"github.com/nlnwa/whatwg-url/url"
)

// ---- C20 ---------------------------------------------------------------------------------------------------

type family struct {
	Name   string
	Gen    func(n int) string
	Op     string // parse | href | pathname | searchparams | getters | canon
	TScale int    // wall time is measured at TScale*n and 4*TScale*n (default 16; smaller for families known to be quadratic)
}

var families = []family{
	{"long-opaque-path", func(n int) string { return "sc:" + strings.Repeat("a", n) }, "parse", 0},
	{"long-scheme-specific-non-ascii", func(n int) string { return "sc:" + strings.Repeat("é", n) }, "parse", 0},
	{"long-username", func(n int) string { return "http://" + strings.Repeat("u", n) + "@h/" }, "parse", 0},
	{"long-password", func(n int) string { return "http://u:" + strings.Repeat("p", n) + "@h/" }, "parse", 0},
	{"many-at", func(n int) string { return "http://" + strings.Repeat("@", n) + "h/" }, "parse", 0},
	{"many-colon-in-credentials", func(n int) string { return "http://" + strings.Repeat(":", n) + "@h/" }, "parse", 0},
	{"long-opaque-host", func(n int) string { return "sc://" + strings.Repeat("h", n) + "/" }, "parse", 0},
	{"long-opaque-host-percent", func(n int) string { return "sc://" + strings.Repeat("%41", n/3) + "/" }, "parse", 0},
	{"long-domain-host", func(n int) string { return "http://" + strings.Repeat("a.", n/2) + "com/" }, "parse", 0},
	{"long-domain-host-escaped", func(n int) string { return "http://" + strings.Repeat("%61", n/3) + ".com/" }, "parse", 0},
	{"many-path-segments", func(n int) string { return "http://h" + strings.Repeat("/a", n/2) }, "parse", 0},
	{"many-slashes", func(n int) string { return "http://h" + strings.Repeat("/", n) }, "parse", 0},
	{"many-backslashes", func(n int) string { return "http://h" + strings.Repeat("\\", n) }, "parse", 0},
	{"many-dot-segments", func(n int) string { return "http://h" + strings.Repeat("/a/..", n/5) }, "parse", 0},
	{"two-segments-then-dot-dot", func(n int) string { return "http://h" + strings.Repeat("/a/b/..", n/7) }, "parse", 0},
	{"three-segments-then-two-dot-dot", func(n int) string { return "http://h" + strings.Repeat("/a/b/c/../..", n/12) }, "parse", 0},
	{"two-segments-then-escaped-dot-dot", func(n int) string { return "sc://h" + strings.Repeat("/a/b/%2e%2E", n/11) }, "parse", 0},
	{"two-segments-then-dot-dot-href", func(n int) string { return "http://h" + strings.Repeat("/a/b/..", n/7) }, "href", 0},
	{"dot-and-empty-segments", func(n int) string { return "http://h" + strings.Repeat("/.//a", n/5) }, "parse", 0},
	{"file-drive-and-dot-dot", func(n int) string { return "file:///C:" + strings.Repeat("/a/b/..", n/7) }, "parse", 0},
	{"relative-two-segments-then-dot-dot", func(n int) string { return strings.Repeat("a/b/../", n/7) }, "resolve", 0},
	{"credentials-escaped", func(n int) string {
		return "http://" + strings.Repeat("%41", n/6) + ":" + strings.Repeat(" ", n/2) + "@h/"
	}, "parse", 0},
	{"at-and-colon-mixed", func(n int) string { return "http://" + strings.Repeat("a:@", n/3) + "h/" }, "parse", 0},
	{"query-many-empty-pairs", func(n int) string { return "http://h/?" + strings.Repeat("&", n) }, "searchparams", 0},
	{"query-plus-and-escapes", func(n int) string { return "http://h/?" + strings.Repeat("a+b=%20c&", n/9) }, "searchparams", 0},
	{"fragment-non-ascii", func(n int) string { return "http://h/#" + strings.Repeat("é", n/2) }, "parse", 0},
	{"opaque-path-non-url-units", func(n int) string { return "sc:" + strings.Repeat("\"", n) }, "parse", 0},
	{"many-double-dot-segments", func(n int) string { return "http://h" + strings.Repeat("/..", n/3) }, "parse", 0},
	{"many-escaped-dot-segments", func(n int) string { return "http://h" + strings.Repeat("/%2e", n/4) }, "parse", 0},
	{"long-path-segment-encoded", func(n int) string { return "http://h/" + strings.Repeat(" a", n/2) }, "parse", 0},
	{"long-query", func(n int) string { return "http://h/?" + strings.Repeat("q", n) }, "parse", 0},
	{"long-query-encoded", func(n int) string { return "http://h/?" + strings.Repeat("\"", n) }, "parse", 0},
	{"many-parameters", func(n int) string { return "http://h/?" + strings.Repeat("a=1&", n/4) }, "parse", 0},
	{"long-fragment", func(n int) string { return "http://h/#" + strings.Repeat("f", n) }, "parse", 0},
	{"long-fragment-percent", func(n int) string { return "http://h/#" + strings.Repeat("%", n) }, "parse", 0},
	{"long-port-digits", func(n int) string { return "http://h:" + strings.Repeat("0", n) + "80/" }, "parse", 0},
	{"leading-whitespace", func(n int) string { return strings.Repeat(" ", n) + "http://h/" }, "parse", 0},
	{"embedded-tabs", func(n int) string { return "http://h/" + strings.Repeat("a\t", n/2) }, "parse", 0},
	{"long-file-path", func(n int) string { return "file:///C:" + strings.Repeat("/a", n/2) }, "parse", 0},
	{"relative-many-segments", func(n int) string { return strings.Repeat("../a/", n/5) }, "resolve", 0},
	{"ipv6-long", func(n int) string { return "http://[" + strings.Repeat("1:", n/2) + "]/" }, "parse", 0},
	{"many-path-segments-href", func(n int) string { return "http://h" + strings.Repeat("/a", n/2) }, "href", 0},
	{"many-path-segments-pathname", func(n int) string { return "http://h" + strings.Repeat("/a", n/2) }, "pathname", 0},
	{"long-query-href", func(n int) string { return "http://h/?" + strings.Repeat("q", n) }, "href", 0},
	{"many-parameters-searchparams", func(n int) string { return "http://h/?" + strings.Repeat("a=1&", n/4) }, "searchparams", 0},
	{"long-parameter-searchparams", func(n int) string { return "http://h/?a=" + strings.Repeat("%41", n/3) }, "searchparams", 0},
	{"many-parameters-sort", func(n int) string { return "http://h/?" + strings.Repeat("b=1&a=2&", n/8) }, "sort", 0},
	{"getters-long-url", func(n int) string {
		return "http://" + strings.Repeat("u", 10) + "@h/" + strings.Repeat("a/", n/4) + "?" + strings.Repeat("q", n/4) + "#" + strings.Repeat("f", n/4)
	}, "getters", 0},
	{"canon-gsb-many-segments", func(n int) string { return "http://h" + strings.Repeat("/%2561", n/6) }, "canon-gsb", 0},
	{"canon-gsb-long-query", func(n int) string { return "http://h/?" + strings.Repeat("a=%2562&", n/8) }, "canon-gsb", 0},
	{"invalid-bytes-path-accept-invalid", func(n int) string { return "http://h/" + strings.Repeat("\xf0\x9f", n/2) }, "parse-accept-invalid", 0},
	{"invalid-bytes-host-accept-invalid", func(n int) string { return "http://" + strings.Repeat("\xff", n) + "/" }, "parse-accept-invalid", 0},
	{"invalid-bytes-query-accept-invalid", func(n int) string { return "http://h/?" + strings.Repeat("a\xfe", n/2) }, "parse-accept-invalid", 0},
	{"invalid-bytes-gsb", func(n int) string { return strings.Repeat("\xf0\x9f", n/2) }, "canon-gsb", 0},
	{"invalid-bytes-path-gsb", func(n int) string { return "http://h/" + strings.Repeat("\xf0\x9f/", n/3) }, "canon-gsb", 0},
	{"invalid-bytes-semantic", func(n int) string { return "http://h/#" + strings.Repeat("\xc3", n) }, "canon-semantic", 0},
	{"invalid-bytes-default-parser", func(n int) string { return "http://h/" + strings.Repeat("\xf0\x9f", n/2) }, "parse", 0},
	// the nesting DEPTH of an escape (each decoding round strips one level and costs a pass over the text): known finding F26
	{"nested-escape-depth-path-gsb", func(n int) string { return "http://h/%" + strings.Repeat("25", n/2) + "41" }, "canon-gsb", 2},
	{"nested-escape-depth-query-semantic", func(n int) string { return "http://h/?a=%" + strings.Repeat("25", n/2) + "41" }, "canon-semantic", 2},
	// a long scheme next to a long path under a special-scheme table of more than eight entries (the per-code-point
	// special-scheme test hashes the whole scheme): known finding F27
	{"long-scheme-long-path-big-special-map", func(n int) string { return strings.Repeat("a", n) + ":/" + strings.Repeat("b", n) }, "parse-big-special-map", 32},
	{"long-scheme-long-path", func(n int) string { return strings.Repeat("a", n) + ":/" + strings.Repeat("b", n) }, "parse", 0},
	{"canon-semantic-many-segments", func(n int) string { return "http://h" + strings.Repeat("/a", n/2) + "?b=1&a=2" }, "canon-semantic", 0},
}

var bigSpecialMapParser = url.NewParser(url.WithSpecialSchemes(map[string]string{"ftp": "21", "file": "", "http": "80", "https": "443", "ws": "80", "wss": "443", "s1": "1", "s2": "2", "s3": "3", "s4": "4"}))
var acceptInvalidParser = url.NewParser(url.WithAcceptInvalidCodepoints(), url.WithLaxHostParsing())

func runOp(f family, in string, u *url.Url, base *url.Url) {
	switch f.Op {
	case "parse":
		_, _ = url.Parse(in)
	case "parse-accept-invalid":
		_, _ = acceptInvalidParser.Parse(in)
	case "parse-big-special-map":
		_, _ = bigSpecialMapParser.Parse(in)
	case "resolve":
		_, _ = base.Parse(in)
	case "href":
		_ = u.Href(false)
	case "pathname":
		_ = u.Pathname()
	case "searchparams":
		sp := u.SearchParams()
		_ = sp.String()
	case "sort":
		sp := u.SearchParams()
		sp.Sort()
	case "getters":
		_ = u.Protocol() + u.Username() + u.Password() + u.Host() + u.Hostname() + u.Port() + u.Search() + u.Hash() + u.Query() + u.Fragment()
		_ = u.IsIPv4()
		_ = u.IsIPv6()
		_ = u.DecodedPort()
	case "canon-gsb":
		_, _ = canonicalizer.GoogleSafeBrowsing.Parse(in)
	case "canon-semantic":
		_, _ = canonicalizer.Semantic.Parse(in)
	}
}

func prepOp(f family, n int) (in string, u *url.Url, base *url.Url, ok bool) {
	in = f.Gen(n)
	base, _ = url.Parse("http://h/a/b/c")
	if !strings.HasPrefix(f.Op, "parse") && f.Op != "resolve" && !strings.HasPrefix(f.Op, "canon") {
		u, _ = url.Parse(in)
		if u == nil {
			return in, nil, base, false
		}
	}
	return in, u, base, true
}

func measure(f family, n int) (alloc, mallocs uint64) {
	in, u, base, ok := prepOp(f, n)
	if !ok {
		return 0, 0
	}
	runtime.GC()
	var m0, m1 runtime.MemStats
	runtime.ReadMemStats(&m0)
	runOp(f, in, u, base)
	runtime.ReadMemStats(&m1)
	return m1.TotalAlloc - m0.TotalAlloc, m1.Mallocs - m0.Mallocs
}

// the work done: wall time of the operation, the minimum of three runs (a fresh parse for the stateful operations)
func timeOp(f family, n int) time.Duration {
	best := time.Duration(0)
	for k := 0; k < 3; k++ {
		in, u, base, ok := prepOp(f, n)
		if !ok {
			return 0
		}
		t := time.Now()
		runOp(f, in, u, base)
		d := time.Since(t)
		if k == 0 || d < best {
			best = d
		}
	}
	return best
}

func costCommand(args []string) bool {
	n := 2000
	if len(args) > 0 {
		fmt.Sscan(args[0], &n)
	}
	type row struct {
		Family     string  `json:"family"`
		Op         string  `json:"op"`
		N          int     `json:"n"`
		Alloc1     uint64  `json:"alloc_n"`
		Alloc4     uint64  `json:"alloc_4n"`
		Mallocs1   uint64  `json:"mallocs_n"`
		Mallocs4   uint64  `json:"mallocs_4n"`
		AllocRatio float64 `json:"alloc_ratio"`
		MallocRat  float64 `json:"mallocs_ratio"`
		TimeN      int64   `json:"time_ns_16n"`
		Time4N     int64   `json:"time_ns_64n"`
		TimeRatio  float64 `json:"time_ratio"`
	}
	only := ""
	if len(args) > 1 {
		only = args[1] // measure this family only (the confirmation of a time-only failure)
	}
	var rows []row
	for _, f := range families {
		if only != "" && f.Name != only {
			continue
		}
		// announce the family first (one JSON object per line, flushed): if the process is killed while measuring it
		// (a quadratic family can exhaust memory or time), the reader knows which one it was
		fmt.Printf("{\"starting\": %q}\n", f.Name)
		measure(f, 64) // warm up
		a1, m1 := measure(f, n)
		a4, m4 := measure(f, 4*n)
		r := row{Family: f.Name, Op: f.Op, N: n, Alloc1: a1, Alloc4: a4, Mallocs1: m1, Mallocs4: m4}
		if a1 > 0 {
			r.AllocRatio = float64(a4) / float64(a1)
		}
		if m1 > 0 {
			r.MallocRat = float64(m4) / float64(m1)
		}
		// the work done, at sizes where a quadratic family takes long enough to be told from noise (16n and 64n)
		ts := f.TScale
		if ts == 0 {
			ts = 16
		}
		t1, t4 := timeOp(f, ts*n), timeOp(f, 4*ts*n)
		r.TimeN, r.Time4N = t1.Nanoseconds(), t4.Nanoseconds()
		if t1 > 0 {
			r.TimeRatio = float64(t4) / float64(t1)
		}
		rows = append(rows, r)
		b, _ := json.Marshal(r)
		fmt.Println(string(b))
	}
	return true
}

// ---- C14 ---------------------------------------------------------------------------------------------------

func tableFingerprint() string {
	var sb strings.Builder
	for _, s := range []*url.PercentEncodeSet{url.C0PercentEncodeSet, url.C0OrSpacePercentEncodeSet, url.FragmentPercentEncodeSet, url.QueryPercentEncodeSet,
		url.SpecialQueryPercentEncodeSet, url.PathPercentEncodeSet, url.UserInfoPercentEncodeSet, url.HostPercentEncodeSet,
		canonicalizer.LaxPathPercentEncodeSet, canonicalizer.LaxQueryPercentEncodeSet, canonicalizer.RepeatedQueryPercentDecodeSet} {
		for c := rune(0); c < 0x100; c++ {
			sb.WriteString(b01(s.RuneShouldBeEncoded(c)))
		}
	}
	bs := url.VerifBitsets()
	names := make([]string, 0, len(bs))
	for k := range bs {
		names = append(names, k)
	}
	sort.Strings(names)
	for _, k := range names {
		sb.WriteString(k + "=" + bs[k].DumpAsBits())
	}
	sb.WriteString(schemesTok(url.VerifDefaultSpecialSchemes()))
	return sb.String()
}

type raceJob struct {
	kind  int
	in    string
	base  int
	prof  int
	want  string
	descr string
}

func resStr(u *url.Url, err error) string {
	if err != nil {
		return "ERR:" + errTok(err)
	}
	return u.Href(false) + "|" + u.Host() + "|" + u.Pathname() + "|" + u.Search() + "|" + u.Hash() + fmt.Sprint(u.IsIPv4(), u.IsIPv6(), u.DecodedPort())
}

func raceCommand(args []string) bool {
	seed, n, workers := uint64(1), 2000, 8
	if len(args) > 0 {
		fmt.Sscan(args[0], &seed)
	}
	if len(args) > 1 {
		fmt.Sscan(args[1], &n)
	}
	if len(args) > 2 {
		fmt.Sscan(args[2], &workers)
	}
	r := NewRand(seed)
	before := tableFingerprint()
	// shared read-only values: parsers, profiles, base urls (fresh: their SearchParams have never been created)
	// two sets of the same base urls: the expected results are computed sequentially on the first set, the goroutines
	// share the second, untouched set (so that a lazily initialised field is still uninitialised when they start)
	var basesSeq, bases []*url.Url
	for _, b := range basePool {
		if u, err := url.Parse(b); err == nil {
			v, _ := url.Parse(b)
			// every other base has had its parameter list materialised by a read-only use BEFORE it is shared (the lazy
			// creation itself is a documented write: C14_mutators); from then on the list is part of the read-only value
			if len(bases)%2 == 0 {
				u.SearchParams().Has("x")
				v.SearchParams().Has("x")
			}
			basesSeq = append(basesSeq, u)
			bases = append(bases, v)
		}
	}
	sharedParser := url.NewParser(url.WithCollapseConsecutiveSlashes(), url.WithPercentEncodeSinglePercentSign())
	run := func(j *raceJob, bases []*url.Url) string {
		switch j.kind {
		case 0:
			return resStr(url.Parse(j.in))
		case 1:
			return resStr(bases[j.base].Parse(j.in))
		case 2:
			return resStr(url.ParseRef(bases[j.base].Href(false), j.in))
		case 3:
			return resStr(predefinedProfiles[j.prof].Parser.Parse(j.in))
		case 4:
			return resStr(sharedParser.Parse(j.in))
		case 5:
			b := bases[j.base]
			return b.Href(false) + b.Protocol() + b.Username() + b.Password() + b.Host() + b.Hostname() + b.Port() + b.Pathname() + b.Search() + b.Hash() + b.Query() + b.Fragment() + fmt.Sprint(b.IsIPv4(), b.IsIPv6(), b.DecodedPort(), b.OpaquePath(), b.IsSpecialScheme(), len(b.ValidationErrors()))
		case 6:
			return resStr(predefinedProfiles[j.prof].Parser.ParseRef(bases[j.base].Href(false), j.in))
		default:
			// the shared value is only READ (used as a base, or cloned); the result belongs to this goroutine, which then
			// mutates it through every kind of writer — nothing of that may reach the shared value (aliasing would be a
			// data race with the readers of kind 5 and changes what they return)
			var u *url.Url
			var err error
			if j.kind == 7 {
				u, err = bases[j.base].Parse(j.in)
			} else {
				u = bases[j.base].Clone()
			}
			if err != nil || u == nil {
				return "ERR"
			}
			u.SetHash("")
			u.SetSearch("")
			u.SetUsername("w")
			u.SetPort("81")
			u.SetPathname("/written/by/the/owner")
			u.SearchParams().Append("w", "1")
			u.SearchParams().Sort()
			u.SetHash("w")
			if pu, perr := predefinedProfiles[j.prof].Parser.Parse(u.Href(false)); perr == nil {
				return u.Href(false) + " " + pu.Href(false)
			}
			return u.Href(false)
		}
	}
	jobs := make([]*raceJob, n)
	// expected results are computed on PRIVATE copies of everything first? No: sequentially on the same shared values — a
	// sequential run cannot race, and it must not change what later concurrent runs see (that is part of the property).
	for i := range jobs {
		j := &raceJob{kind: r.N(9), in: genInput(r), base: r.N(len(bases)), prof: r.N(len(predefinedProfiles))}
		if j.kind == 1 || j.kind == 2 || j.kind == 6 || j.kind == 7 {
			j.in = genRef(r, "")
			if j.kind == 7 && r.P(50) {
				j.in = r.Pick([]string{"#a", "", "?q", "#", "x", "/", "//h2/p"})
			}
			// a reference that repeats the base's own scheme without a slash takes the base's path over (file, and the
			// special-relative branch): the shared base must still only be read
			if (j.kind == 1 || j.kind == 7) && r.P(25) {
				j.in = basesSeq[j.base].Scheme() + ":" + r.Pick([]string{"a.html", "sub/c.html", "../d", "", "x?y#z"})
			}
		}
		j.want = run(j, basesSeq)
		jobs[i] = j
	}
	mism := 0
	var mu sync.Mutex
	var first string
	var wg sync.WaitGroup
	for w := 0; w < workers; w++ {
		wg.Add(1)
		go func(w int) {
			defer wg.Done()
			for k := 0; k < len(jobs); k++ {
				j := jobs[(k*7+w*131)%len(jobs)]
				got := func() (s string) {
					defer func() {
						if p := recover(); p != nil {
							s = "PANIC"
						}
					}()
					return run(j, bases)
				}()
				if got != j.want {
					mu.Lock()
					mism++
					if first == "" {
						first = fmt.Sprintf("kind=%d input=%q base=%d: concurrent %q, alone %q", j.kind, j.in, j.base, got, j.want)
					}
					mu.Unlock()
				}
			}
		}(w)
	}
	wg.Wait()
	after := tableFingerprint()
	out := map[string]interface{}{"jobs": n, "workers": workers, "operations": n * workers, "mismatches": mism, "first_mismatch": first,
		"tables_changed": before != after, "bases": len(bases)}
	b, _ := json.Marshal(out)
	fmt.Println(string(b))
	if mism > 0 || before != after {
		os.Exit(5)
	}
	return true
}
