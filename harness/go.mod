module verif/harness

go 1.16

require (
	github.com/bits-and-blooms/bitset v1.20.0
	github.com/nlnwa/whatwg-url v0.0.0
	golang.org/x/net v0.34.0
	golang.org/x/text v0.21.0
)

replace github.com/nlnwa/whatwg-url => /repo
