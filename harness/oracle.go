package main

// Direct oracles: the properties evaluated on the Go code alone (metamorphic relations, invariants), used to
// search for a concrete failing input. Every failure carries a class: the decidable predicate that tells
// which known finding (if any) it is an instance of.

import (
	"encoding/hex"
	"encoding/json"
	"fmt"
	"os"
	"path/filepath"
	"strings"

	"github.com/nlnwa/whatwg-url/url"
)

type Failure struct {
	Prop   string `json:"property"`
	Class  string `json:"class"`
	What   string `json:"what"`
	Case   string `json:"case"`   // human readable history
	Tokens string `json:"tokens"` // the history in driver tokens (replayable), when there is one
}

type Oracle struct {
	fails  []Failure
	seen   map[string]int
	Evals  map[string]int
	perCls int
}

func NewOracle() *Oracle { return &Oracle{seen: map[string]int{}, Evals: map[string]int{}, perCls: 5} }

func (o *Oracle) Eval(prop string) { o.Evals[prop]++ }

func (o *Oracle) Fail(prop, class, what, tokens string) {
	k := prop + "/" + class
	o.seen[k]++
	if o.seen[k] <= o.perCls {
		o.fails = append(o.fails, Failure{prop, class, what, readable(tokens), tokens})
	}
}

// readable renders driver tokens with the hex strings decoded
func readable(tokens string) string {
	parts := strings.Split(tokens, " ")
	for i, t := range parts {
		if len(t) >= 1 && t[0] == 'x' && len(t)%2 == 1 {
			if b, err := hex.DecodeString(t[1:]); err == nil {
				parts[i] = fmt.Sprintf("%q", string(b))
			}
		}
	}
	return strings.Join(parts, " ")
}

func (o *Oracle) Write(dir string) {
	f, _ := os.Create(filepath.Join(dir, "oracle.jsonl"))
	defer f.Close()
	for _, x := range o.fails {
		b, _ := json.Marshal(x)
		f.Write(b)
		f.WriteString("\n")
	}
	b, _ := json.Marshal(map[string]interface{}{"evaluations": o.Evals, "failure_counts": o.seen})
	os.WriteFile(filepath.Join(dir, "oracle_meta.json"), b, 0o644)
}

var orc = NewOracle()

// ---- shared helpers ---------------------------------------------------------------------------------

type Getters struct {
	Href, Protocol, Username, Password, Host, Hostname, Port, Pathname, Search, Hash string
}

func getters(u *url.Url) Getters {
	return Getters{u.Href(false), u.Protocol(), u.Username(), u.Password(), u.Host(), u.Hostname(), u.Port(), u.Pathname(), u.Search(), u.Hash()}
}

func q(s string) string { return fmt.Sprintf("%q", s) }

func hasAceLabel(host string) bool {
	for _, l := range strings.Split(strings.ToLower(host), ".") {
		if strings.HasPrefix(l, "xn--") {
			return true
		}
	}
	return false
}

func isASCII(s string) bool {
	for i := 0; i < len(s); i++ {
		if s[i] >= 0x80 {
			return false
		}
	}
	return true
}

// standard's sets, stated independently of the package tables
func inC0(c rune) bool       { return c <= 0x1f || c > 0x7e }
func inFragment(c rune) bool { return inC0(c) || strings.ContainsRune(" \"<>`", c) }
func inQuery(c rune) bool    { return inC0(c) || strings.ContainsRune(" \"#<>", c) }
func inSpecialQuery(c rune) bool {
	return inQuery(c) || c == '\''
}
func inPath(c rune) bool     { return inQuery(c) || strings.ContainsRune("?`{}", c) }
func inUserinfo(c rune) bool { return inPath(c) || strings.ContainsRune("/:;=@[\\]^|", c) }
func forbiddenHostCp(c rune) bool {
	return c == 0 || c == 9 || c == 10 || c == 13 || strings.ContainsRune(" #/:<>?@[\\]^|", c)
}
func forbiddenDomainCp(c rune) bool { return forbiddenHostCp(c) || c <= 0x1f || c == '%' || c == 0x7f }

var stdDefaultPorts = map[string]string{"ftp": "21", "file": "", "http": "80", "https": "443", "ws": "80", "wss": "443"}

func isDriveLetter(s string, normalizedOnly bool) bool {
	if len(s) != 2 {
		return false
	}
	c := s[0]
	if !((c >= 'a' && c <= 'z') || (c >= 'A' && c <= 'Z')) {
		return false
	}
	return s[1] == ':' || (!normalizedOnly && s[1] == '|')
}

// the exception C03 allows: the standard's own algorithms do not round-trip
func stdNonRoundTrip(u *url.Url) bool {
	if u.Scheme() != "file" {
		return false
	}
	d := url.VerifDump(u)
	if len(d.Segs) > 0 && isDriveLetter(d.Segs[0], false) && !isDriveLetter(d.Segs[0], true) {
		return true
	}
	return d.Host != nil && *d.Host == "localhost"
}

// ---- C03: serialize then parse ----------------------------------------------------------------------

func checkRoundTrip(u *url.Url, tokens string) {
	orc.Eval("C03")
	h := u.Href(false)
	v, err := url.Parse(h)
	if err == nil && getters(v) == getters(u) {
		return
	}
	if stdNonRoundTrip(u) {
		orc.Eval("C03.std-exception")
		return
	}
	// F6 is about the HOST of a url that went through IDNA: the re-parse is rejected, or gives another host — a re-parse
	// that keeps the host and differs elsewhere is not that finding
	class := "other"
	if hasAceLabel(u.Hostname()) && (err != nil || v.Hostname() != u.Hostname()) {
		class = "idn-host"
	}
	what := "re-parse failed"
	if err == nil {
		what = "re-parse gives " + q(v.Href(false))
	}
	orc.Fail("C03", class, fmt.Sprintf("Parse(%s): %s", q(h), what), tokens)
}

// ---- C04: well-formed record, coherent getters --------------------------------------------------------

func checkWF(u *url.Url, tokens string) {
	orc.Eval("C04")
	d := url.VerifDump(u)
	fail := func(class, what string) { orc.Fail("C04", class, what+" in "+q(u.Href(false)), tokens) }
	s := d.Scheme
	okScheme := len(s) > 0 && s[0] >= 'a' && s[0] <= 'z'
	for i := 1; i < len(s) && okScheme; i++ {
		c := s[i]
		okScheme = (c >= 'a' && c <= 'z') || (c >= '0' && c <= '9') || c == '+' || c == '-' || c == '.'
	}
	if !okScheme {
		fail("scheme-shape", "scheme "+q(s))
	}
	dp, special := stdDefaultPorts[s]
	if special {
		if d.Host == nil {
			fail("special-without-host", "special scheme, null host")
		} else if *d.Host == "" && s != "file" {
			fail("special-empty-host", "special scheme, empty host")
		}
		if d.Opaque || len(d.Segs) == 0 {
			fail("special-path", "special scheme without a list path starting with /")
		}
	}
	if d.Opaque && d.Host != nil {
		fail("opaque-with-host", "opaque path with a host")
	}
	if d.Opaque && len(d.Segs) != 1 {
		fail("opaque-segments", "opaque path with != 1 element")
	}
	if d.Username != "" || d.Password != "" || d.Port != nil {
		if d.Host == nil || *d.Host == "" || s == "file" {
			fail("credentials-or-port-without-host", "credentials or port without a non-empty host / on file")
		}
	}
	if d.Port != nil {
		p := *d.Port
		n := 0
		okp := p != "" && len(p) <= 5
		for i := 0; i < len(p) && okp; i++ {
			if p[i] < '0' || p[i] > '9' {
				okp = false
			}
			n = n*10 + int(p[i]-'0')
		}
		if !okp || n > 65535 || fmt.Sprint(n) != p {
			fail("port-not-canonical", "port "+q(p))
		} else if special && dp == p {
			fail("default-port-kept", "port equals the default "+q(p))
		}
	}
	chk := func(name, v string, in func(rune) bool, allowPct bool) {
		for _, c := range v {
			if c < 0x20 || c > 0x7e {
				fail("non-printable-"+name, name+" has a byte outside 0x20..0x7E: "+q(v))
				return
			}
			if in(c) && !(allowPct && c == '%') {
				fail("unencoded-"+name, name+" contains "+q(string(c))+": "+q(v))
				return
			}
		}
	}
	chk("username", d.Username, inUserinfo, true)
	chk("password", d.Password, inUserinfo, true)
	if d.Opaque {
		for _, sg := range d.Segs {
			chk("opaque-path", sg, inC0, true)
		}
	} else {
		for _, sg := range d.Segs {
			chk("path", sg, inPath, true)
		}
	}
	if d.Query != nil {
		if special {
			chk("query", *d.Query, inSpecialQuery, true)
		} else {
			chk("query", *d.Query, inQuery, true)
		}
	}
	if d.Fragment != nil {
		chk("fragment", *d.Fragment, inFragment, true)
	}
	if d.Host != nil && *d.Host != "" {
		h := *d.Host
		if special {
			if !(strings.HasPrefix(h, "[") && strings.HasSuffix(h, "]")) {
				chk("host", h, forbiddenDomainCp, false)
			}
		} else if !(strings.HasPrefix(h, "[") && strings.HasSuffix(h, "]")) {
			chk("host", h, forbiddenHostCp, false)
		}
	}
	// getters compose to the serialization
	auth := ""
	if d.Host != nil {
		auth = "//"
		if u.Username() != "" || u.Password() != "" {
			auth += u.Username()
			if u.Password() != "" {
				auth += ":" + u.Password()
			}
			auth += "@"
		}
		auth += u.Host()
	}
	guard := ""
	if d.Host == nil && !d.Opaque && len(d.Segs) > 1 && d.Segs[0] == "" {
		guard = "/."
	}
	qp, fp := "", ""
	if d.Query != nil {
		qp = "?" + u.Query()
	}
	if d.Fragment != nil {
		fp = "#" + u.Fragment()
	}
	if u.Search() != "" && qp != u.Search() {
		fail("search-vs-query", "Search "+q(u.Search())+" vs query part "+q(qp))
	}
	if u.Hash() != "" && fp != u.Hash() {
		fail("hash-vs-fragment", "Hash "+q(u.Hash())+" vs fragment part "+q(fp))
	}
	want := u.Protocol() + auth + guard + u.Pathname() + qp + fp
	if want != u.Href(false) {
		fail("href-composition", "composition of getters "+q(want))
	}
	hp := u.Hostname()
	if u.Port() != "" {
		hp += ":" + u.Port()
	}
	if hp != u.Host() {
		fail("host-vs-hostname-port", "Host "+q(u.Host())+" vs "+q(hp))
	}
	if u.Href(true)+fp != u.Href(false) {
		fail("href-exclude-fragment", "Href(true) "+q(u.Href(true)))
	}
	if special && !strings.HasPrefix(u.Pathname(), "/") {
		fail("special-path", "pathname does not start with /")
	}
}

// ---- C19: derived accessors ---------------------------------------------------------------------------

func isDottedDecimal(h string) bool {
	parts := strings.Split(h, ".")
	if len(parts) != 4 {
		return false
	}
	for _, p := range parts {
		if p == "" || len(p) > 3 {
			return false
		}
		n := 0
		for i := 0; i < len(p); i++ {
			if p[i] < '0' || p[i] > '9' {
				return false
			}
			n = n*10 + int(p[i]-'0')
		}
		if n > 255 || fmt.Sprint(n) != p {
			return false
		}
	}
	return true
}

func checkAccessors(u *url.Url, tokens string) { checkAccessorsTbl(u, stdDefaultPorts, tokens) }

// checkAccessorsTbl: the derived accessors against the special-scheme table of the parser that made the url
func checkAccessorsTbl(u *url.Url, stdDefaultPorts map[string]string, tokens string) {
	orc.Eval("C19")
	fail := func(class, what string) { orc.Fail("C19", class, what+" in "+q(u.Href(false)), tokens) }
	hn := u.Hostname()
	if u.IsIPv6() != strings.HasPrefix(hn, "[") {
		fail("isipv6", fmt.Sprintf("IsIPv6=%v hostname=%s", u.IsIPv6(), q(hn)))
	}
	_, special := stdDefaultPorts[u.Scheme()]
	if u.IsIPv4() != (special && isDottedDecimal(hn)) {
		fail("isipv4", fmt.Sprintf("IsIPv4=%v hostname=%s", u.IsIPv4(), q(hn)))
	}
	if u.Port() != "" {
		if fmt.Sprint(u.DecodedPort()) != u.Port() {
			fail("decodedport", fmt.Sprintf("DecodedPort=%d Port=%s", u.DecodedPort(), q(u.Port())))
		}
	} else {
		want := 0
		if dp, ok := stdDefaultPorts[u.Scheme()]; ok && dp != "" {
			fmt.Sscan(dp, &want)
		}
		if u.DecodedPort() != want {
			fail("decodedport-default", fmt.Sprintf("DecodedPort=%d scheme=%s", u.DecodedPort(), q(u.Scheme())))
		}
	}
	if u.Protocol() != u.Scheme()+":" {
		fail("protocol", "Protocol/Scheme")
	}
	if (u.Query() == "" && u.Search() != "") || (u.Query() != "" && u.Search() != "?"+u.Query()) {
		fail("search", "Query/Search")
	}
	if (u.Fragment() == "" && u.Hash() != "") || (u.Fragment() != "" && u.Hash() != "#"+u.Fragment()) {
		fail("hash", "Fragment/Hash")
	}
	if u.IsSpecialScheme() != special {
		fail("isspecial", "IsSpecialScheme")
	}
	// OpaquePath agrees with the shape of the serialization: no authority and the text after "scheme:" does not start with "/"
	rest := strings.TrimPrefix(u.Href(false), u.Protocol())
	shapeOpaque := !strings.HasPrefix(rest, "/")
	if u.OpaquePath() != shapeOpaque {
		fail("opaquepath", fmt.Sprintf("OpaquePath=%v", u.OpaquePath()))
	}
}

// all per-state checks on a URL reached by a history under the default configuration
// where the per-state leaf cases of the state-scoped properties (C03, C04, C19) are emitted
var stateOut *Out
var reparseSeen = map[string]bool{}

func checkState(u *url.Url, props map[string]bool, tokens string) {
	if stateOut != nil {
		if props["C04"] || props["C19"] {
			leafObs(stateOut, u, defaultCfg)
		}
		if props["C03"] {
			// the tie of C03: the parser on the serialization the Go code produced, and the serializer on the reached state
			leafObs(stateOut, u, defaultCfg)
			if h := u.Href(false); !reparseSeen[h] {
				reparseSeen[h] = true
				hh := &Hist{}
				hh.Parse(defaultCfg, h)
				stateOut.EmitHist("r", hh)
			}
		}
	}
	if props["C03"] {
		checkRoundTrip(u, tokens)
	}
	if props["C04"] {
		checkWF(u, tokens)
	}
	if props["C19"] {
		checkAccessors(u, tokens)
	}
}
