package main

// C16, C17, C18: options and canonicalization profiles.

import (
	"fmt"
	"sort"
	"strconv"
	"strings"
	"unicode/utf8"

	"github.com/nlnwa/whatwg-url/canonicalizer"
	"github.com/nlnwa/whatwg-url/errors"
	"github.com/nlnwa/whatwg-url/url"
)

func parseWith(p url.Parser, base, in string) (*url.Url, error) {
	if base == "" {
		return p.Parse(in)
	}
	return p.ParseRef(base, in)
}

func spList(u *url.Url) refList {
	// does not create the list on u
	if d := url.VerifDump(u); d.HasSearchParams {
		return refList(d.SearchParams)
	}
	if d := url.VerifDump(u); d.Query != nil {
		return refList(url.VerifSearchParamsInit(url.VerifParserOf(u), *d.Query))
	}
	return nil
}

func pathPart(in string) string {
	// text after "scheme://authority" (or after "scheme:"), up to ? or #
	s := stripForScheme(in)
	if i := strings.Index(s, ":"); i >= 0 && hasScheme(s) {
		s = s[i+1:]
	}
	if len(s) >= 2 && (s[0] == '/' || s[0] == '\\') && (s[1] == '/' || s[1] == '\\') {
		j := 2
		for j < len(s) && (s[j] == '/' || s[j] == '\\') {
			j++
		}
		for j < len(s) && s[j] != '/' && s[j] != '\\' && s[j] != '?' && s[j] != '#' {
			j++
		}
		s = s[j:]
	}
	if i := strings.IndexAny(s, "?#"); i >= 0 {
		s = s[:i]
	}
	return s
}

func hasConsecutiveSlashes(in string) bool {
	s := pathPart(in)
	for i := 0; i+1 < len(s); i++ {
		if (s[i] == '/' || s[i] == '\\') && (s[i+1] == '/' || s[i+1] == '\\') {
			return true
		}
	}
	return false
}

func hasSinglePercent(s string) bool {
	s = strings.NewReplacer("\t", "", "\n", "", "\r", "").Replace(s)
	for i := 0; i < len(s); i++ {
		if s[i] == '%' && !(i+2 < len(s) && isHexByte(s[i+1]) && isHexByte(s[i+2])) {
			return true
		}
	}
	return false
}

type neutralOpt struct {
	name    string
	cfg     *Cfg
	trigger func(in, base string, du *url.Url, derr error) bool
}

func streamC16(r *Rand, n int, o *Out) {
	gopher := newCfg("specialSchemes+gopher", url.NewParser(url.WithSpecialSchemes(gopherSchemes)), 0, 0)
	neutral := []neutralOpt{
		{"accept-invalid-code-points", newCfg("acceptInvalid", url.NewParser(url.WithAcceptInvalidCodepoints()), 0, 0),
			func(in, base string, du *url.Url, derr error) bool {
				return !utf8.ValidString(in) || !utf8.ValidString(base)
			}},
		{"percent-encode-single-percent-sign", newCfg("pctSingle", url.NewParser(url.WithPercentEncodeSinglePercentSign()), 0, 0),
			func(in, base string, du *url.Url, derr error) bool {
				return hasSinglePercent(in) || hasSinglePercent(base)
			}},
		{"collapse-consecutive-slashes", newCfg("collapse", url.NewParser(url.WithCollapseConsecutiveSlashes()), 0, 0),
			func(in, base string, du *url.Url, derr error) bool {
				return hasConsecutiveSlashes(in) || hasConsecutiveSlashes(base) || (derr == nil && strings.Contains(du.Pathname(), "//"))
			}},
		{"skip-drive-letter-normalization", newCfg("skipDrive", url.NewParser(url.WithSkipWindowsDriveLetterNormalization()), 0, 0),
			func(in, base string, du *url.Url, derr error) bool {
				return strings.Contains(in, "|") || strings.Contains(base, "|")
			}},
		{"special-schemes", gopher,
			func(in, base string, du *url.Url, derr error) bool {
				return strings.Contains(strings.ToLower(stripForScheme(in)), "gopher") || strings.Contains(strings.ToLower(stripForScheme(base)), "gopher")
			}},
		{"lax-host-parsing", newCfg("lax", url.NewParser(url.WithLaxHostParsing()), 0, 0),
			func(in, base string, du *url.Url, derr error) bool { return derr != nil }},
	}
	// the same options on top of lax host parsing (options "alone and combined"): neutrality relative to the lax parser
	laxCfg := neutral[5].cfg
	neutralOnLax := []neutralOpt{
		{"accept-invalid-code-points+lax", newCfg("lax+acceptInvalid", url.NewParser(url.WithLaxHostParsing(), url.WithAcceptInvalidCodepoints()), 0, 0), neutral[0].trigger},
		{"percent-encode-single-percent-sign+lax", newCfg("lax+pctSingle", url.NewParser(url.WithLaxHostParsing(), url.WithPercentEncodeSinglePercentSign()), 0, 0), neutral[1].trigger},
		{"collapse-consecutive-slashes+lax", newCfg("lax+collapse", url.NewParser(url.WithLaxHostParsing(), url.WithCollapseConsecutiveSlashes()), 0, 0), neutral[2].trigger},
	}
	noOpt := newCfg("NewParser()", url.NewParser(), 0, 0)
	profNone := newProf("New()", canonicalizer.New(), 0, 0)
	profUser := newProf("New(RemoveUserInfo)", canonicalizer.New(canonicalizer.WithRemoveUserInfo()), 0, 0)
	profPort := newProf("New(RemovePort)", canonicalizer.New(canonicalizer.WithRemovePort()), 0, 0)
	profFrag := newProf("New(RemoveFragment)", canonicalizer.New(canonicalizer.WithRemoveFragment()), 0, 0)
	profSortK := newProf("New(SortKeys)", canonicalizer.New(canonicalizer.WithSortQuery(canonicalizer.SortKeys)), 0, 0)
	profSortP := newProf("New(SortParameter)", canonicalizer.New(canonicalizer.WithSortQuery(canonicalizer.SortParameter)), 0, 0)
	profDef := newProf("New(DefaultScheme)", canonicalizer.New(canonicalizer.WithDefaultScheme("https")), 0, 0)
	collapse := neutral[2].cfg
	skipEq := newCfg("skipEquals", url.NewParser(url.WithSkipEqualsForEmptySearchParamsValue()), 0, 0)

	// file bases whose drive letter was left un-normalised (only possible under skip-drive-letter-normalization) × references
	// with and without a drive letter of their own: the file / file-slash states consult the BASE's first segment
	{
		skipDrive := neutral[3].cfg
		for _, c := range []*Cfg{skipDrive, defaultCfg} {
			for _, b := range []string{"file:///D|/a", "file:///d:/a", "file://h/D|/a", "file:///D|", "file:///x/D|/a"} {
				h := &Hist{}
				for _, ref := range []string{"/C:x", "/C|x", "/C:/x", "C|", "/x", "//D|/y", "..", "?q", "/", "\\C|\\x", "//"} {
					h.ParseRef(c, b, ref)
				}
				o.EmitHist("k", h)
			}
		}
		// the predefined profiles on urls with an empty host (their host hooks see it)
		for _, p := range predefinedProfiles {
			h := &Hist{}
			for _, in := range []string{"a://", "sc://", "sc:///p", "file:///x", "file://", "sc://@/", "sc://:80", "http:///x", "sc://./", "sc://.../p", "sc://?q", "sc://#f"} {
				h.CanonParse(p, in)
			}
			o.EmitHist("k", h)
		}
	}
	for i := 0; i < n; i++ {
		rr := r.Fork()
		in := genInput(rr)
		base := ""
		if rr.P(25) {
			base = genBase(rr)
		}
		switch rr.N(12) {
		case 0:
			in = rr.Pick(append([]string{"gopher", "GOPHER"}, specialSchemes...)) + "://h:" + rr.Pick([]string{"70", "80", "21", "443", "7"}) + genPath(rr)
		case 1:
			in = rr.Pick(specialSchemes) + "://" + rr.Pick(userPool) + ":" + rr.Pick(userPool) + "@h:" + rr.Pick(portPool) + genPath(rr) + "?" + rr.Pick(queryPool) + "#" + rr.Pick(fragPool)
		case 2:
			in = "sc:" + rr.Pick(segPool) + rr.Pick([]string{" ", "  ", ""}) + rr.Pick([]string{"", "#f", "?q", "?q#f"})
		case 3:
			in = rr.Pick([]string{"http", "file", "sc"}) + "://h" + strings.Repeat("/", rr.N(3)) + genPath(rr) + rr.Pick([]string{"", "/.", "/..", "//", "//.", "/./", "//../"})
		case 4:
			in = rr.Pick(weirdHosts) + genPath(rr) // no scheme: for default-scheme
		case 6:
			np := 13 + rr.N(30)
			parts := make([]string, np)
			for j := range parts {
				parts[j] = rr.Pick([]string{"b", "a", "c", "a"}) + "=" + fmt.Sprint(j%7)
			}
			in = "http://h/p?" + strings.Join(parts, "&")
		case 5:
			in = rr.Pick(specialSchemes) + "://" + rr.Pick([]string{"a\ufffdb", "\ufffd", "a.\ufffd.b", "a\ufffd\ufffdb", "x\ufffd"}) + genPath(rr)
		}
		du, derr := parseWith(defaultCfg.Parser, base, in)
		h := &Hist{}
		mk := func(c *Cfg) (*url.Url, error) {
			if base == "" {
				h.Parse(c, in)
			} else {
				h.ParseRef(c, base, in)
			}
			return parseWith(c.Parser, base, in)
		}
		mkp := func(p *Prof) (*url.Url, error) {
			if base == "" {
				h.CanonParse(p, in)
				return p.Parser.Parse(in)
			}
			h.CanonParseRef(p, base, in)
			return p.Parser.ParseRef(base, in)
		}
		tokOf := func() string { return strings.Join(h.ops, " ; ") }

		// neutral construction
		orc.Eval("C16")
		if u, err := mk(noOpt); !sameResult(u, err, du, derr) {
			orc.Fail("C16", "no-options-not-neutral", "NewParser() differs from the default parser", tokOf())
		}
		if base == "" || derr == nil {
			if u, err := mkp(profNone); !sameResult(u, err, du, derr) && !(base != "" && derr != nil) {
				orc.Fail("C16", "no-options-not-neutral", "canonicalizer.New() differs from the default parser", tokOf())
			}
		}
		// conservative extensions
		for ni, no := range neutral {
			if rr.P(50) {
				continue
			}
			orc.Eval("C16")
			u, err := mk(no.cfg)
			if !no.trigger(in, base, du, derr) && !sameResult(u, err, du, derr) {
				orc.Fail("C16", "not-neutral:"+no.name, "option changed the result of an input that does not contain its trigger", tokOf())
			}
			// … also through the setters that use the string encoder (username / password)
			if ni < 2 && err == nil && derr == nil && rr.P(60) {
				val := rr.Pick([]string{"j\u00f6rg%40home", "é%41", "a%41é", "%C3%A9%20x", "日%2F本", "u%41", "plain", "é", "\ufffd%41"})
				if !no.trigger(val, "", nil, nil) && !no.trigger(in, base, du, derr) {
					k := len(h.urls) - 1
					st := 1 + rr.N(2)
					h.Set(k, st, val)
					v, _ := parseWith(defaultCfg.Parser, base, in)
					applySetter(v, st, val)
					if getters(h.urls[k]) != getters(v) {
						orc.Fail("C16", "not-neutral:"+no.name, fmt.Sprintf("option changed the result of %s(%s), a value that does not contain its trigger", setterNames[st], q(val)), tokOf())
					}
				}
			}
		}
		if rr.P(50) {
			lu, lerr := parseWith(laxCfg.Parser, base, in)
			for _, no := range neutralOnLax {
				orc.Eval("C16")
				u, err := mk(no.cfg)
				trig := no.trigger(in, base, lu, lerr)
				if strings.HasPrefix(no.name, "collapse") {
					trig = hasConsecutiveSlashes(in) || hasConsecutiveSlashes(base) || (lerr == nil && strings.Contains(lu.Pathname(), "//"))
				}
				if strings.HasPrefix(no.name, "percent-encode-single") {
					// under lax host parsing the host is percent-decoded first: "a%25x" becomes "a%x", and that lone '%' is what the
					// option encodes (Proofs/Neutral.lean, C16_pctSingle_neutral_Statement_false). The trigger is evaluated on the lax result.
					trig = trig || (lerr == nil && hasSinglePercent(lu.Hostname()))
				}
				if !trig && !sameResult(u, err, lu, lerr) {
					orc.Fail("C16", "not-neutral:"+no.name, "option changed the result (relative to the lax parser) of an input that does not contain its trigger", tokOf())
				}
			}
		}
		// canonicalizer options are the standard's setters applied to the parser's result
		if derr == nil && base == "" {
			type post struct {
				p     *Prof
				apply func(v *url.Url)
				cond  func(v *url.Url) bool
			}
			for _, ps := range []post{
				{profUser, func(v *url.Url) { v.SetUsername(""); v.SetPassword("") }, func(v *url.Url) bool { return v.Username() == "" && v.Password() == "" }},
				{profPort, func(v *url.Url) { v.SetPort("") }, func(v *url.Url) bool { return v.Port() == "" }},
				{profFrag, func(v *url.Url) { v.SetHash("") }, func(v *url.Url) bool { return v.Hash() == "" && !strings.Contains(v.Href(false), "#") }},
			} {
				orc.Eval("C16")
				u, err := mkp(ps.p)
				v, _ := url.Parse(in)
				ps.apply(v)
				if err != nil || getters(u) != getters(v) {
					orc.Fail("C16", "remove-option-differs-from-setters:"+ps.p.Name, "profile result differs from the standard's setters applied to the parser's result", tokOf())
				} else if !ps.cond(u) {
					orc.Fail("C16", "remove-option-postcondition:"+ps.p.Name, "credentials / port / fragment still present: "+q(u.Href(false)), tokOf())
				}
			}
			for _, ps := range []*Prof{profSortK, profSortP} {
				orc.Eval("C16")
				u, err := mkp(ps)
				if err != nil {
					orc.Fail("C16", "sort-query", "sort-query profile failed", tokOf())
					continue
				}
				orig := spList(du)
				want := append(refList{}, orig...)
				if ps == profSortK {
					sort.SliceStable(want, func(a, b int) bool { return want[a][0] < want[b][0] })
				} else {
					sort.SliceStable(want, func(a, b int) bool { return want[a][0]+want[a][1] < want[b][0]+want[b][1] })
				}
				got := refList(url.VerifDump(u).SearchParams)
				if !eqLists(got, want) {
					orc.Fail("C16", "sort-query", fmt.Sprintf("list after sorting %q, expected %q", got, want), tokOf())
				}
				g, gd := getters(u), getters(du)
				g.Search, gd.Search, g.Href, gd.Href = "", "", "", ""
				if g != gd {
					orc.Fail("C16", "sort-query-changes-other-components", "sort-query changed something else than the query", tokOf())
				}
				// only reorders: the decoded pairs of the new query are a permutation of the old ones
				if v, err := url.Parse(u.Href(false)); err == nil {
					back := spList(v)
					a, b := append(refList{}, back...), append(refList{}, orig...)
					key := func(l refList) func(i, j int) bool {
						return func(i, j int) bool { return l[i][0]+"\x00"+l[i][1] < l[j][0]+"\x00"+l[j][1] }
					}
					sort.Slice(a, key(a))
					sort.Slice(b, key(b))
					if !eqLists(a, b) {
						orc.Fail("C16", roundTripClassOf(orig, back), fmt.Sprintf("pairs %q became %q", orig, back), tokOf())
					}
				}
			}
		}
		// default scheme
		if base == "" {
			orc.Eval("C16")
			u, err := mkp(profDef)
			switch {
			case derr == nil:
				if err != nil || getters(u) != getters(du) {
					orc.Fail("C16", "default-scheme-affects-absolute", "default-scheme changed an input that parses", tokOf())
				}
			case errors.Type(derr) == errors.MissingSchemeNonRelativeURL:
				v, verr := url.Parse("https://" + in)
				if !sameResult(u, err, v, verr) {
					orc.Fail("C16", "default-scheme-retry", "result differs from parsing https://input", tokOf())
				}
			default:
				if err == nil || errors.Type(err) != errors.Type(derr) {
					orc.Fail("C16", "default-scheme-other-error", "an input failing for another reason was affected", tokOf())
				}
			}
		}
		if base != "" {
			// default scheme through ParseRef: only the BASE may be retried, and only for lack of a scheme
			orc.Eval("C16")
			u, err := mkp(profDef)
			_, berr := url.Parse(base)
			switch {
			case berr == nil:
				if !sameResult(u, err, du, derr) {
					orc.Fail("C16", "default-scheme-affects-absolute", "default-scheme changed ParseRef with a base that parses", tokOf())
				}
			case errors.Type(berr) == errors.MissingSchemeNonRelativeURL:
				v, verr := url.ParseRef("https://"+base, in)
				if !sameResult(u, err, v, verr) {
					orc.Fail("C16", "default-scheme-retry", "ParseRef result differs from resolving against https://base", tokOf())
				}
			default:
				if err == nil {
					orc.Fail("C16", "default-scheme-other-error", "a base failing for another reason was accepted", tokOf())
				}
			}
		}
		// documented effects
		if rr.P(40) {
			orc.Eval("C16")
			u, err := mk(collapse)
			if err == nil && u.IsSpecialScheme() {
				p := u.Pathname()
				if strings.Contains(strings.TrimSuffix(p, "/"), "//") || (strings.HasSuffix(p, "//")) {
					class := "collapse-leaves-empty-segment"
					// F14: the trailing dot segment appends an empty segment after the collapsed path — exactly one empty
					// segment, at the very end. F14b: a file path holding a drive letter. Anything else is new.
					if lastSegmentIsDot(in) && strings.HasSuffix(p, "//") && !strings.Contains(p[:len(p)-1], "//") {
						class = "collapse-trailing-dot-segment"
					} else if u.Scheme() == "file" && hasDriveSegment(p) {
						class = "collapse-file-drive-letter"
					}
					orc.Fail("C16", class, "path "+q(p)+" still has an empty non-final segment", tokOf())
				}
			}
		}
		if rr.P(30) && derr == nil {
			// a replaced set governs exactly the component and scheme class it names
			c := uint("!$&'()*+,;=:@[]^_`{|}~-."[rr.N(24)])
			if rr.P(15) {
				c = '%' // the set also decides what happens to a '%' that starts no escape (each state's invalid-escape branch)
			}
			which := rr.N(5)
			var cfg *Cfg
			switch which {
			case 0:
				cfg = newCfg("pathSet", url.NewParser(url.WithPathPercentEncodeSet(url.PathPercentEncodeSet.Set(c))), 0, 0)
			case 1:
				cfg = newCfg("querySet", url.NewParser(url.WithQueryPercentEncodeSet(url.QueryPercentEncodeSet.Set(c))), 0, 0)
			case 2:
				cfg = newCfg("specialQuerySet", url.NewParser(url.WithSpecialQueryPercentEncodeSet(url.SpecialQueryPercentEncodeSet.Set(c))), 0, 0)
			case 3:
				cfg = newCfg("fragmentSet", url.NewParser(url.WithFragmentPathPercentEncodeSet(url.FragmentPercentEncodeSet.Set(c))), 0, 0)
			default:
				cfg = newCfg("specialFragmentSet", url.NewParser(url.WithSpecialFragmentPathPercentEncodeSet(url.FragmentPercentEncodeSet.Set(c))), 0, 0)
			}
			orc.Eval("C16")
			in2 := in + rr.Pick([]string{"", "?", "#"}) + string(rune(c)) + rr.Pick([]string{"", "/" + string(rune(c)), "?" + string(rune(c)), "#" + string(rune(c))})
			if c == '%' {
				t := rr.Pick([]string{"%", "%2", "%zz", "a%", "%2e%2", "%%41"})
				in2 = in + rr.Pick([]string{"/", "?", "#"}) + t + rr.Pick([]string{"", "/" + t, "?" + t, "#" + t})
			}
			d2, e2 := parseWith(defaultCfg.Parser, base, in2)
			var u *url.Url
			var err error
			if base == "" {
				h.Parse(cfg, in2)
			} else {
				h.ParseRef(cfg, base, in2)
			}
			u, err = parseWith(cfg.Parser, base, in2)
			if (err != nil) != (e2 != nil) {
				orc.Fail("C16", "encode-set-option-changes-acceptance", cfg.Name, tokOf())
			} else if err == nil {
				g, gd := getters(u), getters(d2)
				sp := d2.IsSpecialScheme()
				governs := map[int]bool{0: true, 1: !sp, 2: sp, 3: !sp, 4: sp}[which]
				comp := []*string{&g.Pathname, &g.Search, &g.Search, &g.Hash, &g.Hash}[which]
				compD := []*string{&gd.Pathname, &gd.Search, &gd.Search, &gd.Hash, &gd.Hash}[which]
				if !governs && *comp != *compD {
					orc.Fail("C16", "encode-set-option-wrong-scheme-class", fmt.Sprintf("%s changed %s of a URL of the other scheme class", cfg.Name, q(*compD)), tokOf())
				}
				if governs && c == '%' && hasSinglePercent(*comp) && !d2.OpaquePath() {
					orc.Fail("C16", "encode-set-option-no-effect", fmt.Sprintf("%s left a '%%' that starts no escape unencoded in %s", cfg.Name, q(*comp)), tokOf())
				}
				if governs && c != '%' && strings.ContainsRune(*comp, rune(c)) && !d2.OpaquePath() {
					orc.Fail("C16", "encode-set-option-no-effect", fmt.Sprintf("%s left %q unencoded in %s", cfg.Name, rune(c), q(*comp)), tokOf())
				}
				*comp, *compD, g.Href, gd.Href = "", "", "", ""
				if g != gd {
					orc.Fail("C16", "encode-set-option-other-component", cfg.Name+" changed another component", tokOf())
				}
			}
		}
		if rr.P(20) {
			// skip-equals omits '=' exactly for empty values
			orc.Eval("C16")
			qs := rr.Pick(queryPool) + "&" + rr.Pick(spNames) + "=&" + rr.Pick(spNames)
			k1 := h.Parse(skipEq, "http://h/?"+qs)
			k2 := h.Parse(defaultCfg, "http://h/?"+qs)
			if k1 >= 0 && k2 >= 0 {
				s1, s2 := h.Grab(k1), h.Grab(k2)
				a, b := h.QString(s1), h.QString(s2)
				want := refSkipEquals(pairsOf(h.sps[s2]))
				if a != xs(want) {
					orc.Fail("C16", "skip-equals", fmt.Sprintf("with option %s, without %s", a, b), tokOf())
				}
			}
		}
		if rr.P(20) {
			orc.Eval("C16")
			in3 := "gopher://EXAMPLE.com:70\\a\\..\\b"
			u, err := gopher.Parser.Parse(in3)
			h.Parse(gopher, in3)
			if err != nil || u.Href(false) != "gopher://example.com/b" {
				orc.Fail("C16", "added-special-scheme", "gopher did not get default-port elision and special-scheme parsing", tokOf())
			}
		}
		if rr.P(30) {
			// an added special scheme — any name, any default port including none and 0 — gets special-scheme parsing and elision
			// of exactly its own default port (the port is compared as a number: leading zeros do not matter; no default, nothing elided
			// but the empty port)
			orc.Eval("C16")
			name := rr.Pick([]string{"gopher", "ipfs", "x-y", "a+b.c", "h2"})
			dflt := rr.Pick([]string{"", "", "0", "7", "70", "65535"})
			tbl := map[string]string{}
			for k, v := range gopherSchemes {
				tbl[k] = v
			}
			delete(tbl, "gopher")
			tbl[name] = dflt
			cfg := newCfg("specialSchemes+"+name+"="+dflt, url.NewParser(url.WithSpecialSchemes(tbl)), 0, 0)
			ports := []string{"", "0", "00", "1", "80", "65535", "65534"}
			if dflt != "" {
				n, _ := strconv.Atoi(dflt)
				ports = append(ports, dflt, "0"+dflt, dflt, "000"+dflt)
				if n < 65535 {
					ports = append(ports, strconv.Itoa(n+1))
				}
			}
			port := rr.Pick(ports)
			spell := name
			if rr.P(30) {
				spell = strings.ToUpper(name)
			}
			in4 := spell + "://EXAMPLE.com:" + port + "\\a\\..\\b"
			u, err := cfg.Parser.Parse(in4)
			k := h.Parse(cfg, in4)
			wantPort := ""
			if port != "" {
				n, _ := strconv.Atoi(port)
				wantPort = strconv.Itoa(n)
				if dflt != "" {
					if d, _ := strconv.Atoi(dflt); d == n {
						wantPort = ""
					}
				}
			}
			want := name + "://example.com"
			if wantPort != "" {
				want += ":" + wantPort
			}
			want += "/b"
			if err != nil || u.Href(false) != want || u.Port() != wantPort || !u.IsSpecialScheme() {
				got := "error"
				if err == nil {
					got = u.Href(false)
				}
				orc.Fail("C16", "added-special-scheme", fmt.Sprintf("table entry %s=%q: %s parses to %s, expected %s", name, dflt, q(in4), got, want), tokOf())
			}
			// the setters and a resolution follow the same table
			if err == nil && k >= 0 && rr.P(50) {
				p2 := rr.Pick(ports)
				h.Set(k, 5, p2)
				u = h.urls[k]
				w2 := wantPort
				if p2 == "" {
					w2 = ""
				} else {
					n, _ := strconv.Atoi(p2)
					w2 = strconv.Itoa(n)
					if dflt != "" {
						if d, _ := strconv.Atoi(dflt); d == n {
							w2 = ""
						}
					}
				}
				if u.Port() != w2 {
					orc.Fail("C16", "added-special-scheme", fmt.Sprintf("table entry %s=%q: SetPort(%q) gives port %q, expected %q", name, dflt, p2, u.Port(), w2), tokOf())
				}
			}
		}
		o.EmitHist("g", h)
	}
}

// hasDriveSegment: some segment of the path is a normalized Windows drive letter ("C:")
func hasDriveSegment(p string) bool {
	for _, seg := range strings.Split(p, "/") {
		if len(seg) == 2 && seg[1] == ':' && (seg[0]|0x20) >= 'a' && (seg[0]|0x20) <= 'z' {
			return true
		}
	}
	return false
}

func lastSegmentIsDot(in string) bool {
	p := pathPart(in)
	p = strings.ReplaceAll(p, "\\", "/")
	i := strings.LastIndex(p, "/")
	last := strings.ToLower(p[i+1:])
	last = strings.ReplaceAll(last, "%2e", ".")
	return last == "." || last == ".."
}

// expected serialization with skip-equals: the default serialization of every pair, "=" dropped exactly after empty values
func refSkipEquals(l refList) string {
	parts := make([]string, len(l))
	for i, p := range l {
		u, _ := url.Parse("http://h/")
		u.SearchParams().Append(p[0], p[1])
		parts[i] = u.Query()
		if p[1] == "" {
			parts[i] = strings.TrimSuffix(parts[i], "=")
		}
	}
	return strings.Join(parts, "&")
}

// ---- ordinary web URLs (C17, C18) ------------------------------------------------------------------------

type WebUrl struct {
	Scheme, User, Pass, Host, Port string
	HostKind                       int // 0 ldh, 1 ipv4, 2 ipv6
	Segs                           []string
	Query                          [][2]string
	HasQuery                       bool
	Frag                           string
	HasFrag                        bool
}

const unreserved = "abcdefghijklmnopqrstuvwxyzABCDEFGHIJKLMNOPQRSTUVWXYZ0123456789-._~"

func genUnreserved(r *Rand, min, max int) string {
	n := min + r.N(max-min+1)
	b := make([]byte, n)
	for i := range b {
		if r.P(70) {
			b[i] = unreserved[r.N(26)]
		} else {
			b[i] = unreserved[r.N(len(unreserved))]
		}
	}
	return string(b)
}

func genWebUrl(r *Rand) WebUrl {
	w := WebUrl{Scheme: r.Pick(specialSchemes)}
	switch r.N(8) {
	case 0:
		w.HostKind = 1
		w.Host = fmt.Sprintf("%d.%d.%d.%d", r.N(256), r.N(256), r.N(256), r.N(256))
	case 1:
		w.HostKind = 2
		var a url.IPv6Addr
		z := r.N(256)
		for k := range a {
			if z&(1<<uint(k)) == 0 {
				a[k] = uint16(r.N(0x10000))
			}
		}
		w.Host = "[" + a.String() + "]"
	default:
		n := 1 + r.N(3)
		ls := make([]string, n)
		for i := range ls {
			l := ""
			m := 1 + r.N(6)
			for j := 0; j < m; j++ {
				l += string("abcdefghijklmnopqrstuvwxyz0123456789-"[r.N(37)])
			}
			if strings.HasPrefix(l, "xn--") || l[0] == '-' || l[len(l)-1] == '-' {
				l = "a" + strings.Trim(l, "-") + "b"
			}
			ls[i] = l
		}
		if last := ls[n-1]; last[0] >= '0' && last[0] <= '9' {
			ls[n-1] = "c" + last // keep the host a domain (not ending in a number)
		}
		w.Host = strings.Join(ls, ".")
	}
	if r.P(25) {
		w.User = genUnreserved(r, 1, 4)
		if r.P(50) {
			w.Pass = genUnreserved(r, 1, 4)
		}
	}
	if r.P(30) {
		w.Port = fmt.Sprint(1 + r.N(65535))
		if w.Port == stdDefaultPorts[w.Scheme] {
			w.Port = "8080"
		}
	}
	ns := r.N(5)
	for i := 0; i < ns; i++ {
		s := genUnreserved(r, 1, 5)
		if r.P(4) {
			s = ""
		}
		if s == "." || s == ".." {
			s = "d" + s
		}
		w.Segs = append(w.Segs, s)
	}
	if r.P(40) {
		w.HasQuery = true
		nq := 1 + r.N(3)
		for i := 0; i < nq; i++ {
			w.Query = append(w.Query, [2]string{genUnreserved(r, 1, 3), genUnreserved(r, 0, 3)})
		}
	}
	if r.P(30) {
		w.HasFrag = true
		w.Frag = genUnreserved(r, 1, 4)
	}
	return w
}

// how a spelling may deviate from the plain one
type Spelling struct {
	EncPct      int  // percent of unreserved characters written as escapes
	Nest        int  // extra nesting levels of '%' -> %25
	NestHex     bool // a nesting level may also escape hex digits of an escape (%7E -> %7%45 -> %257%2545)
	EncCreds    bool // also in credentials
	SchemeCase  bool
	HostCase    bool
	DefaultPort int // 0 nothing, 1 explicit default port, 2 empty port
	DotSegs     int // inserted "./" and "x/../" segments
	DotEsc      int // 0 literal, 1 %2e, 2 nested
	TabNl       bool
	Space       bool
	EmptyFrag   bool
}

func pct(r *Rand, b byte) string {
	e := fmt.Sprintf("%%%02X", b)
	if r.P(50) {
		e = strings.ToLower(e)
	}
	return e
}

func encUnreserved(r *Rand, s string, sp Spelling) string {
	var sb strings.Builder
	for i := 0; i < len(s); i++ {
		if r.P(sp.EncPct) {
			e := pct(r, s[i])
			for k := 0; k < sp.Nest; k++ {
				// a further level: every '%' of the text is escaped, and sometimes a hex digit of an escape as well
				var nb strings.Builder
				for j := 0; j < len(e); j++ {
					if (e[j] == '%' && !(sp.NestHex && r.P(25))) || (e[j] != '%' && sp.NestHex && r.P(35)) {
						nb.WriteString(pct(r, e[j]))
					} else {
						nb.WriteByte(e[j])
					}
				}
				e = nb.String()
			}
			sb.WriteString(e)
		} else {
			sb.WriteByte(s[i])
		}
	}
	return sb.String()
}

func (w WebUrl) Spell(r *Rand, sp Spelling) string {
	var sb strings.Builder
	scheme := w.Scheme
	if sp.SchemeCase {
		scheme = flipCase(r, scheme)
	}
	sb.WriteString(scheme + "://")
	if w.User != "" {
		u, p := w.User, w.Pass
		if sp.EncCreds {
			u, p = encUnreserved(r, u, sp), encUnreserved(r, p, sp)
		}
		sb.WriteString(u)
		if w.Pass != "" {
			sb.WriteString(":" + p)
		}
		sb.WriteString("@")
	}
	host := w.Host
	if sp.HostCase {
		host = flipCase(r, host)
	}
	if w.HostKind == 0 && sp.EncPct > 0 {
		host = encUnreserved(r, host, Spelling{EncPct: sp.EncPct / 2, Nest: sp.Nest})
	}
	sb.WriteString(host)
	if w.Port != "" {
		sb.WriteString(":" + w.Port)
	} else if sp.DefaultPort == 1 {
		sb.WriteString(":" + stdDefaultPorts[w.Scheme])
	} else if sp.DefaultPort == 2 {
		sb.WriteString(":")
	}
	dot := func(s string) string {
		// every '.' of a dot segment is spelled independently (so that mixed forms such as %2e%2E and .%2e occur)
		var sb strings.Builder
		for _, c := range s {
			if c != '.' {
				sb.WriteRune(c)
				continue
			}
			switch sp.DotEsc {
			case 1:
				sb.WriteString(r.Pick([]string{"%2e", "%2E", "."}))
			case 2:
				sb.WriteString(r.Pick([]string{"%252e", "%252E", "%25252e", "%2e", "."}))
			default:
				sb.WriteString(".")
			}
		}
		return sb.String()
	}
	ins := sp.DotSegs
	for _, s := range w.Segs {
		for ins > 0 && r.P(50) {
			ins--
			if r.P(50) {
				sb.WriteString("/" + dot("."))
			} else {
				sb.WriteString("/" + genUnreserved(r, 1, 2) + "x/" + dot(".."))
			}
		}
		sb.WriteString("/" + encUnreserved(r, s, sp))
	}
	if len(w.Segs) == 0 && (w.HasQuery || w.HasFrag || r.P(50)) {
		sb.WriteString("/")
	}
	if w.HasQuery {
		sb.WriteString("?")
		for i, p := range w.Query {
			if i > 0 {
				sb.WriteString("&")
			}
			sb.WriteString(encUnreserved(r, p[0], sp) + "=" + encUnreserved(r, p[1], sp))
		}
	}
	if w.HasFrag {
		sb.WriteString("#" + encUnreserved(r, w.Frag, sp))
	} else if sp.EmptyFrag {
		sb.WriteString("#")
	}
	s := sb.String()
	if sp.TabNl && len(s) > 0 {
		k := r.N(len(s) + 1)
		s = s[:k] + r.Pick([]string{"\t", "\n", "\r"}) + s[k:]
	}
	if sp.Space {
		s = r.Pick([]string{" ", "\t ", "\n"}) + s + r.Pick([]string{" ", "", "  "})
	}
	return s
}

func randomSpelling(r *Rand, groupG bool) Spelling {
	sp := Spelling{}
	if r.P(40) {
		sp.SchemeCase = true
	}
	if r.P(40) {
		sp.HostCase = true
	}
	sp.DefaultPort = r.N(3)
	if r.P(40) {
		sp.DotSegs = 1 + r.N(2)
	}
	if r.P(25) {
		sp.TabNl = true
	}
	if r.P(25) {
		sp.Space = true
	}
	if !groupG && sp.DotSegs > 0 {
		sp.DotEsc = r.N(2) // the standard itself treats %2e (any case) as a dot
	}
	if groupG {
		if r.P(60) {
			sp.EncPct = []int{10, 30, 100}[r.N(3)]
			sp.Nest = r.N(3)
			sp.NestHex = r.P(40)
			sp.EncCreds = r.P(30)
		}
		if sp.DotSegs > 0 {
			sp.DotEsc = r.N(3)
		}
		sp.EmptyFrag = r.P(30)
	}
	return sp
}

// ---- C17 ---------------------------------------------------------------------------------------------------

func hostDecodesToDelimiter(s string) bool {
	return strings.Contains(s, "%")
}

func checkIdem(h *Hist, p *Prof, in string, webGrammar bool) {
	orc.Eval("C17")
	u, err := p.Parser.Parse(in)
	k := h.CanonParse(p, in)
	if err != nil || k < 0 {
		return
	}
	s1 := u.String()
	v, err2 := p.Parser.Parse(s1)
	h.CanonParse(p, s1)
	if err2 == nil && v.String() == s1 {
		return
	}
	// F18 / F18b are about hosts, paths and queries that decode to delimiters: a second run that differs from the first
	// ONLY in the fragment is not one of them
	onlyFragment := err2 == nil && v.Href(true) == u.Href(true)
	// F6 is about the host (second run rejected, or another host); F8 / F8b are about the query's serialization (the
	// second run differs from the first in the query)
	hostMatter := err2 != nil || v.Hostname() != u.Hostname()
	queryMatter := err2 == nil && v.Search() != u.Search()
	queryClass := "other"
	if queryMatter {
		queryClass = roundTripClassOf(spList(u), spList(v))
	}
	class := "other"
	switch {
	case hasAceLabel(u.Hostname()) && hostMatter:
		class = "idn-host"
	case (p.V.SortQuery != 0 || p.V.RepeatedPercentDecoding) && queryClass != "other":
		class = queryClass
	case p.V.RepeatedPercentDecoding && !webGrammar && !u.IsSpecialScheme() && !onlyFragment:
		class = "repeated-decoding-non-special"
	case p.V.RepeatedPercentDecoding && !webGrammar && !onlyFragment:
		class = "repeated-decoding-outside-web-grammar"
	case stdNonRoundTrip(u):
		class = "std-exception"
	}
	what := "second canonicalization failed"
	if err2 == nil {
		what = "second canonicalization gives " + q(v.String())
	}
	orc.Fail("C17", class, fmt.Sprintf("%s: %s -> %s; %s", p.Name, q(in), q(s1), what), strings.Join(h.ops, " ; "))
}

func decoderLeaves(r *Rand, n int, o *Out) {
	for i := 0; i < n; i++ {
		rr := r.Fork()
		plain := rr.Pick(segPool) + genUnreserved(rr, 0, 4) + rr.Pick([]string{"", "~", "%", "%7", "/", "?", "a b"})
		s := encUnreserved(rr, plain, Spelling{EncPct: []int{20, 60, 100}[rr.N(3)], Nest: rr.N(4), NestHex: rr.P(60)})
		set := []*url.PercentEncodeSet{url.HostPercentEncodeSet, canonicalizer.LaxPathPercentEncodeSet, canonicalizer.RepeatedQueryPercentDecodeSet}[rr.N(3)]
		leafSimple(o, "LRD", xs(s), xs(canonicalizer.VerifRepeatedDecode(s)))
		leafSimple(o, "LDE", setTok(set)+" "+xs(s), xs(canonicalizer.VerifDecodeEncode(s, set)))
		// property level: any nested spelling of unreserved text canonicalizes like the plain text
		un := genUnreserved(rr, 1, 5)
		sp2 := encUnreserved(rr, un, Spelling{EncPct: []int{30, 100}[rr.N(2)], Nest: 1 + rr.N(3), NestHex: true})
		p := []*Prof{profGSB, profSemantic}[rr.N(2)]
		a, b := "http://example.com/a/"+un+"/b?k="+un, "http://example.com/a/"+sp2+"/b?k="+sp2
		orc.Eval("C18")
		u1, e1 := p.Parser.Parse(a)
		u2, e2 := p.Parser.Parse(b)
		if (e1 != nil) != (e2 != nil) || (e1 == nil && u1.String() != u2.String()) {
			h := &Hist{}
			h.CanonParse(p, a)
			h.CanonParse(p, b)
			o.EmitHist("v", h)
			orc.Fail("C18", "nested-escape-not-decoded", fmt.Sprintf("%s: %s and %s canonicalize differently", p.Name, q(a), q(b)), strings.Join(h.ops, " ; "))
		}
	}
}

func streamC17(r *Rand, n int, o *Out) {
	// deterministic: every path of up to three segments over { plain, empty, '.', '..', '%2e', '%2E%2e' } — the slash-collapsing
	// and dot-segment corner of the web grammar (an empty segment before a final dot segment is only collapsed by the
	// pipeline's SECOND parse: wave 10's S101) — under the two experimental profiles and a repeated-decoding profile with
	// collapsing, with and without a query and a fragment
	{
		segAlpha := []string{"a", "", ".", "..", "%2e", "%2E%2e"}
		var paths []string
		var rec func(prefix string, depth int)
		rec = func(prefix string, depth int) {
			if depth > 0 {
				paths = append(paths, prefix)
			}
			if depth == 3 {
				return
			}
			for _, sg := range segAlpha {
				rec(prefix+"/"+sg, depth+1)
			}
		}
		rec("", 0)
		profs := []*Prof{profGSB, profSemantic}
		for _, pth := range paths {
			for _, p := range profs {
				for _, tail := range []string{"", "?x=1#f"} {
					h := &Hist{}
					checkIdem(h, p, "http://example.com"+pth+tail, true)
					o.EmitHist("d", h)
				}
			}
		}
	}
	profileLeaves(o)
	decoderLeaves(r.Fork(), n/8, o)
	for i := 0; i < n; i++ {
		rr := r.Fork()
		h := &Hist{}
		// opaque paths with trailing spaces next to empty / trivial queries and fragments (where stripping and the list write-through meet)
		opaqueIn := func() string {
			return rr.Pick([]string{"sc:", "data:", "mailto:", "a+b:"}) + rr.Pick(segPool) + rr.Pick([]string{" ", "  ", "", " \t"}) +
				rr.Pick([]string{"?", "?&", "?&&", "?#", "#", "?&#f", "", "?a=1", "?=", "? ", "?a#"})
		}
		switch i % 4 {
		case 0:
			p := []*Prof{profWhatWg, profWhatWgSort}[rr.N(2)]
			in := genInput(rr)
			if rr.P(25) {
				in = opaqueIn()
			}
			checkIdem(h, p, in, false)
		case 1:
			// composed from the canonicalizer's own options
			cm := rr.N(96)
			p := profFromMask(rr, cm, 0)
			in := genInput(rr)
			if rr.P(20) {
				in = rr.Pick(weirdHosts) + genPath(rr)
			} else if rr.P(25) {
				in = opaqueIn()
			}
			checkIdem(h, p, in, false)
		default:
			w := genWebUrl(rr)
			sp := randomSpelling(rr, true)
			in := w.Spell(rr, sp)
			p := []*Prof{profGSB, profSemantic}[rr.N(2)]
			if rr.P(20) {
				p = profFromMask(rr, 8|rr.N(96), 0)
			}
			checkIdem(h, p, in, true)
		}
		o.EmitHist("k", h)
	}
}

// ---- C18 ---------------------------------------------------------------------------------------------------

// profileLeaves: the configuration tokens of the predefined profile OBJECTS decode, in the Lean driver, to the Lean values
// `gsbProfile` / `semanticProfile` / the default profile that the theorems of Props/C18e, C17b are stated about
func profileLeaves(o *Out) {
	for _, p := range []*Prof{profWhatWg, profWhatWgSort, profGSB, profSemantic} {
		leafSimple(o, "LPROF", p.Name+" "+p.Tok, "1")
	}
}

func streamC18(r *Rand, n int, o *Out) {
	profileLeaves(o)
	decoderLeaves(r.Fork(), n/8, o)
	for i := 0; i < n; i++ {
		rr := r.Fork()
		w := genWebUrl(rr)
		h := &Hist{}
		groupG := i%2 == 0
		var p *Prof
		if groupG {
			p = []*Prof{profGSB, profSemantic, profGSB, profSemantic, nil}[rr.N(5)]
			if p == nil {
				p = profFromMask(rr, 8|rr.N(96), 0)
			}
		} else {
			p = []*Prof{profWhatWg, profWhatWgSort, profGSB, profSemantic, nil, nil}[rr.N(6)]
			if p == nil {
				p = profFromMask(rr, rr.N(96), 0)
			}
		}
		plain := w.Spell(rr, Spelling{})
		sp := randomSpelling(rr, groupG)
		varied := w.Spell(rr, sp)
		orc.Eval("C18")
		u1, e1 := p.Parser.Parse(plain)
		u2, e2 := p.Parser.Parse(varied)
		h.CanonParse(p, plain)
		h.CanonParse(p, varied)
		same := (e1 != nil) == (e2 != nil) && (e1 != nil || u1.String() == u2.String())
		if !same {
			class := "other"
			emptySegNextToDot := false
			for _, s := range w.Segs {
				if s == "" {
					emptySegNextToDot = true
				}
			}
			switch {
			case sp.EncCreds && sp.EncPct > 0 && w.User != "" && p.V.RepeatedPercentDecoding && !p.V.RemoveUserInfo:
				class = "credentials-not-decoded"
			case sp.DotSegs > 0 && sp.DotEsc == 2 && emptySegNextToDot:
				class = "nested-escaped-dot-segment-next-to-empty-segment"
			case groupG && sp.EncPct > 0 && sp.Nest > 0 && w.HostKind == 0 && !p.Inner.Opts.LaxHostParsing && e2 != nil:
				class = "nested-escaped-host-without-lax-host-parsing"
			case groupG && sp.EmptyFrag && !w.HasFrag && !p.V.RemoveFragment && e1 == nil && e2 == nil && u1.String()+"#" == u2.String():
				class = "empty-fragment-kept-without-remove-fragment"
			case !groupG:
				class = "standard-normalisation"
			}
			a, b := "ERR", "ERR"
			if e1 == nil {
				a = u1.String()
			}
			if e2 == nil {
				b = u2.String()
			}
			orc.Fail("C18", class, fmt.Sprintf("%s: %s -> %s but %s -> %s", p.Name, q(plain), q(a), q(varied), q(b)), strings.Join(h.ops, " ; "))
		}
		o.EmitHist("v", h)
	}
}
