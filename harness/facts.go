package main

// T1: facts regenerated from /repo's working tree on every run and written as Lean source
// (lean/WhatwgUrl/Generated/Facts.lean). Syntactic facts come from go/ast; tables come from executing the package.

import (
	"fmt"
	"go/ast"
	"go/parser"
	"go/token"
	"go/types"
	"os"
	"path/filepath"
	"reflect"
	"sort"
	"strings"

	"github.com/nlnwa/whatwg-url/canonicalizer"
	"github.com/nlnwa/whatwg-url/url"
)

type pkgFiles struct {
	fset  *token.FileSet
	files map[string]*ast.File
	names []string
}

func parseDir(dir string) *pkgFiles {
	p := &pkgFiles{fset: token.NewFileSet(), files: map[string]*ast.File{}}
	ents, _ := os.ReadDir(dir)
	for _, e := range ents {
		n := e.Name()
		if !strings.HasSuffix(n, ".go") || strings.HasSuffix(n, "_test.go") || strings.HasPrefix(n, "verif_") {
			continue
		}
		f, err := parser.ParseFile(p.fset, filepath.Join(dir, n), nil, 0)
		if err != nil {
			fmt.Fprintln(os.Stderr, "parse error:", err)
			os.Exit(1)
		}
		p.files[n] = f
		p.names = append(p.names, n)
	}
	sort.Strings(p.names)
	return p
}

func (p *pkgFiles) funcs(f func(file string, fd *ast.FuncDecl)) {
	for _, n := range p.names {
		for _, d := range p.files[n].Decls {
			if fd, ok := d.(*ast.FuncDecl); ok && fd.Body != nil {
				f(n, fd)
			}
		}
	}
}

func funcName(fd *ast.FuncDecl) string {
	if fd.Recv != nil && len(fd.Recv.List) > 0 {
		t := fd.Recv.List[0].Type
		if s, ok := t.(*ast.StarExpr); ok {
			t = s.X
		}
		if id, ok := t.(*ast.Ident); ok {
			return id.Name + "." + fd.Name.Name
		}
	}
	return fd.Name.Name
}

func exprStr(e ast.Expr) string {
	switch x := e.(type) {
	case *ast.Ident:
		return x.Name
	case *ast.SelectorExpr:
		return exprStr(x.X) + "." + x.Sel.Name
	case *ast.StarExpr:
		return "*" + exprStr(x.X)
	case *ast.IndexExpr:
		return exprStr(x.X) + "[]"
	case *ast.ParenExpr:
		return exprStr(x.X)
	case *ast.CallExpr:
		return exprStr(x.Fun) + "()"
	case *ast.BasicLit:
		return x.Value
	case *ast.SliceExpr:
		return exprStr(x.X) + "[:]"
	case *ast.UnaryExpr:
		return x.Op.String() + exprStr(x.X)
	}
	return "?"
}

func rootIdent(e ast.Expr) string {
	for {
		switch x := e.(type) {
		case *ast.Ident:
			return x.Name
		case *ast.SelectorExpr:
			e = x.X
		case *ast.StarExpr:
			e = x.X
		case *ast.IndexExpr:
			e = x.X
		case *ast.ParenExpr:
			e = x.X
		case *ast.SliceExpr:
			e = x.X
		default:
			return ""
		}
	}
}

func leanStr(s string) string {
	return "\"" + strings.ReplaceAll(strings.ReplaceAll(s, "\\", "\\\\"), "\"", "\\\"") + "\""
}
func leanBool(b bool) string {
	if b {
		return "true"
	}
	return "false"
}
func leanList(items []string) string {
	if len(items) == 0 {
		return "[]"
	}
	return "[\n  " + strings.Join(items, ",\n  ") + "]"
}
func leanStrList(items []string) string {
	q := make([]string, len(items))
	for i, s := range items {
		q[i] = leanStr(s)
	}
	return "[" + strings.Join(q, ", ") + "]"
}

// ---- error sites -------------------------------------------------------------------------------------

// boolConsts: the package-level boolean constants (`const fatal = true`), so that a failure flag written as a named
// constant reads like the literal it stands for
func (p *pkgFiles) boolConsts() map[string]string {
	res := map[string]string{}
	for _, f := range p.files {
		for _, d := range f.Decls {
			gd, ok := d.(*ast.GenDecl)
			if !ok || gd.Tok != token.CONST {
				continue
			}
			for _, sp := range gd.Specs {
				vs := sp.(*ast.ValueSpec)
				for i, n := range vs.Names {
					if i < len(vs.Values) {
						if v := exprStr(vs.Values[i]); v == "true" || v == "false" {
							res[n.Name] = v
						}
					}
				}
			}
		}
	}
	// constants defined through other constants (`nonFatal = !fatal`, `x = fatal`)
	for round := 0; round < 3; round++ {
		for _, f := range p.files {
			for _, d := range f.Decls {
				gd, ok := d.(*ast.GenDecl)
				if !ok || gd.Tok != token.CONST {
					continue
				}
				for _, sp := range gd.Specs {
					vs := sp.(*ast.ValueSpec)
					for i, n := range vs.Names {
						if i >= len(vs.Values) {
							continue
						}
						v := exprStr(vs.Values[i])
						neg := strings.HasPrefix(v, "!")
						if w, ok := res[strings.TrimPrefix(v, "!")]; ok {
							if neg {
								w = map[string]string{"true": "false", "false": "true"}[w]
							}
							res[n.Name] = w
						}
					}
				}
			}
		}
	}
	return res
}

func errorSites(p *pkgFiles) []string {
	var res []string
	consts := p.boolConsts()
	p.funcs(func(file string, fd *ast.FuncDecl) {
		var stack []ast.Node
		ast.Inspect(fd.Body, func(n ast.Node) bool {
			if n == nil {
				stack = stack[:len(stack)-1]
				return true
			}
			stack = append(stack, n)
			c, ok := n.(*ast.CallExpr)
			if !ok {
				return true
			}
			sel, ok := c.Fun.(*ast.SelectorExpr)
			if !ok || (sel.Sel.Name != "handleError" && sel.Sel.Name != "handleErrorWithDescription" && sel.Sel.Name != "handleWrappedError") || len(c.Args) < 3 {
				return true
			}
			typ := exprStr(c.Args[1])
			typ = strings.TrimPrefix(typ, "errors.")
			flag := exprStr(c.Args[2])
			if v, ok := consts[flag]; ok {
				flag = v
			}
			// is the call the init of an `if err := …; err != nil { return … }` (or an assignment followed by a return in the if body)?
			guarded := false
			for i := len(stack) - 2; i >= 0 && i >= len(stack)-4; i-- {
				if ifs, ok := stack[i].(*ast.IfStmt); ok {
					for _, st := range ifs.Body.List {
						if _, ok := st.(*ast.ReturnStmt); ok {
							guarded = true
						}
					}
					break
				}
			}
			res = append(res, fmt.Sprintf("(%s, %s, %s, %s)", leanStr(funcName(fd)), leanStr(typ), leanBool(flag == "true"), leanBool(guarded)))
			return true
		})
	})
	return res
}

// ---- error catalogue ------------------------------------------------------------------------------------

func errorCatalogue(dir string) []string {
	fset := token.NewFileSet()
	f, err := parser.ParseFile(fset, filepath.Join(dir, "codes.go"), nil, 0)
	if err != nil {
		return nil
	}
	var res []string
	for _, d := range f.Decls {
		gd, ok := d.(*ast.GenDecl)
		if !ok || gd.Tok != token.CONST {
			continue
		}
		for _, s := range gd.Specs {
			vs := s.(*ast.ValueSpec)
			for _, n := range vs.Names {
				res = append(res, n.Name)
			}
		}
	}
	return res
}

// ---- walking a case body together with the helpers it hands the cursor to ------------------------------------------
//
// The per-state facts (transitions, cursor calls, base copies) are read off the body of each `case` of BasicParser's
// `switch state`. When a body (or a part of it) has been moved into a function of the package that is handed the cursor
// (an argument rooted at `input`), the callee's body is visited at the position of the call, with the callee's parameter
// names mapped back to the caller's argument names — so extracting a state into a method changes no fact.
type inliner struct {
	decls map[string]*ast.FuncDecl // by bare function / method name
}

func newInliner(p *pkgFiles) *inliner {
	in := &inliner{decls: map[string]*ast.FuncDecl{}}
	p.funcs(func(file string, fd *ast.FuncDecl) {
		if _, dup := in.decls[fd.Name.Name]; dup {
			in.decls[fd.Name.Name] = nil // ambiguous name: never inlined
		} else {
			in.decls[fd.Name.Name] = fd
		}
	})
	return in
}

func renamedRoot(e ast.Expr, ren map[string]string) string {
	r := rootIdent(e)
	if v, ok := ren[r]; ok {
		return v
	}
	return r
}

// exprStr with the root identifier renamed (a leading '*' or '&' is dropped: `*state = X` in a helper is `state = X`)
func exprStrR(e ast.Expr, ren map[string]string) string {
	for {
		switch x := e.(type) {
		case *ast.StarExpr:
			e = x.X
			continue
		case *ast.ParenExpr:
			e = x.X
			continue
		}
		break
	}
	s := exprStr(e)
	r := rootIdent(e)
	if v, ok := ren[r]; ok && r != "" && strings.HasPrefix(s, r) {
		s = v + s[len(r):]
	}
	return s
}

func (in *inliner) walk(n ast.Node, ren map[string]string, depth int, visit func(m ast.Node, ren map[string]string)) {
	ast.Inspect(n, func(m ast.Node) bool {
		if m == nil {
			return true
		}
		visit(m, ren)
		call, ok := m.(*ast.CallExpr)
		if !ok || depth >= 3 {
			return true
		}
		name := ""
		switch f := call.Fun.(type) {
		case *ast.SelectorExpr:
			name = f.Sel.Name
		case *ast.Ident:
			name = f.Name
		}
		fd := in.decls[name]
		if fd == nil || fd.Body == nil || name == "BasicParser" {
			return true
		}
		handsCursor := false
		for _, a := range call.Args {
			if u, ok := a.(*ast.UnaryExpr); ok && u.Op == token.AND {
				a = u.X
			}
			if id, ok := a.(*ast.Ident); ok && renamedRoot(id, ren) == "input" {
				handsCursor = true
			}
		}
		if !handsCursor {
			return true
		}
		sub := map[string]string{}
		i := 0
		for _, fld := range fd.Type.Params.List {
			for _, nm := range fld.Names {
				if i < len(call.Args) {
					a := call.Args[i]
					if u, ok := a.(*ast.UnaryExpr); ok && u.Op == token.AND {
						a = u.X
					}
					if id, ok := a.(*ast.Ident); ok {
						sub[nm.Name] = renamedRoot(id, ren)
					}
				}
				i++
			}
		}
		in.walk(fd.Body, sub, depth+1, visit)
		return true
	})
}

// ---- state machine skeleton ------------------------------------------------------------------------------

type caseFacts struct {
	labels  []string
	targets []string
	cursor  []string
}

func skeleton(p *pkgFiles) []caseFacts {
	var res []caseFacts
	inl := newInliner(p)
	p.funcs(func(file string, fd *ast.FuncDecl) {
		if fd.Name.Name != "BasicParser" {
			return
		}
		ast.Inspect(fd.Body, func(n ast.Node) bool {
			sw, ok := n.(*ast.SwitchStmt)
			if !ok {
				return true
			}
			if id, ok := sw.Tag.(*ast.Ident); !ok || id.Name != "state" {
				return true
			}
			for _, st := range sw.Body.List {
				cc := st.(*ast.CaseClause)
				cf := caseFacts{}
				for _, l := range cc.List {
					cf.labels = append(cf.labels, exprStr(l))
				}
				for _, b := range cc.Body {
					inl.walk(b, map[string]string{}, 0, func(m ast.Node, ren map[string]string) {
						switch x := m.(type) {
						case *ast.AssignStmt:
							if len(x.Lhs) == 1 && exprStrR(x.Lhs[0], ren) == "state" {
								cf.targets = append(cf.targets, exprStr(x.Rhs[0]))
							}
						case *ast.CallExpr:
							if sel, ok := x.Fun.(*ast.SelectorExpr); ok && renamedRoot(sel.X, ren) == "input" {
								if _, direct := sel.X.(*ast.Ident); direct {
									switch sel.Sel.Name {
									case "rewindLast", "reset", "rewind", "nextCodePoint":
										cf.cursor = append(cf.cursor, sel.Sel.Name)
									}
								}
							}
						case *ast.BranchStmt:
							if x.Tok == token.FALLTHROUGH {
								cf.targets = append(cf.targets, "FALLTHROUGH")
							}
						}
					})
				}
				res = append(res, cf)
			}
			return false
		})
	})
	// canonical order: by first label (the order of the `case` clauses in the source carries no meaning; a `fallthrough`
	// names its target by position, so it is resolved to the label of the following clause first)
	for i := range res {
		for j, t := range res[i].targets {
			if t == "FALLTHROUGH" && i+1 < len(res) && len(res[i+1].labels) > 0 {
				res[i].targets[j] = "FALLTHROUGH:" + res[i+1].labels[0]
			}
		}
	}
	sort.SliceStable(res, func(a, b int) bool { return strings.Join(res[a].labels, ",") < strings.Join(res[b].labels, ",") })
	return res
}

// what each state of BasicParser copies from the base: (case label, "url.x = base.y") in source order
func baseCopies(p *pkgFiles) []string {
	var res []string
	inl := newInliner(p)
	p.funcs(func(file string, fd *ast.FuncDecl) {
		if fd.Name.Name != "BasicParser" {
			return
		}
		ast.Inspect(fd.Body, func(n ast.Node) bool {
			sw, ok := n.(*ast.SwitchStmt)
			if !ok {
				return true
			}
			if id, ok := sw.Tag.(*ast.Ident); !ok || id.Name != "state" {
				return true
			}
			for _, st := range sw.Body.List {
				cc := st.(*ast.CaseClause)
				label := ""
				if len(cc.List) > 0 {
					label = exprStr(cc.List[0])
				}
				var copies []string
				for _, b := range cc.Body {
					inl.walk(b, map[string]string{}, 0, func(m ast.Node, ren map[string]string) {
						if as, ok := m.(*ast.AssignStmt); ok && len(as.Lhs) == len(as.Rhs) {
							for i := range as.Lhs { // also tuple assignments `url.a, url.b = base.a, base.b`
								if renamedRoot(as.Rhs[i], ren) == "base" && renamedRoot(as.Lhs[i], ren) == "url" {
									copies = append(copies, exprStrR(as.Lhs[i], ren)+" = "+exprStrR(as.Rhs[i], ren))
								}
							}
						}
					})
				}
				if len(copies) > 0 {
					sort.Strings(copies) // independent assignments: their order carries no meaning
					res = append(res, fmt.Sprintf("(%s, %s)", leanStr(label), leanStrList(copies)))
				}
			}
			return false
		})
	})
	sort.Strings(res)
	return res
}

// ---- option writes -----------------------------------------------------------------------------------------

func optionWrites(p *pkgFiles, recvNames map[string]bool) []string {
	var res []string
	p.funcs(func(file string, fd *ast.FuncDecl) {
		if !strings.HasPrefix(fd.Name.Name, "With") {
			return
		}
		var fields []string
		ast.Inspect(fd.Body, func(n ast.Node) bool {
			if as, ok := n.(*ast.AssignStmt); ok {
				for _, l := range as.Lhs {
					if sel, ok := l.(*ast.SelectorExpr); ok {
						if id, ok := sel.X.(*ast.Ident); ok && recvNames[id.Name] {
							fields = append(fields, sel.Sel.Name)
						}
					}
				}
			}
			return true
		})
		res = append(res, fmt.Sprintf("(%s, %s)", leanStr(fd.Name.Name), leanStrList(fields)))
	})
	return res
}

// ---- predefined profiles --------------------------------------------------------------------------------------

func profileOptions(p *pkgFiles) []string {
	var res []string
	for _, n := range p.names {
		for _, d := range p.files[n].Decls {
			gd, ok := d.(*ast.GenDecl)
			if !ok || gd.Tok != token.VAR {
				continue
			}
			for _, s := range gd.Specs {
				vs := s.(*ast.ValueSpec)
				if len(vs.Values) != 1 {
					continue
				}
				c, ok := vs.Values[0].(*ast.CallExpr)
				if !ok || exprStr(c.Fun) != "New" {
					continue
				}
				var opts []string
				for _, a := range c.Args {
					if ac, ok := a.(*ast.CallExpr); ok {
						s := exprStr(ac.Fun)
						arg := ""
						if len(ac.Args) == 1 {
							switch x := ac.Args[0].(type) {
							case *ast.Ident, *ast.SelectorExpr:
								arg = "(" + exprStr(x) + ")"
							case *ast.BasicLit:
								arg = "(" + strings.Trim(x.Value, "\"") + ")"
							default:
								arg = "(…)"
							}
						}
						opts = append(opts, strings.TrimPrefix(s, "url.")+arg)
					}
				}
				res = append(res, fmt.Sprintf("(%s, %s)", leanStr(vs.Names[0].Name), leanStrList(opts)))
			}
		}
	}
	return res
}

// ---- effects ----------------------------------------------------------------------------------------------------

func packageVars(p *pkgFiles) map[string]bool {
	res := map[string]bool{}
	for _, n := range p.names {
		for _, d := range p.files[n].Decls {
			if gd, ok := d.(*ast.GenDecl); ok && gd.Tok == token.VAR {
				for _, s := range gd.Specs {
					for _, id := range s.(*ast.ValueSpec).Names {
						res[id.Name] = true
					}
				}
			}
		}
	}
	return res
}

var mutatingMethods = map[string]bool{"Set": true, "Clear": true, "InPlaceUnion": true, "InPlaceIntersection": true, "SetTo": true, "Flip": true, "ClearAll": true, "SetAll": true}

// stores to package level variables (assignment, or a mutating bitset method called directly on the variable) outside init.
// PercentEncodeSet.Set/Clear return copies; they are listed too (with kind "call") so that the expectation is explicit.
func globalWrites(p *pkgFiles) []string {
	vars := packageVars(p)
	var res []string
	p.funcs(func(file string, fd *ast.FuncDecl) {
		if fd.Name.Name == "init" && fd.Recv == nil {
			return
		}
		locals := map[string]bool{}
		if fd.Recv != nil {
			for _, f := range fd.Recv.List {
				for _, n := range f.Names {
					locals[n.Name] = true
				}
			}
		}
		for _, f := range fd.Type.Params.List {
			for _, n := range f.Names {
				locals[n.Name] = true
			}
		}
		ast.Inspect(fd.Body, func(n ast.Node) bool {
			switch x := n.(type) {
			case *ast.AssignStmt:
				for _, l := range x.Lhs {
					if x.Tok == token.DEFINE {
						if id, ok := l.(*ast.Ident); ok {
							locals[id.Name] = true
						}
						continue
					}
					r := rootIdent(l)
					if vars[r] && !locals[r] {
						res = append(res, fmt.Sprintf("(%s, %s, \"assign\")", leanStr(funcName(fd)), leanStr(exprStr(l))))
					}
				}
			case *ast.IncDecStmt:
				r := rootIdent(x.X)
				if vars[r] && !locals[r] {
					res = append(res, fmt.Sprintf("(%s, %s, \"incdec\")", leanStr(funcName(fd)), leanStr(exprStr(x.X))))
				}
			case *ast.CallExpr:
				if sel, ok := x.Fun.(*ast.SelectorExpr); ok && mutatingMethods[sel.Sel.Name] {
					if id, ok := sel.X.(*ast.Ident); ok && vars[id.Name] && !locals[id.Name] {
						res = append(res, fmt.Sprintf("(%s, %s, \"call\")", leanStr(funcName(fd)), leanStr(id.Name+"."+sel.Sel.Name)))
					}
				}
			}
			return true
		})
	})
	return res
}

// stores through the receiver or a parameter: (function, "x.field") in source order, duplicates removed
func fieldWrites(p *pkgFiles) []string {
	var res []string
	p.funcs(func(file string, fd *ast.FuncDecl) {
		params := map[string]bool{}
		if fd.Recv != nil {
			for _, f := range fd.Recv.List {
				for _, n := range f.Names {
					params[n.Name] = true
				}
			}
		}
		for _, f := range fd.Type.Params.List {
			for _, n := range f.Names {
				params[n.Name] = true
			}
		}
		if fd.Name.Name == "BasicParser" {
			params["base"] = true // the private clone of the base: stores through it are listed as well
		}
		seen := map[string]bool{}
		add := func(l ast.Expr) {
			if _, ok := l.(*ast.Ident); ok {
				return // re-binding a local name is not a store through it
			}
			r := rootIdent(l)
			if params[r] {
				s := exprStr(l)
				if !seen[s] {
					seen[s] = true
					res = append(res, fmt.Sprintf("(%s, %s)", leanStr(funcName(fd)), leanStr(s)))
				}
			}
		}
		ast.Inspect(fd.Body, func(n ast.Node) bool {
			switch x := n.(type) {
			case *ast.FuncLit:
				return false
			case *ast.AssignStmt:
				if x.Tok != token.DEFINE {
					for _, l := range x.Lhs {
						add(l)
					}
				}
			case *ast.IncDecStmt:
				add(x.X)
			}
			return true
		})
	})
	return res
}

// how BasicParser uses its baseUrl parameter
func baseUrlUses(p *pkgFiles) []string {
	var res []string
	p.funcs(func(file string, fd *ast.FuncDecl) {
		if fd.Name.Name != "BasicParser" {
			return
		}
		var stack []ast.Node
		ast.Inspect(fd.Body, func(n ast.Node) bool {
			if n == nil {
				stack = stack[:len(stack)-1]
				return true
			}
			stack = append(stack, n)
			if id, ok := n.(*ast.Ident); ok && id.Name == "baseUrl" && len(stack) >= 2 {
				switch par := stack[len(stack)-2].(type) {
				case *ast.BinaryExpr:
					res = append(res, exprStr(par.X)+" "+par.Op.String()+" "+exprStr(par.Y))
				case *ast.SelectorExpr:
					s := exprStr(par)
					if len(stack) >= 3 {
						if c, ok := stack[len(stack)-3].(*ast.CallExpr); ok && c.Fun == par {
							s += "()"
						}
					}
					res = append(res, s)
				default:
					res = append(res, fmt.Sprintf("%T", par))
				}
			}
			return true
		})
	})
	return res
}

// exported methods of *SearchParams: (name, calls update, assigns s.params or a pair)
func spMethods(p *pkgFiles) []string {
	var res []string
	p.funcs(func(file string, fd *ast.FuncDecl) {
		if !strings.HasPrefix(funcName(fd), "SearchParams.") || !ast.IsExported(fd.Name.Name) {
			return
		}
		calls, writes := false, false
		ast.Inspect(fd.Body, func(n ast.Node) bool {
			switch x := n.(type) {
			case *ast.CallExpr:
				if exprStr(x.Fun) == "s.update" {
					calls = true
				}
				if exprStr(x.Fun) == "sort.SliceStable" || exprStr(x.Fun) == "f" {
					writes = true
				}
			case *ast.AssignStmt:
				if x.Tok != token.DEFINE {
					for _, l := range x.Lhs {
						s := exprStr(l)
						if strings.HasPrefix(s, "s.params") || strings.HasPrefix(s, "nvp.") {
							writes = true
						}
					}
				}
			}
			return true
		})
		res = append(res, fmt.Sprintf("(%s, %s, %s)", leanStr(fd.Name.Name), leanBool(calls), leanBool(writes)))
	})
	return res
}

// callees by name of selected functions (for Clone, SetSearch, …)
func calleesOf(p *pkgFiles, names map[string]bool) []string {
	var res []string
	p.funcs(func(file string, fd *ast.FuncDecl) {
		if !names[funcName(fd)] {
			return
		}
		var cs []string
		seen := map[string]bool{}
		ast.Inspect(fd.Body, func(n ast.Node) bool {
			if c, ok := n.(*ast.CallExpr); ok {
				s := exprStr(c.Fun)
				if !seen[s] {
					seen[s] = true
					cs = append(cs, s)
				}
			}
			return true
		})
		res = append(res, fmt.Sprintf("(%s, %s)", leanStr(funcName(fd)), leanStrList(cs)))
	})
	return res
}

// does the package use unsafe / reflect / goroutines / channels (which the syntactic analysis does not understand)?
func exoticFeatures(ps ...*pkgFiles) []string {
	var res []string
	for _, p := range ps {
		for _, n := range p.names {
			for _, im := range p.files[n].Imports {
				v := strings.Trim(im.Path.Value, "\"")
				if v == "unsafe" || v == "reflect" || v == "sync" || v == "sync/atomic" {
					res = append(res, n+": import "+v)
				}
			}
			ast.Inspect(p.files[n], func(x ast.Node) bool {
				switch x.(type) {
				case *ast.GoStmt:
					res = append(res, n+": go statement")
				case *ast.ChanType:
					res = append(res, n+": channel")
				}
				return true
			})
		}
	}
	return res
}

// ---- cost sites ------------------------------------------------------------------------------------------------------

// Typed cost sites. Inside a loop body (or, one call level down, at the top level of a function of the package that is
// called from inside a loop): a string built by `+=` / `x = x + …`, a conversion that copies its operand
// ([]rune(s), []byte(s), string(bytes)), or a call to a function whose cost is linear in an operand. Numeric `+=` is not
// a cost site. Reported as (function containing the site, kind); duplicates removed.
var linearCalls = map[string]bool{"strings.Split": true, "strings.SplitN": true, "strings.ToLower": true, "strings.ToUpper": true, "strings.Repeat": true, "strings.ReplaceAll": true,
	"strings.Replace": true, "strings.Join": true, "strings.Fields": true, "strings.Map": true, "strings.TrimFunc": true, "strings.Count": true, "newInputString": true,
	"bytes.Join": true, "bytes.Repeat": true, "utf8.RuneCountInString": true, "fmt.Sprintf": true, "fmt.Sprint": true}

func rootOfSlice(e ast.Expr) ast.Expr {
	for {
		switch x := e.(type) {
		case *ast.SliceExpr:
			e = x.X
		case *ast.ParenExpr:
			e = x.X
		default:
			return e
		}
	}
}

func isStringType(t types.Type) bool {
	if t == nil {
		return false
	}
	b, ok := t.Underlying().(*types.Basic)
	return ok && b.Info()&types.IsString != 0
}

func costSitesTyped(p *pkgFiles, info *types.Info) []string {
	var res []string
	seen := map[string]bool{}
	add := func(fn, s string) {
		k := fn + "|" + s
		if !seen[k] {
			seen[k] = true
			res = append(res, fmt.Sprintf("(%s, %s)", leanStr(fn), leanStr(s)))
		}
	}
	decls := map[string]*ast.FuncDecl{}
	p.funcs(func(file string, fd *ast.FuncDecl) {
		if o, ok := info.Defs[fd.Name].(*types.Func); ok {
			k, _ := funcKey(o)
			decls[k] = fd
		}
	})
	typeOf := func(e ast.Expr) types.Type {
		if tv, ok := info.Types[e]; ok {
			return tv.Type
		}
		return nil
	}
	// local variables that only ever hold a slice of constant size: `x := make([]T, <constant>)` or a composite literal,
	// and never assigned again
	constSized := map[types.Object]bool{}
	assignedTwice := map[types.Object]bool{}
	p.funcs(func(file string, fd *ast.FuncDecl) {
		ast.Inspect(fd.Body, func(n ast.Node) bool {
			as, ok := n.(*ast.AssignStmt)
			if !ok || len(as.Lhs) != len(as.Rhs) {
				return true
			}
			for i, l := range as.Lhs {
				id, ok := l.(*ast.Ident)
				if !ok {
					continue
				}
				if as.Tok != token.DEFINE {
					if o := info.Uses[id]; o != nil {
						assignedTwice[o] = true
					}
					continue
				}
				o := info.Defs[id]
				if o == nil {
					continue
				}
				switch r := as.Rhs[i].(type) {
				case *ast.CompositeLit:
					constSized[o] = true
				case *ast.CallExpr:
					if f, ok := r.Fun.(*ast.Ident); ok && f.Name == "make" && len(r.Args) == 2 {
						if tv, ok := info.Types[r.Args[1]]; ok && tv.Value != nil {
							constSized[o] = true
						}
					}
				}
			}
			return true
		})
	})
	for o := range assignedTwice {
		delete(constSized, o)
	}
	var scan func(fn string, n ast.Node, depth int, follow bool)
	var scanTop func(fn string, n ast.Node)
	visiting := map[string]bool{}
	var site func(fn string, m ast.Node, follow bool)
	site = func(fn string, m ast.Node, follow bool) {
		switch x := m.(type) {
		case *ast.AssignStmt:
			if x.Tok == token.ADD_ASSIGN && isStringType(typeOf(x.Lhs[0])) {
				add(fn, "string += "+exprStr(x.Lhs[0]))
			}
			if x.Tok == token.ASSIGN && len(x.Lhs) == 1 && len(x.Rhs) == 1 && isStringType(typeOf(x.Lhs[0])) {
				if b, ok := x.Rhs[0].(*ast.BinaryExpr); ok && b.Op == token.ADD && (exprStr(b.X) == exprStr(x.Lhs[0]) || exprStr(b.Y) == exprStr(x.Lhs[0])) {
					add(fn, "string += "+exprStr(x.Lhs[0]))
				}
			}
		case *ast.CallExpr:
			if tv, ok := info.Types[x.Fun]; ok && tv.IsType() && len(x.Args) == 1 {
				from, to := typeOf(x.Args[0]), tv.Type
				_, fromSlice := from.Underlying().(*types.Slice)
				_, toSlice := to.Underlying().(*types.Slice)
				// a slice of a fixed-size array (or a composite literal) has a size bounded by the source text itself: not a site
				bounded := false
				if id, ok := rootOfSlice(x.Args[0]).(*ast.Ident); ok && constSized[info.Uses[id]] {
					bounded = true
				}
				switch a := x.Args[0].(type) {
				case *ast.SliceExpr:
					if at := typeOf(a.X); at != nil {
						t := at.Underlying()
						if pt, ok := t.(*types.Pointer); ok {
							t = pt.Elem().Underlying()
						}
						if _, isArr := t.(*types.Array); isArr {
							bounded = true
						}
					}
				case *ast.CompositeLit:
					bounded = true
				}
				if !bounded && ((isStringType(from) && toSlice) || (fromSlice && isStringType(to))) {
					// named by the ROOT of the operand: `string(runes[0:l])`, `string(runes[:3])` and `string(runes)` are the same site
					add(fn, "copying conversion "+types.TypeString(to, nil)+"("+exprStr(rootOfSlice(x.Args[0]))+")")
				}
				return
			}
			name := exprStr(x.Fun)
			if linearCalls[name] {
				add(fn, "call "+name)
			}
			if follow {
				var fo *types.Func
				switch f := x.Fun.(type) {
				case *ast.Ident:
					fo, _ = info.Uses[f].(*types.Func)
				case *ast.SelectorExpr:
					if sel, ok := info.Selections[f]; ok && sel.Kind() == types.MethodVal {
						fo, _ = sel.Obj().(*types.Func)
					} else {
						fo, _ = info.Uses[f.Sel].(*types.Func)
					}
				}
				if fo != nil {
					k, disp := funcKey(fo)
					_ = disp
					if fd := decls[k]; fd != nil && !visiting[k] && len(visiting) < 4 {
						// the callee's own top level now runs once per iteration of the caller's loop: its sites are
						// attributed to the function whose loop it is (so extracting a helper changes nothing);
						// sites inside the callee's own loops are attributed to the callee by its own scan
						visiting[k] = true
						scanTop(fn, fd.Body)
						delete(visiting, k)
					}
				}
			}
		}
	}
	scan = func(fn string, n ast.Node, depth int, follow bool) {
		ast.Inspect(n, func(m ast.Node) bool {
			switch x := m.(type) {
			case *ast.FuncLit:
				return true
			case *ast.ForStmt:
				if m != n {
					scan(fn, x.Body, depth+1, follow)
					return false
				}
			case *ast.RangeStmt:
				if m != n {
					scan(fn, x.Body, depth+1, follow)
					return false
				}
			}
			if depth > 0 && m != nil {
				site(fn, m, follow)
			}
			return true
		})
	}
	// the top level (outside its own loops) of a function that is called from inside a loop of `fn`
	scanTop = func(fn string, n ast.Node) {
		ast.Inspect(n, func(m ast.Node) bool {
			switch m.(type) {
			case *ast.ForStmt, *ast.RangeStmt:
				return false
			}
			if m != nil {
				site(fn, m, true)
			}
			return true
		})
	}
	p.funcs(func(file string, fd *ast.FuncDecl) {
		scan(funcName(fd), fd.Body, 0, true)
	})
	sort.Strings(res)
	return res
}

// ---- option effects, executed ------------------------------------------------------------------------------
//
// For every public option constructor: build a parser / profile with that option alone (representative argument) and
// report the names of the fields of the executed options whose value differs from the default's. Behavioural, so it
// does not depend on how the constructors are written (closures, a table of appliers, …).
func fieldValue(v reflect.Value) string {
	switch v.Kind() {
	case reflect.Func:
		return leanBool(!v.IsNil())
	case reflect.Ptr:
		if v.IsNil() {
			return "nil"
		}
		if ps, ok := v.Interface().(*url.PercentEncodeSet); ok {
			return setTok(ps)
		}
		return "ptr"
	case reflect.Map:
		if m, ok := v.Interface().(map[string]string); ok {
			return schemesTok(m)
		}
	}
	return fmt.Sprint(v.Interface())
}

func changedFields(def, got interface{}, skip string) []string {
	d, g := reflect.ValueOf(def), reflect.ValueOf(got)
	var res []string
	for i := 0; i < d.NumField(); i++ {
		n := d.Type().Field(i).Name
		if n == skip {
			continue
		}
		if fieldValue(d.Field(i)) != fieldValue(g.Field(i)) {
			res = append(res, n)
		}
	}
	return res
}

func parserOptionEffects() []string {
	def, _ := url.VerifOptions(url.NewParser())
	var res []string
	for i, sp := range optSpecs {
		c := cfgFromMask(NewRand(7), 1<<uint(i))
		res = append(res, fmt.Sprintf("(%s, %s)", leanStr("With"+sp.Name), leanStrList(changedFields(def, c.Opts, ""))))
	}
	return res
}

func canonOptionEffects() []string {
	def, _ := canonicalizer.VerifProfileOf(canonicalizer.New())
	defInner, _ := url.VerifOptions(def.Parser)
	var res []string
	one := func(name string, o url.ParserOption) {
		v, _ := canonicalizer.VerifProfileOf(canonicalizer.New(o))
		ch := changedFields(def, v, "Parser")
		inner, _ := url.VerifOptions(v.Parser)
		for _, f := range changedFields(defInner, inner, "") {
			ch = append(ch, "Parser."+f)
		}
		res = append(res, fmt.Sprintf("(%s, %s)", leanStr(name), leanStrList(ch)))
	}
	one("WithRemoveUserInfo", canonicalizer.WithRemoveUserInfo())
	one("WithRemovePort", canonicalizer.WithRemovePort())
	one("WithRemoveFragment", canonicalizer.WithRemoveFragment())
	one("WithRepeatedPercentDecoding", canonicalizer.WithRepeatedPercentDecoding())
	one("WithDefaultScheme", canonicalizer.WithDefaultScheme("https"))
	one("WithSortQuery(SortKeys)", canonicalizer.WithSortQuery(canonicalizer.SortKeys))
	one("WithSortQuery(SortParameter)", canonicalizer.WithSortQuery(canonicalizer.SortParameter))
	return res
}

// ---- tables (executed) ------------------------------------------------------------------------------------------------

func rangesOf(f func(rune) bool) string {
	var parts []string
	start := rune(-1)
	for c := rune(0); c <= 0x110000; c++ {
		in := c < 0x110000 && !(c >= 0xd800 && c <= 0xdfff) && f(c)
		if c >= 0xd800 && c <= 0xdfff && start >= 0 {
			// surrogates are not code points of a scalar value string: bridge them
			continue
		}
		if in && start < 0 {
			start = c
		}
		if !in && start >= 0 {
			end := c - 1
			if end >= 0xd800 && end <= 0xdfff {
				end = 0xd7ff
			}
			parts = append(parts, fmt.Sprintf("(0x%x, 0x%x)", start, end))
			start = -1
		}
	}
	return "[" + strings.Join(parts, ", ") + "]"
}

func factsCommand(args []string) bool {
	out := "/verif/lean/WhatwgUrl/Generated/Facts.lean"
	if len(args) > 0 {
		out = args[0]
	}
	urlPkg := parseDir("/repo/url")
	canonPkg := parseDir("/repo/canonicalizer")
	var sb strings.Builder
	sb.WriteString("/- GENERATED from /repo's working tree by `vharness facts` on every run. Do not edit. -/\nnamespace WhatwgUrl.Generated\n\n")
	w := func(name, typ, val string) {
		sb.WriteString(fmt.Sprintf("def %s : %s := %s\n\n", name, typ, val))
	}
	w("errorSites", "List (String × String × Bool × Bool)", leanList(errorSites(urlPkg)))
	w("errorCatalogue", "List String", leanStrList(errorCatalogue("/repo/errors")))
	var sk []string
	for _, c := range skeleton(urlPkg) {
		sk = append(sk, fmt.Sprintf("(%s, %s, %s)", leanStrList(c.labels), leanStrList(c.targets), leanStrList(c.cursor)))
	}
	w("skeleton", "List (List String × List String × List String)", leanList(sk))
	w("baseCopies", "List (String × List String)", leanList(baseCopies(urlPkg)))
	w("parserOptionWrites", "List (String × List String)", leanList(optionWrites(urlPkg, map[string]bool{"o": true})))
	w("canonOptionWrites", "List (String × List String)", leanList(optionWrites(canonPkg, map[string]bool{"p": true})))
	w("parserOptionEffects", "List (String × List String)", leanList(parserOptionEffects()))
	w("canonOptionEffects", "List (String × List String)", leanList(canonOptionEffects()))
	w("profileOptions", "List (String × List String)", leanList(profileOptions(canonPkg)))
	w("globalWritesUrl", "List (String × String × String)", leanList(globalWrites(urlPkg)))
	w("globalWritesCanon", "List (String × String × String)", leanList(globalWrites(canonPkg)))
	w("fieldWritesUrl", "List (String × String)", leanList(fieldWrites(urlPkg)))
	w("fieldWritesCanon", "List (String × String)", leanList(fieldWrites(canonPkg)))
	w("baseUrlUses", "List String", leanStrList(baseUrlUses(urlPkg)))
	w("spMethods", "List (String × Bool × Bool)", leanList(spMethods(urlPkg)))
	w("callees", "List (String × List String)", leanList(calleesOf(urlPkg, map[string]bool{"Url.Clone": true, "Url.SetSearch": true, "Url.SearchParams": true, "Url.newUrlSearchParams": true, "SearchParams.Clone": true, "parser.Parse": true, "parser.ParseRef": true, "Url.Parse": true, "Parse": true, "ParseRef": true, "path.clone": true, "SearchParams.Sort": true, "SearchParams.SortAbsolute": true})))
	w("exoticFeatures", "List String", leanStrList(exoticFeatures(urlPkg, canonPkg)))
	mu, mc, _, uinfo, cinfo := modrefTyped()
	w("modrefUrl", "List (String × Bool × List String × List String × List String × List (String × String))", leanList(mu))
	w("modrefCanon", "List (String × Bool × List String × List String × List String × List (String × String))", leanList(mc))
	w("costSitesUrl", "List (String × String)", leanList(costSitesTyped(typedUrl, uinfo)))
	w("costSitesCanon", "List (String × String)", leanList(costSitesTyped(typedCanon, cinfo)))
	// executed tables: membership over all scalar values as ranges
	type ns struct {
		n string
		s *url.PercentEncodeSet
	}
	for _, s := range []ns{{"c0", url.C0PercentEncodeSet}, {"c0sp", url.C0OrSpacePercentEncodeSet}, {"fragment", url.FragmentPercentEncodeSet}, {"query", url.QueryPercentEncodeSet},
		{"specialQuery", url.SpecialQueryPercentEncodeSet}, {"path", url.PathPercentEncodeSet}, {"userinfo", url.UserInfoPercentEncodeSet}, {"host", url.HostPercentEncodeSet},
		{"laxPath", canonicalizer.LaxPathPercentEncodeSet}, {"laxQuery", canonicalizer.LaxQueryPercentEncodeSet}, {"repeatedQuery", canonicalizer.RepeatedQueryPercentDecodeSet}} {
		set := s.s
		w("set_"+s.n, "List (Nat × Nat)", rangesOf(func(c rune) bool { return set.RuneShouldBeEncoded(c) }))
	}
	bs := url.VerifBitsets()
	var bn []string
	for k := range bs {
		bn = append(bn, k)
	}
	sort.Strings(bn)
	for _, k := range bn {
		b := bs[k]
		w("bitset_"+k, "List (Nat × Nat)", rangesOf(func(c rune) bool { return b.Test(uint(c)) }))
	}
	w("urlCodePoints", "List (Nat × Nat)", rangesOf(url.VerifIsURLCodePoint))
	var sch []string
	m := url.VerifDefaultSpecialSchemes()
	var keys []string
	for k := range m {
		keys = append(keys, k)
	}
	sort.Strings(keys)
	for _, k := range keys {
		sch = append(sch, fmt.Sprintf("(%s, %s)", leanStr(k), leanStr(m[k])))
	}
	w("defaultSpecialSchemes", "List (String × String)", "["+strings.Join(sch, ", ")+"]")
	// the options of the predefined profiles as executed
	for _, p := range predefinedProfiles {
		w("profile_"+p.Name, "String", leanStr(p.Tok))
	}
	w("defaultCfgTok", "String", leanStr(defaultCfg.Tok))
	sb.WriteString("end WhatwgUrl.Generated\n")
	os.MkdirAll(filepath.Dir(out), 0o755)
	os.WriteFile(out, []byte(sb.String()), 0o644)
	return true
}
