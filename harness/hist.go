package main

// Hist executes a history (parse / resolve / setters / SearchParams / clone / canonicalize) on the real
// code, in-process, and records (a) the tokens of the history for the Lean driver and (b) the observation
// after every operation, in the format Driver.Main prints.

import (
	"fmt"
	"os"
	"strings"

	"github.com/nlnwa/whatwg-url/canonicalizer"
	"github.com/nlnwa/whatwg-url/url"
)

type Hist struct {
	ops  []string // one string of tokens per op
	out  []string // one observation per op
	urls []*url.Url
	sps  []*url.SearchParams
	last []string
	// bookkeeping for the oracles
	cfgs   []*Cfg // the configuration each url handle was created under (nil for profiles' results: Inner is used)
	panics int
	// per-state oracles to evaluate on every url handle whose observation changed (default configuration only)
	Check map[string]bool
}

var setterNames = []string{"protocol", "username", "password", "host", "hostname", "port", "pathname", "search", "hash"}

func applySetter(u *url.Url, k int, v string) {
	switch k {
	case 0:
		u.SetProtocol(v)
	case 1:
		u.SetUsername(v)
	case 2:
		u.SetPassword(v)
	case 3:
		u.SetHost(v)
	case 4:
		u.SetHostname(v)
	case 5:
		u.SetPort(v)
	case 6:
		u.SetPathname(v)
	case 7:
		u.SetSearch(v)
	default:
		u.SetHash(v)
	}
}

// run executes f under recover; a panic becomes the result token PANIC
// when VERIF_TRACE names a file, the history executed so far is written there before every operation, so that a crash
// the runtime cannot recover from (stack overflow, fatal error) or a hang still leaves the failing history behind
var traceFile = os.Getenv("VERIF_TRACE")

func (h *Hist) run(toks string, f func() string) string {
	if traceFile != "" {
		os.WriteFile(traceFile, []byte(strings.Join(append(append([]string{}, h.ops...), toks), " ; ")), 0o644)
	}
	res := func() (r string) {
		defer func() {
			if p := recover(); p != nil {
				h.panics++
				r = "PANIC"
				lastPanic = fmt.Sprint(p)
			}
		}()
		return f()
	}()
	h.ops = append(h.ops, toks)
	// distribution of what the stream exercises (goes into the evidence): operation kinds, result kinds, error types, sizes
	opKind := toks
	if i := strings.IndexByte(toks, ' '); i >= 0 {
		opKind = toks[:i]
	}
	dist["op:"+opKind]++
	switch {
	case strings.HasPrefix(res, "ok"):
		dist["result:ok"]++
	case strings.HasPrefix(res, "E"):
		dist["result:error"]++
		et := res
		if i := strings.IndexByte(res, ','); i >= 0 {
			et = res[:i]
		}
		dist["errtype:"+et]++
	case res == "PANIC":
		dist["result:panic"]++
	default:
		dist["result:other"]++
	}
	payload := toks
	if i := strings.LastIndexByte(toks, ' '); i >= 0 {
		payload = toks[i+1:] // the input / value token (x<hex>: two characters per byte)
	}
	switch n := len(payload) / 2; {
	case n < 40:
		dist["size:<40"]++
	case n < 200:
		dist["size:40-199"]++
	case n < 2000:
		dist["size:200-1999"]++
	default:
		dist["size:>=2000"]++
	}
	parts := []string{res}
	for k, u := range h.urls {
		o := func() (s string) {
			defer func() {
				if p := recover(); p != nil {
					h.panics++
					s = "OBSPANIC"
					lastPanic = fmt.Sprint(p)
				}
			}()
			return obsUrl(u, h.urls)
		}()
		if k >= len(h.last) {
			h.last = append(h.last, "")
		}
		if h.last[k] != o {
			parts = append(parts, fmt.Sprintf("h%d=%s", k, o))
			h.last[k] = o
			if h.Check != nil && h.cfgs[k] == defaultCfg && o != "OBSPANIC" {
				checkState(u, h.Check, strings.Join(h.ops, " ; "))
			}
		}
	}
	h.out = append(h.out, strings.Join(parts, " "))
	progress++
	return res
}

var dist = map[string]int{}
var lastPanic string
var progress uint64

func (h *Hist) push(u *url.Url, err error, c *Cfg) string {
	if err != nil {
		return errTok(err)
	}
	if u == nil {
		return "NILNIL"
	}
	h.urls = append(h.urls, u)
	h.cfgs = append(h.cfgs, c)
	return fmt.Sprintf("ok%d", len(h.urls)-1)
}

// Parse: parser.Parse(input). Returns the handle or -1.
func (h *Hist) Parse(c *Cfg, input string) int {
	r := h.run("P "+c.Tok+" "+xs(input), func() string {
		u, err := c.Parser.Parse(input)
		return h.push(u, err, c)
	})
	return okHandle(r)
}

// ParsePkg: package level url.Parse (the default parser)
func (h *Hist) ParsePkg(input string) int {
	r := h.run("P "+defaultCfg.Tok+" "+xs(input), func() string {
		u, err := url.Parse(input)
		return h.push(u, err, defaultCfg)
	})
	return okHandle(r)
}

func (h *Hist) ParseRef(c *Cfg, base, ref string) int {
	r := h.run("PR "+c.Tok+" "+xs(base)+" "+xs(ref), func() string {
		u, err := c.Parser.ParseRef(base, ref)
		return h.push(u, err, c)
	})
	return okHandle(r)
}

func (h *Hist) ParseRefPkg(base, ref string) int {
	r := h.run("PR "+defaultCfg.Tok+" "+xs(base)+" "+xs(ref), func() string {
		u, err := url.ParseRef(base, ref)
		return h.push(u, err, defaultCfg)
	})
	return okHandle(r)
}

func (h *Hist) Resolve(k int, ref string) int {
	r := h.run(fmt.Sprintf("R %d %s", k, xs(ref)), func() string {
		u, err := h.urls[k].Parse(ref)
		return h.push(u, err, h.cfgs[k])
	})
	return okHandle(r)
}

func (h *Hist) Clone(k int) int {
	r := h.run(fmt.Sprintf("C %d", k), func() string {
		return h.push(h.urls[k].Clone(), nil, h.cfgs[k])
	})
	return okHandle(r)
}

func (h *Hist) Set(k int, setter int, v string) {
	h.run(fmt.Sprintf("S %d %d %s", setter, k, xs(v)), func() string {
		applySetter(h.urls[k], setter, v)
		return "-"
	})
}

// Grab: u.SearchParams() ; returns the SearchParams handle
func (h *Hist) Grab(k int) int {
	r := h.run(fmt.Sprintf("G %d", k), func() string {
		sp := h.urls[k].SearchParams()
		h.sps = append(h.sps, sp)
		return fmt.Sprintf("s%d", len(h.sps)-1)
	})
	if strings.HasPrefix(r, "s") {
		return len(h.sps) - 1
	}
	return -1
}

func (h *Hist) QAppend(s int, n, v string) {
	h.run(fmt.Sprintf("QA %d %s %s", s, xs(n), xs(v)), func() string { h.sps[s].Append(n, v); return "-" })
}
func (h *Hist) QDelete(s int, n string) {
	h.run(fmt.Sprintf("QD %d %s", s, xs(n)), func() string { h.sps[s].Delete(n); return "-" })
}
func (h *Hist) QSet(s int, n, v string) {
	h.run(fmt.Sprintf("QS %d %s %s", s, xs(n), xs(v)), func() string { h.sps[s].Set(n, v); return "-" })
}
func (h *Hist) QSort(s int) {
	h.run(fmt.Sprintf("QO %d", s), func() string { h.sps[s].Sort(); return "-" })
}
func (h *Hist) QSortAbs(s int) {
	h.run(fmt.Sprintf("QB %d", s), func() string { h.sps[s].SortAbsolute(); return "-" })
}
func (h *Hist) QIter(s int, fn int) {
	h.run(fmt.Sprintf("QI %d %d", s, fn), func() string {
		h.sps[s].Iterate(func(p *url.NameValuePair) {
			switch fn {
			case 1:
				p.Name = canonicalizer.VerifDecodeEncode(p.Name, canonicalizer.RepeatedQueryPercentDecodeSet)
				p.Value = canonicalizer.VerifDecodeEncode(p.Value, canonicalizer.RepeatedQueryPercentDecodeSet)
			case 2:
				p.Value = p.Value + "x"
			}
		})
		return "-"
	})
}
func (h *Hist) QGet(s int, n string) string {
	return h.run(fmt.Sprintf("QG %d %s", s, xs(n)), func() string { return xs(h.sps[s].Get(n)) })
}
func (h *Hist) QGetAll(s int, n string) string {
	return h.run(fmt.Sprintf("QL %d %s", s, xs(n)), func() string {
		l := h.sps[s].GetAll(n)
		p := make([]string, len(l))
		for i, v := range l {
			p[i] = hx(v)
		}
		return "l" + strings.Join(p, ",")
	})
}
func (h *Hist) QHas(s int, n string) string {
	return h.run(fmt.Sprintf("QH %d %s", s, xs(n)), func() string { return b01(h.sps[s].Has(n)) })
}
func (h *Hist) QString(s int) string {
	return h.run(fmt.Sprintf("QT %d", s), func() string { return xs(h.sps[s].String()) })
}
func (h *Hist) SetSearchParams(k, s int) {
	h.run(fmt.Sprintf("SSP %d %d", k, s), func() string { h.urls[k].SetSearchParams(h.sps[s]); return "-" })
}

func (h *Hist) CanonParse(p *Prof, input string) int {
	r := h.run("CP "+p.Tok+" "+xs(input), func() string {
		u, err := p.Parser.Parse(input)
		return h.push(u, err, p.Inner)
	})
	return okHandle(r)
}
func (h *Hist) CanonParseRef(p *Prof, base, ref string) int {
	r := h.run("CR "+p.Tok+" "+xs(base)+" "+xs(ref), func() string {
		u, err := p.Parser.ParseRef(base, ref)
		return h.push(u, err, p.Inner)
	})
	return okHandle(r)
}
func (h *Hist) Canonicalize(p *Prof, k int) {
	h.run(fmt.Sprintf("CC %s %d", p.Tok, k), func() string {
		_, _ = canonicalizer.VerifCanonicalize(p.Parser, h.urls[k])
		return "-"
	})
}
func (h *Hist) NewUrl(c *Cfg) int {
	r := h.run("NU "+c.Tok, func() string { return h.push(c.Parser.NewUrl(), nil, c) })
	return okHandle(r)
}

func okHandle(r string) int {
	if strings.HasPrefix(r, "ok") {
		var k int
		fmt.Sscanf(r, "ok%d", &k)
		return k
	}
	return -1
}

// Line returns the case line for the driver and the expected observation line
func (h *Hist) Line(id string) (string, string) {
	return id + " H - " + strings.Join(h.ops, " ; "), id + "\t" + strings.Join(h.out, "\t")
}
