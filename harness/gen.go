package main

// Generators. Every random choice derives from one splitmix64 state (VERIF_SEED), so a case is
// reproducible from (seed, index); the case itself is stored in full in the case file anyway.

import (
	"fmt"
	"github.com/nlnwa/whatwg-url/url"
	"strings"
)

type Rand struct{ s uint64 }

func NewRand(seed uint64) *Rand { return &Rand{s: seed*0x9E3779B97F4A7C15 + 0x1234567} }
func (r *Rand) U64() uint64 {
	r.s += 0x9E3779B97F4A7C15
	z := r.s
	z = (z ^ (z >> 30)) * 0xBF58476D1CE4E5B9
	z = (z ^ (z >> 27)) * 0x94D049BB133111EB
	return z ^ (z >> 31)
}
func (r *Rand) N(n int) int {
	if n <= 0 {
		return 0
	}
	return int(r.U64() % uint64(n))
}
func (r *Rand) P(percent int) bool      { return r.N(100) < percent }
func (r *Rand) Pick(xs []string) string { return xs[r.N(len(xs))] }
func (r *Rand) Fork() *Rand             { return &Rand{s: r.U64()} }

// ---- pools ---------------------------------------------------------------------------------------

var specialSchemes = []string{"http", "https", "ws", "wss", "ftp"}
var schemePool = []string{"http", "https", "ws", "wss", "ftp", "file", "http", "https", "file", "sc", "a+b", "x-y.z", "HTTP", "hTtPs", "FILE", "File",
	"gopher", "foo", "mailto", "data", "javascript", "h2", "WS"}
var badSchemePool = []string{"", "1x", "h ttp", "ht\ttp", "+a", "http\n", "é", "a_b", "-", "."}

var asciiLabels = []string{"example", "EXAMPLE", "a", "b", "com", "org", "h", "www", "a-b", "-a", "a-", "a_b", "localhost", "LocalHost", "LOCALHOST",
	"xn--nxasmq6b", "XN--NXASMQ6B", "xn--a", "xn--", "xn--ab-miv", "axn--b", "x", "xn", "xn-", "0", "1", "255", "0x10", "1e3", "a1", "1a", "0xg", "09", "08", "00"}
var nonAsciiLabels = []string{"ä", "Ä", "日本語", "a≠b", "a≮b", "≯", "ß", "ǅ", "a\u00adb", "a\u200db", "a\u200cb", "א", "א1", "1א", "１２３", "ａ", "Ａ",
	"\u212a", "\u0130", "faß", "ﬁ", "é", "e\u0301", "\ufffd", "a\ufffdb", "☃", "\U0001F600", "١", "a\u0301", "\u0301a", "ｘｎ－－a", "a。b", "．", "ª", "²",
	// the three characters the ASCII-or-misc fallback lets through, next to forbidden domain code points (the fallback must not
	// bypass the forbidden-code-point scan) and next to ordinary text
	"a≠<b", "x≯^y", "≮|", "a≠ b", "≠>", "a≠b<", "<≠", "a≠{b}", "a≠\"b", "≯`", "a≠\x7fb", "a≠b.c", "A≠B",
	// the first and last code point of every UTF-8 length class (U+0080 is where "ASCII" ends: a `>` for a `>=` shows only there),
	// alone, inside ordinary text and next to the let-through characters
	"\u0080", "a\u0080b", "\u0081", "\u00ff", "\u0100", "\u07ff", "\u0800", "\ud7ff", "\ue000", "\uffff", "\U00010000", "\U0010ffff", "a≠\u0080", "\u0080≮", "A\u0080"}
var weirdHosts = []string{"[1:0:0:2:0:0:3:4]", "[0:0:1:0:0:1:0:0]", "[a:0:0:0:b:0:0:0]", "[1:0:0:2:0:0:0:4]", "[::10]", "[1:2:3:4:5:6:7:100]", "[1000::1]", "[::1.0.0.16]", "[10:100:1000:f:ff:fff:1:0]", "0x000000001", "00000017700000001", "1.2.3.0x000000004", "", ".", "..", "...", "a.", "a..", ".a", "a..b", "%41", "%2e", "%2E%2e", "ex%61mple", "a%00b", "a b", "a<b", "a>b", "a|b", "a^b", "a\\b",
	"a%b", "a%2", "%zz", "a%25b", "a%2525b", "%C3%A4", "%c3%a4", "%E4", "%ff", "%80", "a%C3", "%EF%BF%BD", "a\x00b", "a\x7fb", "a\x1fb", "a%7fb", "a%20b", "a%23b",
	"a%2Fb", "a%3Ab", "a%40b", "a%5Bb", "[", "]", "[]", "a[b]", "C:", "C|", "c:", "a:b", "a@b", "\xff", "a\xffb", "\xff\xfe", "a\xff\xfeb", "\xc3", "\xc3\n\xa4",
	"a\tb", "a\nb", "%41%42", "1.2.3.4.", "1.2.3.4..", "a.1", "1.a", "0x.0x", "1..2", ".1", "1.", "%31", "%30x10", "１.２.３.４", "1。2。3。4", "0.0.0.0", "example.com:", "!\"$&'()*+,-.;=_`{}~",
	// four labels that strconv.Atoi would read as 0..255 but that are not IPv4 numbers (signs), next to ones that are
	"1.2.3.-0", "1.2.3.+4", "-0.-0.-0.-0", "+1.+2.+3.+4", "010.0.0.-0", "1.2.3.-1", "1.2.3.-00", "1.+2.3.4", "-1.2.3.4", "1.2.3.+0", "1.2.3.04", "1.2.3.4e0", "1.2.3.0_1"}

var ipv4Nums = []string{"0", "1", "7", "8", "9", "10", "127", "255", "256", "257", "65535", "65536", "16777215", "16777216", "4294967295", "4294967296", "4294967297",
	"9223372036854775807", "9223372036854775808", "18446744073709551615", "18446744073709551616", "99999999999999999999", "340282366920938463463374607431768211456",
	"0x0", "0x1", "0xff", "0xFF", "0x100", "0xffff", "0x10000", "0xffffff", "0x1000000", "0xffffffff", "0x100000000", "0x7fffffffffffffff", "0x8000000000000000", "0xffffffffffffffffff",
	"0X1", "0XfF", "0x", "0X", "0xg", "0x1g", "0xG", "00", "01", "07", "08", "09", "010", "0377", "0400", "0177777", "037777777777", "040000000000", "0777777777777777777777", "01000000000000000000000", "0777777777777777777777777",
	"99999999999999999999z", "0x99999999999999999999z", "18446744073709551616x", "0xffffffffffffffffffg", "07777777777777777777777778", "0777777777777777777777779", "18446744073709551615.", "9223372036854775808a",
	"+1", "-1", "+0", "-0", "1e3", "1_0", " 1", "1 ", "", "0x+f", "0x-1", "0+1", "a", "f", "x", "0a", "1x", "0b1", "0o7", "１", "٣",
	// zero-padded numbers: MORE digits than the largest 32-bit number has in that radix, with a value that still fits
	// (a range test by length instead of value, wave 10's S97), next to padded ones that really overflow
	"0x000000001", "0x00007f000001", "0x00000ffff", "0x0000000000000000000000000000000001", "0x000000000", "0x0000000ffffffff", "0x0000000100000000",
	"00000017700000001", "000000000000377", "0000000000000000000000000000000007", "000000000000", "00000037777777777", "00000040000000000", "0000000000"}

var portPool = []string{"", "80", "443", "21", "0", "00", "00080", "8080", "65535", "65536", "65537", "99999", "4294967377", "99999999999999999999", "8a", "a8", "-1", "+1", " 80", "80 ", "8 0", "８０", "1", "70", "080"}

var segPool = []string{"a", "b", "c", "foo", "bar", ".", "..", "...", "%2e", "%2E", "%2e%2e", "%2E%2E", ".%2e", "%2e.", ".%2E", "%2E.", "%2e%2E", "%252e", "%252e%252e", "%25252e", "", "", "C:", "C|", "c|", "c:", "C|x", "CC|", "1|",
	"a b", "a%20b", "%", "%1", "%zz", "%41", "%4", "a%", "%%", "%25", "%2525", "é", "\xff", "\ufffd", "a\\b", "\\", "a;b", "a=b", "a:b", "a@b", "a|b", "a^b", "a`b", "a{b}", "a\"b", "a<b>", "a'b", "~", "!", "$&'()*+,", "[x]",
	"\x00", "\x1f", "\x7f", "\u00a0", "\u2028", "\ufdd0", "\ufffe", "\U0001fffe", "\U0010ffff", "a\tb", "a\nb", " ", "  ",
	"\u0080", "\u07ff", "\u0800", "\uffff", "\U00010000", "\x7e\x7f\u0080"}

var queryPool = []string{"", "a", "a=b", "a=1&b=2", "a=1&a=2&b", "x=1&x=2&X=3", "&", "&&", "a&", "&a", "=", "=a", "a=", "a==b", "a=b=c", "+", "a+b=c+d", "%20", "%2B", "a=1%2B1", "%26", "a=%26b", "%3D", "a%3Db=c", "%", "%1", "%zz", "%41=%42",
	"'", "a'b", "\"", "<>", "`", "{}", "|", "^", "#", "?", "??", "a?b", "é=ü", "%C3%A9", "%E9", "\xff", "\ufffd", "a b", " ", "b=2&a=1&c=3&a=0", "z&y&x", "a=2&a=1", "ab=&a=b", "a&a=", "%41=1&A=2", "a\tb", "\x00", "\x7f", "~!$()*,;:@/", "\u0080", "\u07ff\u0800", "\uffff\U00010000"}

var fragPool = []string{"#x", "##x", "%23%23x", "#%23", "%2523%2523s", "#", "", "f", "frag", "a b", "a%20b", "%", "%1", "%zz", "%41", "é", "\xff", "\ufffd", "\"", "<", ">", "`", "'", "{}", "|", "^", "#", "##", "a#b", "?", "\x00", "\x1f", "\x7f", " ", "  ", "a\tb", "\u00a0", "~!$&()*+,;=:@/?", "\u0080", "\u07ff\u0800", "\uffff\U00010000"}

var userPool = []string{"", "u", "user", "User", "u%41", "u:", ":p", "u p", "u@", "@", "u/", "u?", "u#", "é", "\xff", "%", "%zz", "a:b:c", "u;v", "u=v", "u|v", "[u]", "u\\v", "u^v", "u'v", "u\"v", "u<v>", "\x00", "~!$&()*+,"}

var wsPool = []string{" ", "\t", "\n", "\r", "\x00", "\x1f", "\x0c", "  ", " \t\n", "\x20\x00\x20"}

// ---- grammar -------------------------------------------------------------------------------------

func genIPv4(r *Rand) string {
	n := 1 + r.N(4)
	if r.P(15) {
		n = 5 + r.N(6)
	}
	parts := make([]string, n)
	for i := range parts {
		if r.P(55) {
			parts[i] = fmt.Sprint(r.N(300))
		} else {
			parts[i] = r.Pick(ipv4Nums)
		}
	}
	s := strings.Join(parts, ".")
	switch r.N(12) {
	case 0:
		s += "."
	case 1:
		s += ".."
	case 2:
		s = "." + s
	case 3:
		s = r.Pick(asciiLabels) + "." + s
	case 4:
		s = strings.Repeat(r.Pick(asciiLabels)+".", 2+r.N(6)) + s
	}
	return s
}

func genHexPiece(r *Rand) string {
	switch r.N(10) {
	case 0:
		return "0"
	case 1:
		return "0000"
	case 2:
		return "ffff"
	case 3:
		return "FFFF"
	case 4:
		// a digit-count boundary of the serializer (0x10, 0x100, 0x1000 and their neighbours), or five digits
		return []string{"00001", "10", "100", "1000", "f", "ff", "fff", "11", "101", "1001", "0010", "0100"}[r.N(12)]
	case 5:
		return fmt.Sprintf("%05x", r.N(0x100000))
	case 6:
		return "g"
	default:
		return fmt.Sprintf("%x", r.N(0x10000)>>uint(4*r.N(4)))
	}
}

func genIPv6Text(r *Rand) string {
	n := r.N(10)
	pieces := make([]string, n)
	for i := range pieces {
		if r.P(40) {
			pieces[i] = "0"
		} else {
			pieces[i] = genHexPiece(r)
		}
	}
	s := strings.Join(pieces, ":")
	if r.P(60) && n > 0 {
		// put "::" somewhere
		k := r.N(n + 1)
		s = strings.Join(pieces[:k], ":") + "::" + strings.Join(pieces[k:], ":")
	}
	if r.P(25) {
		// ipv4 tail
		tail := []string{"1.2.3.4", "255.255.255.255", "0.0.0.0", "1.2.3", "1.2.3.4.5", "256.1.1.1", "01.2.3.4", "1.2.3.04", "1..2.3", "1.2.3.4.", ".1.2.3", "1.2.3.a", "0x1.2.3.4", "192.168.0.1", "00.0.0.0", "1.2.3.4:5"}
		t := tail[r.N(len(tail))]
		if s == "" || strings.HasSuffix(s, ":") {
			s += t
		} else {
			s += ":" + t
		}
	}
	switch r.N(20) {
	case 0:
		s = ":" + s
	case 1:
		s += ":"
	case 2:
		s = strings.ToUpper(s)
	case 3:
		s += "%25eth0"
	case 4:
		s = " " + s
	}
	return s
}

func genIPv6Host(r *Rand) string {
	t := genIPv6Text(r)
	switch r.N(16) {
	case 0:
		return "[[" + t + "]]"
	case 1:
		return "[" + t
	case 2:
		return t + "]"
	case 3:
		return "[" + t + "]]"
	case 4:
		return "[[" + t + "]"
	case 5:
		return "[" + t + "]x"
	default:
		return "[" + t + "]"
	}
}

// scale: mostly 1, occasionally a larger multiplier, so that structures sometimes grow beyond the sizes at which
// implementations switch algorithms (small-slice fast paths, fixed split bounds, capacity doubling)
func scale(r *Rand) int {
	if r.P(94) {
		return 1
	}
	return 3 + r.N(14)
}

func genQuery(r *Rand) string {
	if r.P(70) {
		return r.Pick(queryPool)
	}
	np := (1 + r.N(4)) * scale(r)
	parts := make([]string, np)
	for j := range parts {
		parts[j] = r.Pick([]string{"a", "b", "c", "A", "", "a b", "%61", "é", "x"})
		if r.P(80) {
			parts[j] += "=" + r.Pick([]string{"", "1", "2", "x y", "%20", "+", fmt.Sprint(j)})
		}
	}
	return strings.Join(parts, "&")
}

func genDomain(r *Rand) string {
	n := (1 + r.N(3)) * scale(r)
	ls := make([]string, n)
	for i := range ls {
		if r.P(25) {
			ls[i] = r.Pick(nonAsciiLabels)
		} else {
			ls[i] = r.Pick(asciiLabels)
		}
	}
	s := strings.Join(ls, ".")
	if r.P(8) {
		s += "."
	}
	return s
}

// pctSome percent-encodes a random subset of the code points of s (whole code points, both hex cases)
func pctSome(r *Rand, s string, percent int) string {
	var sb strings.Builder
	for _, c := range s {
		if r.P(percent) {
			for _, b := range []byte(string(c)) {
				if r.P(50) {
					sb.WriteString(fmt.Sprintf("%%%02X", b))
				} else {
					sb.WriteString(fmt.Sprintf("%%%02x", b))
				}
			}
		} else {
			sb.WriteRune(c)
		}
	}
	return sb.String()
}

func genHost(r *Rand) string {
	var h string
	switch r.N(20) {
	case 0, 1, 2, 3, 4, 5, 6:
		h = genDomain(r)
	case 7, 8, 9, 10:
		h = genIPv4(r)
	case 11, 12, 13:
		h = genIPv6Host(r)
	case 14, 15, 16:
		h = r.Pick(weirdHosts)
	case 17:
		h = pctSome(r, genDomain(r), 30)
	case 18:
		h = pctSome(r, genIPv4(r), 30)
	default:
		h = r.Pick(asciiLabels)
	}
	return h
}

func genPath(r *Rand) string {
	n := r.N(5) * scale(r)
	var sb strings.Builder
	for i := 0; i < n; i++ {
		sep := "/"
		if r.P(8) {
			sep = "\\"
		}
		if r.P(6) {
			sep += "/"
		}
		sb.WriteString(sep)
		sb.WriteString(r.Pick(segPool))
	}
	if r.P(20) {
		sb.WriteString("/")
	}
	return sb.String()
}

var slashPool = []string{"//", "//", "//", "//", "//", "/", "", "///", "\\\\", "\\/", "/\\", "////", "/\\\\"}

// genURL: a mostly valid absolute URL string (or something close to one)
func genURL(r *Rand) string {
	var sb strings.Builder
	scheme := r.Pick(schemePool)
	if r.P(3) {
		scheme = r.Pick(badSchemePool)
	}
	sb.WriteString(scheme)
	if !r.P(2) {
		sb.WriteString(":")
	}
	slashes := r.Pick(slashPool)
	sb.WriteString(slashes)
	if slashes != "" || r.P(30) {
		if r.P(25) {
			sb.WriteString(r.Pick(userPool))
			if r.P(50) {
				sb.WriteString(":" + r.Pick(userPool))
			}
			sb.WriteString("@")
			if r.P(10) {
				sb.WriteString(strings.Repeat(r.Pick(userPool)+"@", scale(r)))
			}
		}
		sb.WriteString(genHost(r))
		if r.P(30) {
			sb.WriteString(":" + r.Pick(portPool))
		}
	} else {
		// opaque path / path only
		sb.WriteString(r.Pick(segPool))
	}
	sb.WriteString(genPath(r))
	if r.P(35) {
		sb.WriteString("?" + genQuery(r))
	}
	if r.P(30) {
		sb.WriteString("#" + r.Pick(fragPool))
	}
	return decorate(r, sb.String())
}

// decorate: whitespace padding, embedded tab/newline, rare byte level damage
func decorate(r *Rand, s string) string {
	if r.P(10) {
		s = r.Pick(wsPool) + s
	}
	if r.P(10) {
		s = s + r.Pick(wsPool)
	}
	if r.P(8) && len(s) > 0 {
		k := r.N(len(s) + 1)
		s = s[:k] + r.Pick([]string{"\t", "\n", "\r", "\r\n"}) + s[k:]
	}
	if r.P(3) && len(s) > 0 {
		k := r.N(len(s))
		b := []byte(s)
		b[k] = byte(r.N(256))
		s = string(b)
	}
	return s
}

var relPool = []string{"", "#", "#f", "#a b", "?", "?q", "?a=b#f", "/", "/abs", "/abs/x?y#z", "//", "//h", "//auth/p", "//u:p@h:8/x", "///x", "rel", "rel/x", "../x", "../../x", "./", "./x", ".", "..", "../", "x/../y", "x/./y",
	"%2e%2e/x", "%2E/x", "x/../../../y", "C|/x", "C:/x", "C|", "C:", "/C|/x", "/C:/x", "//C|/x", "C|\\x", "c|/", "/c:", "\\", "\\x", "\\\\h\\p", "/\\h", "\\/h", "x\\y", ";p", "x;p?q",
	" ", " #f ", "\t/x", "a b", "é", "\xff", "%", ":", ":x", "x:", "1:", "a:b", "http:", "http:x", "http:/x", "http://", "http://h2/", "https:x", "file:", "file:x", "file:/x", "file://h/x", "file:///C|/", "file:C|/x", "ftp:x", "ws:x", "sc:x", "sc://h/x", "sc:/x",
	"HTTP:x", "mailto:a@b", "?#", "#?", "/?#", "/..", "/../", "/.", "/./", "/%2e%2e", "a/..", "a/.", "..#f", "..?q", "/a/b/../..", "////h", "/.//x", "..//x", "//@", "//:", "//:80", "//h:", "//h:99999", "//[::1]", "//[::1", "//1.2.3", "//0x7f.1"}

func genRef(r *Rand, baseScheme string) string {
	switch r.N(10) {
	case 0, 1, 2, 3, 4, 5:
		s := r.Pick(relPool)
		if r.P(10) && baseScheme != "" {
			s = baseScheme + ":" + strings.TrimLeft(s, ":")
		}
		return s
	case 6:
		return genPath(r) + func() string {
			if r.P(40) {
				return "?" + r.Pick(queryPool)
			}
			return ""
		}() + func() string {
			if r.P(30) {
				return "#" + r.Pick(fragPool)
			}
			return ""
		}()
	case 7:
		return decorate(r, r.Pick(relPool))
	default:
		return genURL(r)
	}
}

// basePool: bases of every kind the relative states distinguish
var basePool = []string{"http://example.org/foo/bar", "http://u:p@h:8080/a/b/c?q=1#f", "https://h/", "https://h", "http://h/a/b/../c/./d?x#y", "ws://h:81/p", "ftp://h/a/b",
	"file:///C:/a/b", "file:///C|/a", "file:///c:", "file:///c:/", "file://h/C:/x", "file://h/x/y", "file:///", "file:///x/y?q#f", "file:", "file://localhost/x", "file:///C:", "file:/C:/d/e", "file:///a/C:/b",
	"sc://h/p/q", "sc://u@h:1/p?q#f", "sc:/p/q", "sc:///p", "sc://", "sc:/", "sc:/.//p", "a+b://h", "sc://h", "sc://h?q", "sc:/p?q#f",
	"sc:opaque", "mailto:a@b", "sc:opaque?q#f", "data:text/plain,x ", "sc:", "javascript:alert(1) #f", "sc:   #f", "data:  ?q#f", "sc: ?q", "sc:x  ?#",
	"http://1.2.3.4/x", "http://[::1]:8/x", "http://h/a%2fb/c", "http://h/a/b/", "http://h//", "http://h/a//b", "http://h/?", "http://h/#", "http://h/?#", "https://h:443/x", "http://h/a/b?c/d#e/f",
	"http://h/p?flag", "http://h/p?a=%41&&b&", "sc://h/p?k=%7e&x", "mailto:a@b?subject", "file:///x?a+b=c%20d&"}

func genBase(r *Rand) string {
	if r.P(70) {
		return r.Pick(basePool)
	}
	return genURL(r)
}

// random bytes / code points (the malformed stream)
func genGarbage(r *Rand) string {
	n := r.N(24)
	b := make([]byte, 0, n*2)
	alphabet := []byte(":/?#@[]\\%.|&=+ \t\n\x00\xff\xc3\xa9\xe2\x89\xa0-_~0123456789abcdefxXhtpfileHTPFILE")
	for i := 0; i < n; i++ {
		switch r.N(10) {
		case 0:
			b = append(b, byte(r.N(256)))
		case 1:
			b = append(b, []byte(string(rune(r.N(0x3000))))...)
		default:
			b = append(b, alphabet[r.N(len(alphabet))])
		}
	}
	return string(b)
}

// splice mutates a generated URL at byte level
func splice(r *Rand, s string) string {
	if len(s) == 0 {
		return s
	}
	b := []byte(s)
	switch r.N(5) {
	case 0: // delete span
		i := r.N(len(b))
		j := i + r.N(len(b)-i+1)
		b = append(b[:i:i], b[j:]...)
	case 1: // duplicate span
		i := r.N(len(b))
		j := i + r.N(len(b)-i+1)
		b = append(b[:j:j], append(append([]byte{}, b[i:j]...), b[j:]...)...)
	case 2: // replace byte
		b[r.N(len(b))] = byte(r.N(256))
	case 3: // insert delimiter
		i := r.N(len(b) + 1)
		d := []byte(":/?#@[]\\%")[r.N(9)]
		b = append(b[:i:i], append([]byte{d}, b[i:]...)...)
	default: // swap two bytes
		i, j := r.N(len(b)), r.N(len(b))
		b[i], b[j] = b[j], b[i]
	}
	return string(b)
}

func genInput(r *Rand) string {
	switch r.N(20) {
	case 0:
		return genGarbage(r)
	case 1, 2:
		return splice(r, genURL(r))
	default:
		return genURL(r)
	}
}

// setter values by kind
func genSetterValue(r *Rand, k int) string {
	if r.P(8) {
		return ""
	}
	if r.P(5) {
		return genGarbage(r)
	}
	switch k {
	case 0: // protocol
		s := r.Pick(append(append([]string{}, schemePool...), badSchemePool...))
		switch r.N(5) {
		case 0:
			s += ":"
		case 1:
			s += "://x"
		case 2:
			s += ":80"
		}
		return s
	case 1, 2:
		return r.Pick(userPool)
	case 3, 4: // host, hostname
		h := genHost(r)
		if r.P(30) {
			h += ":" + r.Pick(portPool)
		}
		if r.P(10) {
			h += r.Pick([]string{"/x", "?q", "#f", "\\x", "@y", ":", "/"})
		}
		if r.P(5) {
			h = r.Pick(userPool) + "@" + h
		}
		return h
	case 5:
		p := r.Pick(portPool)
		if r.P(15) {
			p += r.Pick([]string{"/x", "?q", "#f", "\\", "a", " ", ":", ":1"})
		}
		return p
	case 6:
		s := genPath(r)
		switch r.N(8) {
		case 0:
			s = strings.TrimPrefix(s, "/")
		case 1:
			s += "?q"
		case 2:
			s += "#f"
		case 3:
			s = "//" + s
		case 4:
			s = "/.//x"
		}
		return s
	case 7:
		s := r.Pick(queryPool)
		if r.P(30) {
			s = "?" + s
		}
		if r.P(8) {
			s = "??" + s
		}
		return s
	default:
		s := r.Pick(fragPool)
		if r.P(30) {
			s = "#" + s
		}
		return s
	}
}

var spNames = []string{"a", "b", "c", "A", "x", "", "a b", "a&b", "a=b", "a+b", "a%26b", "%", "%41", "é", "\xff", "a#b", "a?b", "'", "\"", "ab", "a\x00", "~", "*", "-._", "\ufffd", "\U0001F600"}
var spValues = []string{"", "1", "2", "x", "b c", "c=d", "c&d", "1+1", "1%2B1", "%", "%zz", "é", "\xff", "#", "?", "'", "\"<>", " ", "+", "a\nb", "\ufffd", "~*-._", "%26", "%3D", "%25"}

// genInputFor: an input biased toward the features the options of c are about (the trigger of each option both present and
// absent), so that option-specific code is reached often
func genInputFor(r *Rand, c *Cfg) string {
	if c == nil || c == defaultCfg || r.P(40) {
		return genInput(r)
	}
	o := c.Opts
	var extras []string
	if o.PercentEncodeSinglePercentSign {
		extras = append(extras, "é%41", "%", "%4", "a%zz", "日%2F本%", "%%41", "ö%40h", "%é41")
	}
	if o.AcceptInvalidCodepoints {
		extras = append(extras, "\xff", "a\xff\xfeb", "\xc3", "\ufffd", "a\ufffd\xffb", "\xf0\x9f")
	}
	if o.CollapseConsecutiveSlashes {
		extras = append(extras, "//", "///a", "a//b", "/.//", "//..", "//.", "/a//../b", "\\\\x")
	}
	if o.SkipWindowsDriveLetterNormalization {
		extras = append(extras, "C|", "/C|/x", "c|", "C|\\x")
	}
	if o.EncodingOverride != "" {
		extras = append(extras, "é", "ÿ", "日本", "%E9", "%C3%A9", "\xe9", "€")
	}
	if o.LaxHostParsing {
		extras = append(extras, "a b", "a<b", "a%zzb", "a^b", "%", "a|b", "a\x7fb")
	}
	if o.SkipWindowsDriveLetterNormalization {
		// … and as a reference against a file base whose own drive letter was left un-normalised
		extras = append(extras, "/C:x", "/C|x", "C:", "/d|")
	}
	// a replaced percent-encode set: the characters it adds or drops, and the broken escapes whose '%' only the set of THAT
	// component may touch (the invalid-escape branch of each state encodes with the state's own set)
	for _, ps := range []*url.PercentEncodeSet{o.PathPercentEncodeSet, o.QueryPercentEncodeSet, o.SpecialQueryPercentEncodeSet, o.FragmentPercentEncodeSet, o.SpecialFragmentPercentEncodeSet} {
		if ps != nil && ps.RuneShouldBeEncoded('%') {
			extras = append(extras, "%2e%2", "a%zz", "%", "x%4", "%%41", "%2", "a%b%c")
			break
		}
	}
	if len(extras) == 0 {
		return genInput(r)
	}
	e := r.Pick(extras)
	scheme := r.Pick([]string{"http", "https", "file", "sc", "ftp"})
	switch r.N(6) {
	case 0:
		return scheme + "://" + e + genPath(r)
	case 1:
		return scheme + "://h/" + e + "/" + r.Pick(segPool)
	case 2:
		return scheme + "://u" + e + ":p@h/"
	case 3:
		return scheme + "://h/?" + e + "#" + e
	case 4:
		return scheme + "://" + r.Pick(asciiLabels) + e + "." + r.Pick(asciiLabels) + "/" + e
	default:
		return scheme + ":" + e + genPath(r)
	}
}
