package main

// `vharness exec`: executes case lines (the same lines the Lean driver reads) on the real code and prints the
// observation lines. Used by replay and by the shrinker.

import (
	"bufio"
	"encoding/hex"
	"fmt"
	"math/big"
	"os"
	"strings"

	"github.com/nlnwa/whatwg-url/canonicalizer"
	"github.com/nlnwa/whatwg-url/url"
)

func unx(t string) string {
	b, _ := hex.DecodeString(strings.TrimPrefix(t, "x"))
	return string(b)
}

func setFromTok(t string) *url.PercentEncodeSet {
	p := strings.Split(t, ":")
	if len(p) != 2 {
		return url.NewPercentEncodeSet(0)
	}
	var ab int64
	fmt.Sscanf(p[0], "%x", &ab)
	n, _ := new(big.Int).SetString(p[1], 16)
	var bits []uint
	if n != nil {
		for i := 0; i < 256; i++ {
			if n.Bit(i) == 1 {
				bits = append(bits, uint(i))
			}
		}
	}
	return url.NewPercentEncodeSet(int32(ab), bits...)
}

var cfgCache = map[string]*Cfg{}

func optsFromTok(tok string) ([]url.ParserOption, int, int) {
	f := strings.Split(tok, ",")
	if len(f) != 10 {
		return nil, 0, 0
	}
	var flags, pre, post int
	fmt.Sscan(f[0], &flags)
	fmt.Sscan(f[1], &pre)
	fmt.Sscan(f[2], &post)
	var opts []url.ParserOption
	mk := []func() url.ParserOption{url.WithReportValidationErrors, url.WithFailOnValidationError, url.WithLaxHostParsing, url.WithCollapseConsecutiveSlashes,
		url.WithAcceptInvalidCodepoints, url.WithPercentEncodeSinglePercentSign, url.WithAllowSettingPathForNonBaseUrl, url.WithSkipWindowsDriveLetterNormalization,
		url.WithSkipTrailingSlashNormalization, url.WithSkipEqualsForEmptySearchParamsValue}
	for i, m := range mk {
		if flags&(1<<uint(i)) != 0 {
			opts = append(opts, m())
		}
	}
	if pre != 0 {
		opts = append(opts, url.WithPreParseHostFunc(hostFns[pre]))
	}
	if post != 0 {
		opts = append(opts, url.WithPostParseHostFunc(hostFns[post]))
	}
	if f[3] != "0" {
		if cm := charmapOfTok(f[3]); cm != nil {
			opts = append(opts, url.WithEncodingOverride(cm))
		}
	}
	m := map[string]string{}
	if f[4] != "-" {
		for _, e := range strings.Split(f[4], "+") {
			kv := strings.Split(e, "=")
			if len(kv) == 2 {
				k, _ := hex.DecodeString(kv[0])
				v, _ := hex.DecodeString(kv[1])
				m[string(k)] = string(v)
			}
		}
	}
	opts = append(opts, url.WithSpecialSchemes(m), url.WithPathPercentEncodeSet(setFromTok(f[5])), url.WithSpecialQueryPercentEncodeSet(setFromTok(f[6])),
		url.WithQueryPercentEncodeSet(setFromTok(f[7])), url.WithSpecialFragmentPathPercentEncodeSet(setFromTok(f[8])), url.WithFragmentPathPercentEncodeSet(setFromTok(f[9])))
	return opts, pre, post
}

func cfgFromTok(tok string) *Cfg {
	if tok == defaultCfg.Tok {
		return defaultCfg
	}
	if c, ok := cfgCache[tok]; ok {
		return c
	}
	opts, pre, post := optsFromTok(tok)
	c := newCfg("replayed", url.NewParser(opts...), pre, post)
	cfgCache[tok] = c
	return c
}

func profFromTok(tok string) *Prof {
	for _, p := range predefinedProfiles {
		if p.Tok == tok {
			return p
		}
	}
	f := strings.Split(tok, ";")
	if len(f) != 4 {
		return profWhatWg
	}
	var cf, so int
	fmt.Sscan(f[0], &cf)
	fmt.Sscan(f[1], &so)
	opts, pre, post := optsFromTok(f[3])
	if cf&1 != 0 {
		opts = append(opts, canonicalizer.WithRemoveUserInfo())
	}
	if cf&2 != 0 {
		opts = append(opts, canonicalizer.WithRemovePort())
	}
	if cf&4 != 0 {
		opts = append(opts, canonicalizer.WithRemoveFragment())
	}
	if cf&8 != 0 {
		opts = append(opts, canonicalizer.WithRepeatedPercentDecoding())
	}
	if ds := unx(f[2]); ds != "" {
		opts = append(opts, canonicalizer.WithDefaultScheme(ds))
	}
	switch so {
	case 1:
		opts = append(opts, canonicalizer.WithSortQuery(canonicalizer.SortKeys))
	case 2:
		opts = append(opts, canonicalizer.WithSortQuery(canonicalizer.SortParameter))
	}
	return newProf("replayed", canonicalizer.New(opts...), pre, post)
}

func atoi(s string) int {
	var n int
	fmt.Sscan(s, &n)
	return n
}

func execHistory(id string, toks []string) string {
	h := &Hist{}
	ops := strings.Split(strings.Join(toks, " "), " ; ")
	for _, op := range ops {
		o := strings.Split(op, " ")
		okU := func(k int) bool { return k >= 0 && k < len(h.urls) }
		okS := func(k int) bool { return k >= 0 && k < len(h.sps) }
		switch {
		case o[0] == "P" && len(o) == 3:
			h.Parse(cfgFromTok(o[1]), unx(o[2]))
		case o[0] == "PR" && len(o) == 4:
			h.ParseRef(cfgFromTok(o[1]), unx(o[2]), unx(o[3]))
		case o[0] == "R" && len(o) == 3 && okU(atoi(o[1])):
			h.Resolve(atoi(o[1]), unx(o[2]))
		case o[0] == "C" && len(o) == 2 && okU(atoi(o[1])):
			h.Clone(atoi(o[1]))
		case o[0] == "S" && len(o) == 4 && okU(atoi(o[2])):
			h.Set(atoi(o[2]), atoi(o[1]), unx(o[3]))
		case o[0] == "G" && len(o) == 2 && okU(atoi(o[1])):
			h.Grab(atoi(o[1]))
		case o[0] == "QA" && len(o) == 4 && okS(atoi(o[1])):
			h.QAppend(atoi(o[1]), unx(o[2]), unx(o[3]))
		case o[0] == "QD" && len(o) == 3 && okS(atoi(o[1])):
			h.QDelete(atoi(o[1]), unx(o[2]))
		case o[0] == "QS" && len(o) == 4 && okS(atoi(o[1])):
			h.QSet(atoi(o[1]), unx(o[2]), unx(o[3]))
		case o[0] == "QO" && len(o) == 2 && okS(atoi(o[1])):
			h.QSort(atoi(o[1]))
		case o[0] == "QB" && len(o) == 2 && okS(atoi(o[1])):
			h.QSortAbs(atoi(o[1]))
		case o[0] == "QI" && len(o) == 3 && okS(atoi(o[1])):
			h.QIter(atoi(o[1]), atoi(o[2]))
		case o[0] == "QG" && len(o) == 3 && okS(atoi(o[1])):
			h.QGet(atoi(o[1]), unx(o[2]))
		case o[0] == "QL" && len(o) == 3 && okS(atoi(o[1])):
			h.QGetAll(atoi(o[1]), unx(o[2]))
		case o[0] == "QH" && len(o) == 3 && okS(atoi(o[1])):
			h.QHas(atoi(o[1]), unx(o[2]))
		case o[0] == "QT" && len(o) == 2 && okS(atoi(o[1])):
			h.QString(atoi(o[1]))
		case o[0] == "SSP" && len(o) == 3 && okU(atoi(o[1])) && okS(atoi(o[2])):
			h.SetSearchParams(atoi(o[1]), atoi(o[2]))
		case o[0] == "CP" && len(o) == 3:
			h.CanonParse(profFromTok(o[1]), unx(o[2]))
		case o[0] == "CR" && len(o) == 4:
			h.CanonParseRef(profFromTok(o[1]), unx(o[2]), unx(o[3]))
		case o[0] == "CC" && len(o) == 3 && okU(atoi(o[2])):
			h.Canonicalize(profFromTok(o[1]), atoi(o[2]))
		case o[0] == "NU" && len(o) == 2:
			h.NewUrl(cfgFromTok(o[1]))
		default:
			h.ops = append(h.ops, op)
			h.out = append(h.out, "BADOP")
		}
	}
	return id + "\t" + strings.Join(h.out, "\t")
}

func execLine(line string) string {
	t := strings.Split(line, " ")
	if len(t) < 2 {
		return line + "\tBADLINE"
	}
	id := t[0]
	rec := func(f func() string) string { return id + "\t" + recovered(f) }
	switch t[1] {
	case "H":
		return execHistory(id, t[3:])
	case "LH":
		return rec(func() string { return hostRes(url.VerifParseHost(cfgFromTok(t[3]).Parser, unx(t[5]), t[4] == "1")) })
	case "L4":
		return rec(func() string { return hostRes(url.VerifParseIPv4(unx(t[2]))) })
	case "LE":
		return rec(func() string { return b01(url.VerifEndsInANumber(unx(t[2]))) })
	case "L6":
		return rec(func() string { return hostRes(url.VerifParseIPv6(unx(t[2]))) })
	case "L6S":
		var a url.IPv6Addr
		for i, p := range strings.Split(t[2], ",") {
			if i < 8 {
				a[i] = uint16(atoi(p))
			}
		}
		return id + "\t" + xs(a.String())
	case "L4S":
		return id + "\t" + xs(url.IPv4Addr(uint32(atoi(t[2]))).String())
	case "LENC":
		return rec(func() string { return xs(cfgFromTok(t[2]).Parser.PercentEncodeString(unx(t[4]), setFromTok(t[3]))) })
	case "LDEC":
		return rec(func() string { return xs(url.VerifDecodePercentEncoded(cfgFromTok(t[2]).Parser, unx(t[3]))) })
	case "LSPI":
		return rec(func() string { return pairsTok(url.VerifSearchParamsInit(cfgFromTok(t[2]).Parser, unx(t[3]))) })
	case "LPROF":
		for _, p := range []*Prof{profWhatWg, profWhatWgSort, profGSB, profSemantic} {
			if p.Name == t[2] {
				return id + "\t" + b01(p.Tok == t[3])
			}
		}
		return id + "\t0"
	case "LDE":
		return rec(func() string { return xs(canonicalizer.VerifDecodeEncode(unx(t[3]), setFromTok(t[2]))) })
	case "LRD":
		return rec(func() string { return xs(canonicalizer.VerifRepeatedDecode(unx(t[2]))) })
	}
	return id + "\tUNSUPPORTED"
}

func execCommand() {
	sc := bufio.NewScanner(os.Stdin)
	sc.Buffer(make([]byte, 1<<20), 1<<26)
	w := bufio.NewWriter(os.Stdout)
	defer w.Flush()
	for sc.Scan() {
		l := sc.Text()
		if l != "" {
			w.WriteString(execLine(l))
			w.WriteByte('\n')
		}
	}
}
