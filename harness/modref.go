package main

// T1, typed part: an interprocedural mod/ref summary of the url and canonicalizer packages, computed on go/types
// information (stdlib only: the "source" importer type-checks the dependencies from the module cache).
//
// Abstract objects: one REGION per function for everything reachable from its receiver ("recv"), from each parameter
// ("param<i>"), and for package-level state ("global"); one field-sensitive ALLOCATION object per syntactic allocation
// site (composite literal, new/make, address-taken or struct-valued local, result of a call). A pointer value is a set
// of abstract objects. Loading any field of a region yields the region; loading field f of an allocation object yields
// what was stored there. The analysis is flow-insensitive (weak updates, unions).
//
// Summary of a function f, in terms of its own regions:
//   writes(f)   regions f or its callees may store to                                   (⊆ {recv, param<i>, global})
//   returns(f)  regions the reference-typed results may point to, "fresh" for newly allocated objects, and
//               "fresh.<field>>r" when field <field> of a newly allocated result may (transitively) lead into region r
//   aliases(f)  "d<-s": a reference into region s may be stored into an object of region d
//   extern(f)   "pkg.Type.Method@r": a method of a type defined outside the two packages is called on an object of region r
// Not followed: calls through function values (option closures, the host callbacks); parameters of function literals are
// a separate region ("closure") whose stores are not attributed to the enclosing function. Results of functions defined
// outside the two packages are assumed not to alias their arguments. `unsafe`/reflection are excluded by another fact.
// Names of unexported helpers never appear in what the Lean theorems quantify over: they speak about the exported API.

import (
	"fmt"
	"go/ast"
	"go/importer"
	"go/token"
	"go/types"
	"os"
	"sort"
	"strings"
)

type aobj struct {
	id     string // region name ("recv", "param1", "global", or a sub-region "param1.path"), or "alloc"
	root   string // for regions: the region it belongs to ("param1" for "param1.path")
	region bool
	fields map[string]objSet
	cfg    map[string]bool // fields whose static type is a shared configuration type (excluded from "holds a reference into")
}

type objSet map[*aobj]bool

func (s objSet) addAll(o objSet) bool {
	ch := false
	for k := range o {
		if !s[k] {
			s[k] = true
			ch = true
		}
	}
	return ch
}

type strSet map[string]bool

func (r strSet) add(k string) bool {
	if !r[k] {
		r[k] = true
		return true
	}
	return false
}
func (r strSet) sorted() []string {
	var s []string
	for k := range r {
		s = append(s, k)
	}
	sort.Strings(s)
	return s
}

type mrFunc struct {
	key      string // pkg.Recv.Name or pkg.Name
	display  string // Recv.Name or Name
	pkg      string
	decl     *ast.FuncDecl
	info     *types.Info
	api      bool
	recvObj  types.Object
	recvType types.Type
	params   []types.Object
	variadic bool
	results  []types.Object
	writes   strSet
	returns  strSet
	aliases  strSet
	extern   strSet
	env      map[types.Object]objSet
	regions  map[string]*aobj
	allocs   map[token.Pos]*aobj
	closureP map[types.Object]bool
	// flow facts about LOCAL struct variables (computed once per function by structFlow):
	// copyKills: for `c := *src` — the fields of c that are reassigned before anything can read the copied value;
	// override:  a use of `c.f` that is preceded, in the same block, by a direct assignment `c.f = rhs` reads rhs
	structCopies map[*ast.AssignStmt]bool
	copyKills    map[types.Object]map[string]bool
	override     map[*ast.SelectorExpr]ast.Expr
	flowDone     bool
}

type mrWorld struct {
	funcs  map[string]*mrFunc
	byName map[string][]*mrFunc // method name -> methods (for interface dispatch)
	order  []string
}

func typeCheck(p *pkgFiles, dir, name string) (*types.Package, *types.Info) {
	var files []*ast.File
	for _, n := range p.names {
		files = append(files, p.files[n])
	}
	info := &types.Info{Uses: map[*ast.Ident]types.Object{}, Defs: map[*ast.Ident]types.Object{}, Selections: map[*ast.SelectorExpr]*types.Selection{}, Types: map[ast.Expr]types.TypeAndValue{}}
	cwd, _ := os.Getwd()
	os.Chdir(dir)
	defer os.Chdir(cwd)
	conf := types.Config{Importer: importer.ForCompiler(p.fset, "source", nil), Error: func(e error) { fmt.Fprintln(os.Stderr, "typecheck:", e) }}
	pkg, err := conf.Check(name, p.fset, files, info)
	if err != nil {
		fmt.Fprintln(os.Stderr, "typecheck failed:", err)
		os.Exit(1)
	}
	return pkg, info
}

func pkgLast(path string) string {
	if i := strings.LastIndex(path, "/"); i >= 0 {
		return path[i+1:]
	}
	return path
}

func funcKey(f *types.Func) (key, display string) {
	sig := f.Type().(*types.Signature)
	p := ""
	if f.Pkg() != nil {
		p = pkgLast(f.Pkg().Path())
	}
	if r := sig.Recv(); r != nil {
		t := r.Type()
		if pt, ok := t.(*types.Pointer); ok {
			t = pt.Elem()
		}
		if n, ok := t.(*types.Named); ok {
			return p + "." + n.Obj().Name() + "." + f.Name(), n.Obj().Name() + "." + f.Name()
		}
	}
	return p + "." + f.Name(), f.Name()
}

// does a value of this type carry a reference through which memory can be written?
func refLike(t types.Type, depth int) bool {
	if t == nil || depth > 6 {
		return false
	}
	switch u := t.Underlying().(type) {
	case *types.Pointer, *types.Slice, *types.Map, *types.Chan, *types.Interface, *types.Signature:
		return true
	case *types.Struct:
		for i := 0; i < u.NumFields(); i++ {
			if refLike(u.Field(i).Type(), depth+1) {
				return true
			}
		}
	case *types.Array:
		return refLike(u.Elem(), depth+1)
	case *types.Tuple:
		for i := 0; i < u.Len(); i++ {
			if refLike(u.At(i).Type(), depth+1) {
				return true
			}
		}
	}
	return false
}

func isStructVal(t types.Type) bool {
	if t == nil {
		return false
	}
	switch t.Underlying().(type) {
	case *types.Struct, *types.Array:
		return true
	}
	return false
}

// the shared, immutable configuration objects that results deliberately keep pointing to (documented sharing): a value
// of one of these types held by a result is not counted as "a reference into" the object it came from. Stores THROUGH
// such a pointer are still stores to the region it points into.
func configType(t types.Type) bool {
	if t == nil {
		return false
	}
	if pt, ok := t.(*types.Pointer); ok {
		t = pt.Elem()
	}
	if n, ok := t.(*types.Named); ok {
		switch n.Obj().Name() {
		case "parser", "Parser", "PercentEncodeSet", "profile", "Profile", "parserOptions":
			return true
		}
	}
	return false
}

func (w *mrWorld) add(p *pkgFiles, pkg *types.Package, info *types.Info) {
	p.funcs(func(file string, fd *ast.FuncDecl) {
		obj, _ := info.Defs[fd.Name].(*types.Func)
		if obj == nil {
			return
		}
		key, disp := funcKey(obj)
		f := &mrFunc{key: key, display: disp, pkg: pkgLast(pkg.Path()), decl: fd, info: info, writes: strSet{}, returns: strSet{}, aliases: strSet{}, extern: strSet{},
			env: map[types.Object]objSet{}, regions: map[string]*aobj{}, allocs: map[token.Pos]*aobj{}, closureP: map[types.Object]bool{}}
		f.api = ast.IsExported(fd.Name.Name)
		sig := obj.Type().(*types.Signature)
		if sig.Recv() != nil {
			f.recvObj = sig.Recv()
			f.recvType = sig.Recv().Type()
			// a method belongs to the public API when its name is exported and its receiver type is exported or its values are
			// handed out through an exported interface of the two packages (`parser` and `profile` through `url.Parser`) —
			// not e.g. the Len/Less/Swap of an unexported sort adapter
			t := f.recvType
			if pt, ok := t.(*types.Pointer); ok {
				t = pt.Elem()
			}
			if n, ok := t.(*types.Named); ok && !n.Obj().Exported() {
				f.api = f.api && implementsExportedInterface(pkg, n, fd.Name.Name)
			}
		}
		for i := 0; i < sig.Params().Len(); i++ {
			f.params = append(f.params, sig.Params().At(i))
		}
		f.variadic = sig.Variadic()
		for i := 0; i < sig.Results().Len(); i++ {
			f.results = append(f.results, sig.Results().At(i))
		}
		// parameters of function literals: a region of their own
		ast.Inspect(fd.Body, func(n ast.Node) bool {
			if fl, ok := n.(*ast.FuncLit); ok {
				for _, fld := range fl.Type.Params.List {
					for _, nm := range fld.Names {
						if o := info.Defs[nm]; o != nil {
							f.closureP[o] = true
						}
					}
				}
			}
			return true
		})
		w.funcs[key] = f
		w.order = append(w.order, key)
		if f.recvObj != nil {
			w.byName[fd.Name.Name] = append(w.byName[fd.Name.Name], f)
		}
	})
}

// does the unexported named type n (or *n) implement an exported interface of the two packages (so that its values reach
// the library's users)?
func implementsExportedInterface(pkg *types.Package, n *types.Named, name string) bool {
	scopes := []*types.Scope{pkg.Scope()}
	for _, im := range pkg.Imports() {
		if strings.HasPrefix(im.Path(), "github.com/nlnwa/whatwg-url/") {
			scopes = append(scopes, im.Scope())
		}
	}
	for _, sc := range scopes {
		for _, nm := range sc.Names() {
			tn, ok := sc.Lookup(nm).(*types.TypeName)
			if !ok || !tn.Exported() {
				continue
			}
			iface, ok := tn.Type().Underlying().(*types.Interface)
			if !ok || iface.NumMethods() == 0 {
				continue
			}
			// values of n are handed out as this interface: every exported method of n is then reachable (type assertion)
			if types.Implements(n, iface) || types.Implements(types.NewPointer(n), iface) {
				return true
			}
		}
	}
	return false
}

type mrCtx struct {
	w  *mrWorld
	f  *mrFunc
	ch bool
}

func (c *mrCtx) region(name string) *aobj {
	if r := c.f.regions[name]; r != nil {
		return r
	}
	r := &aobj{id: name, root: name, region: true}
	if i := strings.Index(name, "."); i >= 0 {
		r.root = name[:i]
	}
	c.f.regions[name] = r
	return r
}

// what a named field of a region object leads to: a sub-region (one level: "param1.path"; deeper loads stay there).
// Keeping the field makes the summaries of helpers precise enough to be mapped through a call whose argument is a new
// object (`url.path = base.path` in a helper, called with the private clone of the base).
func (c *mrCtx) sub(o *aobj, field string) *aobj {
	if o.id != o.root || field == "" || field == "*" || field == "[]" || field == "*v" || o.id == "closure" || o.id == "global" {
		return o
	}
	return c.region(o.id + "." + field)
}

func (c *mrCtx) alloc(pos token.Pos) *aobj {
	if a := c.f.allocs[pos]; a != nil {
		return a
	}
	a := &aobj{id: "alloc", fields: map[string]objSet{}, cfg: map[string]bool{}}
	c.f.allocs[pos] = a
	return a
}

func isPkgVar(o types.Object) bool {
	v, ok := o.(*types.Var)
	return ok && v.Pkg() != nil && v.Parent() == v.Pkg().Scope()
}

func (c *mrCtx) paramIndex(o types.Object) int {
	for i, p := range c.f.params {
		if o == p {
			return i
		}
	}
	return -1
}

// the objects a variable's value may point to (for struct-valued variables: the objects its fields live in / point into)
func (c *mrCtx) varPts(o types.Object) objSet {
	f := c.f
	r := objSet{}
	if o == nil {
		return r
	}
	switch {
	case o == f.recvObj:
		r[c.region("recv")] = true
	case c.paramIndex(o) >= 0:
		r[c.region(fmt.Sprintf("param%d", c.paramIndex(o)))] = true
	case isPkgVar(o):
		r[c.region("global")] = true
		return r
	case f.closureP[o]:
		r[c.region("closure")] = true
	}
	if _, ok := o.(*types.Var); ok {
		if isStructVal(o.Type()) {
			r[c.alloc(o.Pos())] = true // the variable's own storage
		}
		r.addAll(f.env[o])
	}
	return r
}

func (c *mrCtx) load(objs objSet, field string, fieldType types.Type) objSet {
	r := objSet{}
	for o := range objs {
		if o.region {
			r[c.sub(o, field)] = true
			continue
		}
		r.addAll(o.fields[field])
		r.addAll(o.fields["*"])
		if isStructVal(fieldType) {
			r[o] = true // a nested struct value lives inside the same object
		}
	}
	return r
}

func (c *mrCtx) typeOf(e ast.Expr) types.Type {
	if tv, ok := c.f.info.Types[e]; ok {
		return tv.Type
	}
	if id, ok := e.(*ast.Ident); ok {
		if o := c.f.info.Uses[id]; o != nil {
			return o.Type()
		}
		if o := c.f.info.Defs[id]; o != nil {
			return o.Type()
		}
	}
	return nil
}

// where may the references carried by the value of e point?
func (c *mrCtx) pts(e ast.Expr) objSet {
	info := c.f.info
	switch x := e.(type) {
	case nil:
		return objSet{}
	case *ast.Ident:
		o := info.Uses[x]
		if o == nil {
			o = info.Defs[x]
		}
		return c.varPts(o)
	case *ast.ParenExpr:
		return c.pts(x.X)
	case *ast.SelectorExpr:
		if rhs := c.f.override[x]; rhs != nil {
			return c.pts(rhs)
		}
		if sel, ok := info.Selections[x]; ok {
			if sel.Kind() == types.FieldVal {
				return c.load(c.pts(x.X), x.Sel.Name, c.typeOf(x))
			}
			return c.pts(x.X) // method value
		}
		if o := info.Uses[x.Sel]; o != nil && isPkgVar(o) {
			return objSet{c.region("global"): true}
		}
		return objSet{}
	case *ast.IndexExpr:
		if t := c.typeOf(x.X); t != nil {
			if _, isArr := t.Underlying().(*types.Array); isArr {
				return c.pts(x.X)
			}
		}
		return c.load(c.pts(x.X), "[]", c.typeOf(x))
	case *ast.SliceExpr:
		return c.pts(x.X)
	case *ast.StarExpr:
		if t := c.typeOf(x); isStructVal(t) {
			return c.pts(x.X) // *p for a pointer to a struct: the same object
		}
		return c.load(c.pts(x.X), "*v", c.typeOf(x))
	case *ast.TypeAssertExpr:
		return c.pts(x.X)
	case *ast.UnaryExpr:
		if x.Op == token.AND {
			if cl, ok := x.X.(*ast.CompositeLit); ok {
				return c.pts(cl)
			}
			objs, _ := c.lvalObjs(x.X)
			if isStructVal(c.typeOf(x.X)) {
				return objs // pointer to a struct: conflated with the struct
			}
			// pointer to a scalar / pointer variable: a cell object holding the value
			cell := c.alloc(x.Pos())
			if refLike(c.typeOf(x.X), 0) {
				if c.storeField(cell, "*v", c.pts(x.X), false) {
					c.ch = true
				}
			}
			return objSet{cell: true}
		}
		return objSet{}
	case *ast.CompositeLit:
		a := c.alloc(x.Pos())
		for i, el := range x.Elts {
			v := el
			name := "[]"
			if kv, ok := el.(*ast.KeyValueExpr); ok {
				v = kv.Value
				if id, ok := kv.Key.(*ast.Ident); ok && isStructVal(c.typeOf(x)) {
					name = id.Name
				}
			} else if st, ok := c.typeOf(x).Underlying().(*types.Struct); ok && i < st.NumFields() {
				name = st.Field(i).Name()
			}
			vt := c.typeOf(v)
			if refLike(vt, 0) {
				if c.storeField(a, name, c.pts(v), configType(vt)) {
					c.ch = true
				}
			}
		}
		return objSet{a: true}
	case *ast.CallExpr:
		return c.callPts(x)
	case *ast.FuncLit:
		return objSet{}
	}
	return objSet{}
}

func (c *mrCtx) storeField(o *aobj, field string, v objSet, cfg bool) bool {
	if o.fields[field] == nil {
		o.fields[field] = objSet{}
	}
	ch := o.fields[field].addAll(v)
	if cfg && !o.cfg[field] {
		o.cfg[field] = true
		ch = true
	}
	return ch
}

// the objects that contain the storage denoted by the lvalue e; local=true when that storage is (inside) a variable of
// this call (a local, a by-value parameter or receiver)
func (c *mrCtx) lvalObjs(e ast.Expr) (objSet, bool) {
	info := c.f.info
	switch x := e.(type) {
	case *ast.ParenExpr:
		return c.lvalObjs(x.X)
	case *ast.Ident:
		o := info.Uses[x]
		if o == nil {
			o = info.Defs[x]
		}
		if o == nil {
			return objSet{}, true
		}
		if isPkgVar(o) {
			return objSet{c.region("global"): true}, false
		}
		return objSet{c.alloc(o.Pos()): true}, true
	case *ast.StarExpr:
		return c.pts(x.X), false
	case *ast.IndexExpr:
		if t := c.typeOf(x.X); t != nil {
			if _, isArr := t.Underlying().(*types.Array); isArr {
				return c.lvalObjs(x.X)
			}
		}
		return c.pts(x.X), false
	case *ast.SelectorExpr:
		if sel, ok := info.Selections[x]; ok && sel.Kind() == types.FieldVal {
			t := c.typeOf(x.X)
			_, isPtr := t.Underlying().(*types.Pointer)
			if isPtr || sel.Indirect() {
				return c.pts(x.X), false
			}
			return c.lvalObjs(x.X)
		}
		if o := info.Uses[x.Sel]; o != nil && isPkgVar(o) {
			return objSet{c.region("global"): true}, false
		}
	}
	return objSet{}, true
}

func fieldNameOf(e ast.Expr) string {
	switch x := e.(type) {
	case *ast.ParenExpr:
		return fieldNameOf(x.X)
	case *ast.SelectorExpr:
		return x.Sel.Name
	case *ast.IndexExpr:
		return "[]"
	case *ast.StarExpr:
		return "*v"
	}
	return "*"
}

// regions an allocation object may (transitively) hold references into, configuration-typed fields excluded
func reach(o *aobj, seen map[*aobj]bool, out strSet) {
	if seen[o] {
		return
	}
	seen[o] = true
	for f, vs := range o.fields {
		if o.cfg[f] {
			continue
		}
		for v := range vs {
			if v.region {
				out.add(v.id)
			} else {
				reach(v, seen, out)
			}
		}
	}
}

func (c *mrCtx) noteWrite(objs objSet) {
	for o := range objs {
		if o.region && o.root != "closure" {
			if c.f.writes.add(o.root) {
				c.ch = true
			}
		}
	}
}

// a value v is stored into the objects dst
func (c *mrCtx) store(dst objSet, field string, v objSet, valType types.Type) {
	c.noteWrite(dst)
	if !refLike(valType, 0) {
		return
	}
	cfg := configType(valType)
	for d := range dst {
		if d.region {
			if cfg || d.root == "closure" {
				continue
			}
			src := strSet{}
			for s := range v {
				if s.region {
					src.add(s.id)
				} else {
					reach(s, map[*aobj]bool{}, src)
				}
			}
			for s := range src {
				if rootOf(s) != d.root && s != "closure" {
					if c.f.aliases.add(d.root + "<-" + s) {
						c.ch = true
					}
				}
			}
		} else if c.storeField(d, field, v, cfg) {
			c.ch = true
		}
	}
}

func (c *mrCtx) assign(lhs ast.Expr, v objSet, t types.Type) {
	info := c.f.info
	if id, ok := lhs.(*ast.Ident); ok {
		if id.Name == "_" {
			return
		}
		o := info.Defs[id]
		if o == nil {
			o = info.Uses[id]
		}
		if o == nil {
			return
		}
		if isPkgVar(o) {
			c.store(objSet{c.region("global"): true}, id.Name, v, t)
			return
		}
		if refLike(t, 0) {
			if c.f.env[o] == nil {
				c.f.env[o] = objSet{}
			}
			if c.f.env[o].addAll(v) {
				c.ch = true
			}
		}
		return
	}
	dst, _ := c.lvalObjs(lhs)
	c.store(dst, fieldNameOf(lhs), v, t)
}

func implementsByName(f *mrFunc, w *mrWorld, iface *types.Interface) bool {
	// all methods of the interface exist (by name) on f's receiver type
	if f.recvType == nil {
		return false
	}
	t := f.recvType
	if pt, ok := t.(*types.Pointer); ok {
		t = pt.Elem()
	}
	n, ok := t.(*types.Named)
	if !ok {
		return false
	}
	have := map[string]bool{}
	for i := 0; i < n.NumMethods(); i++ {
		have[n.Method(i).Name()] = true
	}
	for i := 0; i < iface.NumMethods(); i++ {
		if !have[iface.Method(i).Name()] {
			return false
		}
	}
	return true
}

// resolve the callees of a call: functions of the two packages (statically, or for interface dispatch every method of
// that name whose receiver type has all the interface's methods)
func (c *mrCtx) callees(call *ast.CallExpr) (fs []*mrFunc, recv ast.Expr, kind string) {
	info := c.f.info
	fun := call.Fun
	for {
		if p, ok := fun.(*ast.ParenExpr); ok {
			fun = p.X
			continue
		}
		break
	}
	if tv, ok := info.Types[fun]; ok && tv.IsType() {
		return nil, nil, "conversion"
	}
	switch x := fun.(type) {
	case *ast.Ident:
		switch o := info.Uses[x].(type) {
		case *types.Builtin:
			return nil, nil, "builtin:" + o.Name()
		case *types.Func:
			k, _ := funcKey(o)
			if f := c.w.funcs[k]; f != nil {
				return []*mrFunc{f}, nil, "static"
			}
			return nil, nil, "external:" + k
		}
		return nil, nil, "dynamic"
	case *ast.SelectorExpr:
		if sel, ok := info.Selections[x]; ok {
			if sel.Kind() == types.MethodVal {
				fo := sel.Obj().(*types.Func)
				if iface, isIface := sel.Recv().Underlying().(*types.Interface); isIface {
					var ms []*mrFunc
					for _, m := range c.w.byName[fo.Name()] {
						if implementsByName(m, c.w, iface) {
							ms = append(ms, m)
						}
					}
					if len(ms) > 0 {
						return ms, x.X, "interface"
					}
					k, _ := funcKey(fo)
					return nil, x.X, "external:" + k
				}
				k, _ := funcKey(fo)
				if f := c.w.funcs[k]; f != nil {
					return []*mrFunc{f}, x.X, "static"
				}
				return nil, x.X, "external:" + k
			}
			return nil, nil, "dynamic" // calling a func-typed field
		}
		if fo, ok := info.Uses[x.Sel].(*types.Func); ok { // pkg.Func
			k, _ := funcKey(fo)
			if f := c.w.funcs[k]; f != nil {
				return []*mrFunc{f}, nil, "static"
			}
			return nil, nil, "external:" + k
		}
		return nil, nil, "dynamic"
	}
	return nil, nil, "dynamic"
}

// translate a callee region into the caller's objects at this call
func (c *mrCtx) mapRegion(g *mrFunc, region string, recv ast.Expr, args []ast.Expr) objSet {
	if i := strings.Index(region, "."); i >= 0 {
		return c.load(c.mapRegion(g, region[:i], recv, args), region[i+1:], nil)
	}
	switch {
	case region == "recv":
		if recv != nil {
			return c.pts(recv)
		}
		return objSet{}
	case region == "global":
		return objSet{c.region("global"): true}
	case strings.HasPrefix(region, "param"):
		var i int
		fmt.Sscanf(region, "param%d", &i)
		r := objSet{}
		if g.variadic && i == len(g.params)-1 {
			for j := i; j < len(args); j++ {
				r.addAll(c.pts(args[j]))
			}
		} else if i < len(args) {
			r.addAll(c.pts(args[i]))
		}
		return r
	}
	return objSet{}
}

func (c *mrCtx) callPts(call *ast.CallExpr) objSet {
	fs, recv, kind := c.callees(call)
	res := objSet{}
	t := c.typeOf(call)
	isRef := refLike(t, 0)
	switch {
	case kind == "conversion":
		if len(call.Args) == 1 && isRef {
			if refLike(c.typeOf(call.Args[0]), 0) {
				return c.pts(call.Args[0])
			}
			return objSet{c.alloc(call.Pos()): true} // []byte(string) etc.: a copy
		}
		return res
	case strings.HasPrefix(kind, "builtin:"):
		switch kind[8:] {
		case "append":
			a := c.alloc(call.Pos())
			res[a] = true
			if len(call.Args) > 0 {
				base := c.pts(call.Args[0])
				res.addAll(base)
				if c.storeField(a, "[]", c.load(base, "[]", nil), false) {
					c.ch = true
				}
			}
			for _, arg := range call.Args[1:] {
				at := c.typeOf(arg)
				v := c.pts(arg)
				if call.Ellipsis.IsValid() {
					if s, ok := at.Underlying().(*types.Slice); ok {
						at = s.Elem()
						v = c.load(v, "[]", at)
					}
				}
				if refLike(at, 0) {
					for o := range res {
						if !o.region {
							if c.storeField(o, "[]", v, false) {
								c.ch = true
							}
						}
					}
				}
			}
		case "new", "make":
			res[c.alloc(call.Pos())] = true
		}
		return res
	case len(fs) > 0:
		if !isRef {
			return res
		}
		for _, g := range fs {
			for r := range g.returns {
				switch {
				case r == "fresh":
					res[c.alloc(call.Pos())] = true
				case strings.HasPrefix(r, "fresh."):
					a := c.alloc(call.Pos())
					res[a] = true
					i := strings.LastIndex(r, ">")
					if c.storeField(a, r[6:i], c.mapRegion(g, r[i+1:], recv, call.Args), false) {
						c.ch = true
					}
				default:
					res.addAll(c.mapRegion(g, r, recv, call.Args))
				}
			}
		}
		return res
	default:
		if isRef {
			res[c.alloc(call.Pos())] = true // results of external and dynamic calls are assumed not to alias their arguments
		}
		return res
	}
}

func rootOf(region string) string {
	if i := strings.Index(region, "."); i >= 0 && !strings.HasPrefix(region, "fresh") {
		return region[:i]
	}
	return region
}

// the output form of a summary entry: sub-regions are reported as their region
func stripSubs(entries []string) []string {
	seen := map[string]bool{}
	var out []string
	for _, e := range entries {
		switch {
		case strings.HasPrefix(e, "fresh."):
			i := strings.LastIndex(e, ">")
			e = e[:i+1] + rootOf(e[i+1:])
		case strings.Contains(e, "<-"):
			parts := strings.SplitN(e, "<-", 2)
			e = rootOf(parts[0]) + "<-" + rootOf(parts[1])
		default:
			e = rootOf(e)
		}
		if !seen[e] {
			seen[e] = true
			out = append(out, e)
		}
	}
	sort.Strings(out)
	return out
}

var externalMutators = map[string]int{"sort.Slice": 0, "sort.SliceStable": 0, "sort.Sort": 0, "sort.Stable": 0, "sort.Strings": 0, "sort.Ints": 0}

func (c *mrCtx) visitCall(call *ast.CallExpr) {
	fs, recv, kind := c.callees(call)
	switch {
	case (kind == "builtin:copy" || kind == "builtin:delete" || kind == "builtin:clear") && len(call.Args) > 0:
		c.noteWrite(c.pts(call.Args[0]))
	case kind == "builtin:append" && len(call.Args) > 1:
		// append may write into the spare capacity of its first argument's backing array
		c.noteWrite(c.pts(call.Args[0]))
	case strings.HasPrefix(kind, "external:"):
		name := kind[9:]
		if i, ok := externalMutators[name]; ok && i < len(call.Args) {
			c.noteWrite(c.pts(call.Args[i]))
		}
		if recv != nil {
			for o := range c.pts(recv) {
				if o.region && o.root != "closure" {
					if c.f.extern.add(name + "@" + o.root) {
						c.ch = true
					}
				}
			}
		}
	case len(fs) > 0:
		for _, g := range fs {
			for r := range g.writes {
				c.noteWrite(c.mapRegion(g, r, recv, call.Args))
			}
			for a := range g.aliases {
				parts := strings.SplitN(a, "<-", 2)
				dst := c.mapRegion(g, parts[0], recv, call.Args)
				src := c.mapRegion(g, parts[1], recv, call.Args)
				// not a configuration value (those were excluded in the callee); type unknown here: any reference
				for d := range dst {
					if d.region {
						if d.root == "closure" {
							continue
						}
						ss := strSet{}
						for s := range src {
							if s.region {
								ss.add(s.id)
							} else {
								reach(s, map[*aobj]bool{}, ss)
							}
						}
						for s := range ss {
							if rootOf(s) != d.root && s != "closure" {
								if c.f.aliases.add(d.root + "<-" + s) {
									c.ch = true
								}
							}
						}
					} else if c.storeField(d, "*", src, false) {
						c.ch = true
					}
				}
			}
			for e := range g.extern {
				parts := strings.SplitN(e, "@", 2)
				for o := range c.mapRegion(g, parts[1], recv, call.Args) {
					if o.region && o.root != "closure" {
						if c.f.extern.add(parts[0] + "@" + o.root) {
							c.ch = true
						}
					}
				}
			}
		}
	}
}

func (c *mrCtx) noteReturn(v objSet) {
	for o := range v {
		if o.region {
			if o.root != "closure" && c.f.returns.add(o.id) {
				c.ch = true
			}
			continue
		}
		if c.f.returns.add("fresh") {
			c.ch = true
		}
		// one level of field sensitivity: which field of the new object leads into which region
		for fname, vs := range o.fields {
			if o.cfg[fname] {
				continue
			}
			rs := strSet{}
			for v := range vs {
				if v.region {
					rs.add(v.id)
				} else if v != o {
					reach(v, map[*aobj]bool{o: true}, rs)
				}
			}
			for r := range rs {
				if r != "closure" && c.f.returns.add("fresh."+fname+">"+r) {
					c.ch = true
				}
			}
		}
	}
}

// ---- a little flow-sensitivity for local struct variables ------------------------------------------------------------
//
// `c := *u` copies a struct: c is a NEW object whose reference fields hold what u's fields hold (a shallow copy), not u
// itself. Two facts that a flow-insensitive summary cannot see are read off the statement order:
//   - a field that is reassigned directly (`c.f = rhs`, rhs not mentioning c) in the statements that immediately follow the
//     copy — or under `if u.f != nil { c.f = rhs … }`, the copied value being nil otherwise — never exposes the copied value;
//   - a use of `c.f` after a direct assignment `c.f = rhs` earlier in the same block (nothing in between touching c as a
//     whole or assigning c.f) reads rhs.
func mentions(info *types.Info, n ast.Node, o types.Object) bool {
	found := false
	ast.Inspect(n, func(m ast.Node) bool {
		if id, ok := m.(*ast.Ident); ok && (info.Uses[id] == o || info.Defs[id] == o) {
			found = true
		}
		return !found
	})
	return found
}

// directFieldAssign: `c.f = rhs` with c a local struct-valued variable and rhs not mentioning c
func directFieldAssign(info *types.Info, st ast.Stmt) (o types.Object, field string, rhs ast.Expr, ok bool) {
	as, isAs := st.(*ast.AssignStmt)
	if !isAs || as.Tok != token.ASSIGN || len(as.Lhs) != 1 || len(as.Rhs) != 1 {
		return
	}
	sel, isSel := as.Lhs[0].(*ast.SelectorExpr)
	if !isSel {
		return
	}
	id, isId := sel.X.(*ast.Ident)
	if !isId {
		return
	}
	v, _ := info.Uses[id].(*types.Var)
	if v == nil || isPkgVar(v) || !isStructVal(v.Type()) {
		return
	}
	if _, isStruct := v.Type().Underlying().(*types.Struct); !isStruct {
		return
	}
	if mentions(info, as.Rhs[0], v) {
		return
	}
	return v, sel.Sel.Name, as.Rhs[0], true
}

func (f *mrFunc) structFlow() {
	if f.flowDone {
		return
	}
	f.flowDone = true
	f.structCopies = map[*ast.AssignStmt]bool{}
	f.copyKills = map[types.Object]map[string]bool{}
	f.override = map[*ast.SelectorExpr]ast.Expr{}
	info := f.info
	// variables whose address-taking or whole-value use makes per-field reasoning about later statements unsafe are handled
	// statement by statement below (a statement that mentions the bare variable ends the tracked facts AFTER it)
	bareUse := func(st ast.Node, o types.Object) bool {
		bare := false
		ast.Inspect(st, func(m ast.Node) bool {
			if bare {
				return false
			}
			if sel, ok := m.(*ast.SelectorExpr); ok {
				if id, ok := sel.X.(*ast.Ident); ok && info.Uses[id] == o {
					return false // c.f: not a bare use (the field is looked at separately)
				}
			}
			if id, ok := m.(*ast.Ident); ok && info.Uses[id] == o {
				bare = true
			}
			return true
		})
		return bare
	}
	assignsField := func(st ast.Node, o types.Object, field string) bool {
		found := false
		ast.Inspect(st, func(m ast.Node) bool {
			switch x := m.(type) {
			case *ast.AssignStmt:
				for _, l := range x.Lhs {
					if sel, ok := l.(*ast.SelectorExpr); ok && sel.Sel.Name == field {
						if id, ok := sel.X.(*ast.Ident); ok && info.Uses[id] == o {
							found = true
						}
					}
				}
			case *ast.IncDecStmt:
				if sel, ok := x.X.(*ast.SelectorExpr); ok && sel.Sel.Name == field {
					if id, ok := sel.X.(*ast.Ident); ok && info.Uses[id] == o {
						found = true
					}
				}
			case *ast.UnaryExpr:
				if x.Op == token.AND {
					if sel, ok := x.X.(*ast.SelectorExpr); ok && sel.Sel.Name == field {
						if id, ok := sel.X.(*ast.Ident); ok && info.Uses[id] == o {
							found = true // &c.f escapes the field
						}
					}
				}
			}
			return !found
		})
		return found
	}
	type key struct {
		o types.Object
		f string
	}
	var block func(list []ast.Stmt)
	block = func(list []ast.Stmt) {
		cur := map[key]ast.Expr{}
		for k, st := range list {
			// (a) a struct copy `c := *src` and the kills that follow it
			if as, ok := st.(*ast.AssignStmt); ok && as.Tok == token.DEFINE && len(as.Lhs) == 1 && len(as.Rhs) == 1 {
				if id, ok := as.Lhs[0].(*ast.Ident); ok {
					if star, ok := as.Rhs[0].(*ast.StarExpr); ok {
						if v, _ := info.Defs[id].(*types.Var); v != nil {
							if _, isStruct := v.Type().Underlying().(*types.Struct); isStruct {
								f.structCopies[as] = true
								kills := map[string]bool{}
								src := exprStr(star.X)
								for _, nx := range list[k+1:] {
									if o, fld, _, ok := directFieldAssign(info, nx); ok && o == v {
										kills[fld] = true
										continue
									}
									// if src.f != nil { c.f = rhs ; … }   (no else): the copied value is nil otherwise
									if ifs, ok := nx.(*ast.IfStmt); ok && ifs.Init == nil && ifs.Else == nil && len(ifs.Body.List) > 0 {
										if be, ok := ifs.Cond.(*ast.BinaryExpr); ok && be.Op == token.NEQ {
											x, y := be.X, be.Y
											if exprStr(x) == "nil" {
												x, y = y, x
											}
											if sel, ok := x.(*ast.SelectorExpr); ok && exprStr(y) == "nil" && exprStr(sel.X) == src {
												if o, fld, _, ok := directFieldAssign(info, ifs.Body.List[0]); ok && o == v && fld == sel.Sel.Name {
													kills[fld] = true
													continue
												}
											}
										}
									}
									break
								}
								f.copyKills[v] = kills
							}
						}
					}
				}
			}
			// (b) uses of c.f in this statement that an earlier direct assignment of this block decides
			if len(cur) > 0 {
				_, _, _, isDirect := directFieldAssign(info, st)
				var lhs0 ast.Expr
				if isDirect {
					lhs0 = st.(*ast.AssignStmt).Lhs[0]
				}
				ast.Inspect(st, func(m ast.Node) bool {
					sel, ok := m.(*ast.SelectorExpr)
					if !ok || ast.Expr(sel) == lhs0 {
						return true
					}
					if id, ok := sel.X.(*ast.Ident); ok {
						if o := info.Uses[id]; o != nil {
							if rhs := cur[key{o, sel.Sel.Name}]; rhs != nil && !assignsField(st, o, sel.Sel.Name) {
								f.override[sel] = rhs
							}
						}
					}
					return true
				})
			}
			// (c) what this statement does to the tracked facts
			for kk := range cur {
				if assignsField(st, kk.o, kk.f) || bareUse(st, kk.o) {
					delete(cur, kk)
				}
			}
			if o, fld, rhs, ok := directFieldAssign(info, st); ok {
				cur[key{o, fld}] = rhs
			}
		}
	}
	ast.Inspect(f.decl.Body, func(n ast.Node) bool {
		switch x := n.(type) {
		case *ast.BlockStmt:
			block(x.List)
		case *ast.CaseClause:
			block(x.Body)
		case *ast.CommClause:
			block(x.Body)
		case *ast.FuncLit:
			return false // closures: no flow facts
		}
		return true
	})
}

// structCopy: `c := *src` — a shallow copy into c's own storage, without the fields that copyKills lists
func (c *mrCtx) structCopy(id *ast.Ident, rhs ast.Expr) {
	v, _ := c.f.info.Defs[id].(*types.Var)
	st, _ := v.Type().Underlying().(*types.Struct)
	if v == nil || st == nil {
		c.assign(id, c.pts(rhs), c.typeOf(rhs))
		return
	}
	src := c.pts(rhs)
	a := c.alloc(v.Pos())
	kills := c.f.copyKills[v]
	for i := 0; i < st.NumFields(); i++ {
		fld := st.Field(i)
		if kills[fld.Name()] || !refLike(fld.Type(), 0) {
			continue
		}
		if c.storeField(a, fld.Name(), c.load(src, fld.Name(), fld.Type()), configType(fld.Type())) {
			c.ch = true
		}
	}
}

func (c *mrCtx) analyse() {
	f := c.f
	info := f.info
	f.structFlow()
	ast.Inspect(f.decl.Body, func(n ast.Node) bool {
		switch x := n.(type) {
		case *ast.AssignStmt:
			if len(x.Lhs) == len(x.Rhs) {
				for i, l := range x.Lhs {
					if x.Tok != token.ASSIGN && x.Tok != token.DEFINE {
						// op-assignment: a store without reference flow
						if _, isId := l.(*ast.Ident); !isId {
							dst, _ := c.lvalObjs(l)
							c.noteWrite(dst)
						} else if o := info.Uses[l.(*ast.Ident)]; o != nil && isPkgVar(o) {
							c.noteWrite(objSet{c.region("global"): true})
						}
						continue
					}
					if f.structCopies[x] {
						c.structCopy(l.(*ast.Ident), x.Rhs[i])
						continue
					}
					c.assign(l, c.pts(x.Rhs[i]), c.typeOf(x.Rhs[i]))
				}
			} else if len(x.Rhs) == 1 {
				v := c.pts(x.Rhs[0])
				tup, _ := c.typeOf(x.Rhs[0]).(*types.Tuple)
				for i, l := range x.Lhs {
					var t types.Type
					if tup != nil && i < tup.Len() {
						t = tup.At(i).Type()
					} else {
						t = c.typeOf(l)
					}
					c.assign(l, v, t)
				}
			}
		case *ast.IncDecStmt:
			if id, isId := x.X.(*ast.Ident); !isId {
				dst, _ := c.lvalObjs(x.X)
				c.noteWrite(dst)
			} else if o := info.Uses[id]; o != nil && isPkgVar(o) {
				c.noteWrite(objSet{c.region("global"): true})
			}
		case *ast.ValueSpec:
			for i, id := range x.Names {
				if i < len(x.Values) {
					c.assign(id, c.pts(x.Values[i]), c.typeOf(x.Values[i]))
				}
			}
		case *ast.RangeStmt:
			if x.Value != nil {
				v := c.load(c.pts(x.X), "[]", c.typeOf(x.Value))
				c.assign(x.Value, v, c.typeOf(x.Value))
			}
		case *ast.CallExpr:
			c.visitCall(x)
		case *ast.ReturnStmt:
			if len(x.Results) == 0 {
				for _, ro := range f.results {
					if refLike(ro.Type(), 0) && !configType(ro.Type()) {
						c.noteReturn(c.varPts(ro))
					}
				}
			}
			for i, e := range x.Results {
				t := c.typeOf(e)
				if len(x.Results) == len(f.results) && i < len(f.results) {
					t = f.results[i].Type()
				}
				if tup, ok := t.(*types.Tuple); ok {
					t = nil
					for j := 0; j < tup.Len(); j++ {
						if refLike(tup.At(j).Type(), 0) && !configType(tup.At(j).Type()) {
							t = tup.At(j).Type()
						}
					}
				}
				if t != nil && refLike(t, 0) && !configType(t) {
					c.noteReturn(c.pts(e))
				}
			}
		}
		return true
	})
}

var typedUrl, typedCanon *pkgFiles

func modref() (url []string, canon []string, stats string) {
	u, c, s, _, _ := modrefTyped()
	return u, c, s
}

func modrefTyped() (url []string, canon []string, stats string, uinfo, cinfo *types.Info) {
	w := &mrWorld{funcs: map[string]*mrFunc{}, byName: map[string][]*mrFunc{}}
	up := parseDir("/repo/url")
	upkg, uinfo := typeCheck(up, "/repo/url", "github.com/nlnwa/whatwg-url/url")
	w.add(up, upkg, uinfo)
	cp := parseDir("/repo/canonicalizer")
	cpkg, cinfo := typeCheck(cp, "/repo/canonicalizer", "github.com/nlnwa/whatwg-url/canonicalizer")
	w.add(cp, cpkg, cinfo)
	typedUrl, typedCanon = up, cp
	rounds := 0
	for {
		rounds++
		ch := false
		for _, k := range w.order {
			c := &mrCtx{w: w, f: w.funcs[k]}
			c.analyse()
			ch = ch || c.ch
		}
		if !ch || rounds > 60 {
			break
		}
	}
	for _, k := range w.order {
		f := w.funcs[k]
		var ext []string
		for _, e := range f.extern.sorted() {
			parts := strings.SplitN(e, "@", 2)
			ext = append(ext, fmt.Sprintf("(%s, %s)", leanStr(parts[0]), leanStr(parts[1])))
		}
		line := fmt.Sprintf("(%s, %s, %s, %s, %s, [%s])", leanStr(f.display), leanBool(f.api), leanStrList(f.writes.sorted()), leanStrList(stripSubs(f.returns.sorted())), leanStrList(stripSubs(f.aliases.sorted())), strings.Join(ext, ", "))
		if f.pkg == "url" {
			url = append(url, line)
		} else {
			canon = append(canon, line)
		}
	}
	return url, canon, fmt.Sprintf("%d functions, %d rounds", len(w.order), rounds), uinfo, cinfo
}
