package main

// T1, typed part: an interprocedural mod/ref + return-alias summary of the url and canonicalizer packages, computed on
// go/types information (stdlib only: the "source" importer type-checks the dependencies from the module cache).
//
// For every function f the summary is
//   writes(f)  ⊆ {recv, param<i>, global}   objects that existed before the call and may be stored to by f or its callees
//   returns(f) ⊆ {recv, param<i>, global, fresh}   where the reference-typed parts of f's results may point
//   aliases(f) ⊆ {dst<-src}   f may store a reference rooted at src into an object rooted at dst (dst, src ≠ fresh)
// The analysis is flow-insensitive and may-alias (unions); roots of locals are the union of everything assigned to them.
// Names of unexported helpers never appear in what the Lean theorems quantify over: they speak about the exported API.

import (
	"fmt"
	"go/ast"
	"go/importer"
	"go/token"
	"go/types"
	"os"
	"sort"
	"strings"
)

type rootSet map[string]bool

func (r rootSet) addAll(o rootSet) bool {
	ch := false
	for k := range o {
		if !r[k] {
			r[k] = true
			ch = true
		}
	}
	return ch
}
func (r rootSet) sorted() []string {
	var s []string
	for k := range r {
		s = append(s, k)
	}
	sort.Strings(s)
	return s
}

type mrFunc struct {
	key      string // pkg.Recv.Name or pkg.Name
	display  string // Recv.Name or Name
	pkg      string
	decl     *ast.FuncDecl
	info     *types.Info
	api      bool
	recvObj  types.Object
	params   []types.Object
	variadic bool
	results  []types.Object
	writes   rootSet
	returns  rootSet
	aliases  rootSet
	extern   rootSet // external / dynamically dispatched calls whose receiver or arguments are shared objects
	env      map[types.Object]rootSet
}

type mrWorld struct {
	funcs  map[string]*mrFunc
	byName map[string][]*mrFunc // method name -> methods (for interface dispatch)
	order  []string
}

func typeCheck(p *pkgFiles, dir, name string) (*types.Package, *types.Info) {
	var files []*ast.File
	for _, n := range p.names {
		files = append(files, p.files[n])
	}
	info := &types.Info{Uses: map[*ast.Ident]types.Object{}, Defs: map[*ast.Ident]types.Object{}, Selections: map[*ast.SelectorExpr]*types.Selection{}, Types: map[ast.Expr]types.TypeAndValue{}}
	cwd, _ := os.Getwd()
	os.Chdir(dir)
	defer os.Chdir(cwd)
	conf := types.Config{Importer: importer.ForCompiler(p.fset, "source", nil), Error: func(e error) { fmt.Fprintln(os.Stderr, "typecheck:", e) }}
	pkg, err := conf.Check(name, p.fset, files, info)
	if err != nil {
		fmt.Fprintln(os.Stderr, "typecheck failed:", err)
		os.Exit(1)
	}
	return pkg, info
}

func pkgLast(path string) string {
	if i := strings.LastIndex(path, "/"); i >= 0 {
		return path[i+1:]
	}
	return path
}

func funcKey(f *types.Func) (key, display string) {
	sig := f.Type().(*types.Signature)
	p := ""
	if f.Pkg() != nil {
		p = pkgLast(f.Pkg().Path())
	}
	if r := sig.Recv(); r != nil {
		t := r.Type()
		if pt, ok := t.(*types.Pointer); ok {
			t = pt.Elem()
		}
		if n, ok := t.(*types.Named); ok {
			return p + "." + n.Obj().Name() + "." + f.Name(), n.Obj().Name() + "." + f.Name()
		}
	}
	return p + "." + f.Name(), f.Name()
}

// does a value of this type carry a reference through which memory can be written?
func refLike(t types.Type, depth int) bool {
	if t == nil || depth > 6 {
		return false
	}
	switch u := t.Underlying().(type) {
	case *types.Pointer, *types.Slice, *types.Map, *types.Chan, *types.Interface, *types.Signature:
		return true
	case *types.Struct:
		for i := 0; i < u.NumFields(); i++ {
			if refLike(u.Field(i).Type(), depth+1) {
				return true
			}
		}
	case *types.Array:
		return refLike(u.Elem(), depth+1)
	}
	return false
}

// the shared, immutable configuration objects that results deliberately keep pointing to (documented sharing): a value
// of one of these types stored into a result or returned is not counted as an alias of the object it came from. Stores
// THROUGH such a pointer are still stores through its root.
func configType(t types.Type) bool {
	if pt, ok := t.(*types.Pointer); ok {
		t = pt.Elem()
	}
	if n, ok := t.(*types.Named); ok {
		switch n.Obj().Name() {
		case "parser", "Parser", "PercentEncodeSet", "profile", "Profile", "parserOptions":
			return true
		}
	}
	return false
}

func (w *mrWorld) add(p *pkgFiles, pkg *types.Package, info *types.Info) {
	p.funcs(func(file string, fd *ast.FuncDecl) {
		obj, _ := info.Defs[fd.Name].(*types.Func)
		if obj == nil {
			return
		}
		key, disp := funcKey(obj)
		f := &mrFunc{key: key, display: disp, pkg: pkgLast(pkg.Path()), decl: fd, info: info, writes: rootSet{}, returns: rootSet{}, aliases: rootSet{}, extern: rootSet{}}
		f.api = ast.IsExported(fd.Name.Name) && !(fd.Name.Name == "init" && fd.Recv == nil)
		sig := obj.Type().(*types.Signature)
		if sig.Recv() != nil {
			f.recvObj = sig.Recv()
		}
		for i := 0; i < sig.Params().Len(); i++ {
			f.params = append(f.params, sig.Params().At(i))
		}
		f.variadic = sig.Variadic()
		for i := 0; i < sig.Results().Len(); i++ {
			f.results = append(f.results, sig.Results().At(i))
		}
		w.funcs[key] = f
		w.order = append(w.order, key)
		if f.recvObj != nil {
			w.byName[fd.Name.Name] = append(w.byName[fd.Name.Name], f)
		}
	})
}

type mrCtx struct {
	w  *mrWorld
	f  *mrFunc
	ch bool
}

func (c *mrCtx) objRoots(o types.Object) rootSet {
	f := c.f
	if o == nil {
		return rootSet{}
	}
	if o == f.recvObj {
		r := rootSet{"recv": true}
		r.addAll(f.env[o])
		return r
	}
	for i, p := range f.params {
		if o == p {
			r := rootSet{fmt.Sprintf("param%d", i): true}
			r.addAll(f.env[o])
			return r
		}
	}
	if v, ok := o.(*types.Var); ok {
		if v.Pkg() != nil && v.Parent() == v.Pkg().Scope() {
			return rootSet{"global": true}
		}
		if e, ok := f.env[o]; ok {
			r := rootSet{}
			r.addAll(e)
			return r
		}
	}
	return rootSet{}
}

// where may the references carried by the value of e point?
func (c *mrCtx) roots(e ast.Expr) rootSet {
	info := c.f.info
	switch x := e.(type) {
	case nil:
		return rootSet{}
	case *ast.Ident:
		if o := info.Uses[x]; o != nil {
			return c.objRoots(o)
		}
		if o := info.Defs[x]; o != nil {
			return c.objRoots(o)
		}
		return rootSet{}
	case *ast.ParenExpr:
		return c.roots(x.X)
	case *ast.SelectorExpr:
		if sel, ok := info.Selections[x]; ok {
			if sel.Kind() == types.FieldVal {
				return c.roots(x.X)
			}
			return c.roots(x.X) // method value
		}
		// package-qualified identifier
		if o := info.Uses[x.Sel]; o != nil {
			if v, ok := o.(*types.Var); ok && v.Pkg() != nil && v.Parent() == v.Pkg().Scope() {
				return rootSet{"global": true}
			}
		}
		return rootSet{}
	case *ast.IndexExpr:
		return c.roots(x.X)
	case *ast.SliceExpr:
		return c.roots(x.X)
	case *ast.StarExpr:
		return c.roots(x.X)
	case *ast.TypeAssertExpr:
		return c.roots(x.X)
	case *ast.UnaryExpr:
		if x.Op == token.AND {
			r := c.roots(x.X)
			if _, ok := x.X.(*ast.CompositeLit); ok {
				r["fresh"] = true
			}
			if id, ok := x.X.(*ast.Ident); ok {
				if o := info.Uses[id]; o != nil && c.isLocal(o) {
					r["fresh"] = true // address of a local variable
				}
			}
			return r
		}
		return rootSet{}
	case *ast.CompositeLit:
		r := rootSet{"fresh": true}
		for _, el := range x.Elts {
			v := el
			if kv, ok := el.(*ast.KeyValueExpr); ok {
				v = kv.Value
			}
			if tv, ok := info.Types[v]; ok && refLike(tv.Type, 0) && !configType(tv.Type) {
				r.addAll(c.roots(v))
			}
		}
		return r
	case *ast.CallExpr:
		return c.callRoots(x)
	case *ast.FuncLit:
		return rootSet{}
	}
	return rootSet{}
}

func (c *mrCtx) isLocal(o types.Object) bool {
	if o == c.f.recvObj {
		return false
	}
	for _, p := range c.f.params {
		if o == p {
			return false
		}
	}
	if v, ok := o.(*types.Var); ok {
		return !(v.Pkg() != nil && v.Parent() == v.Pkg().Scope())
	}
	return false
}

// resolve the callees of a call: package-local functions (statically), or by method name for interface dispatch
func (c *mrCtx) callees(call *ast.CallExpr) (fs []*mrFunc, recv ast.Expr, kind string) {
	info := c.f.info
	fun := call.Fun
	for {
		if p, ok := fun.(*ast.ParenExpr); ok {
			fun = p.X
			continue
		}
		break
	}
	if tv, ok := info.Types[fun]; ok && tv.IsType() {
		return nil, nil, "conversion"
	}
	switch x := fun.(type) {
	case *ast.Ident:
		switch o := info.Uses[x].(type) {
		case *types.Builtin:
			return nil, nil, "builtin:" + o.Name()
		case *types.Func:
			k, _ := funcKey(o)
			if f := c.w.funcs[k]; f != nil {
				return []*mrFunc{f}, nil, "static"
			}
			return nil, nil, "external:" + k
		}
		return nil, nil, "dynamic"
	case *ast.SelectorExpr:
		if sel, ok := info.Selections[x]; ok {
			if sel.Kind() == types.MethodVal {
				fo := sel.Obj().(*types.Func)
				if _, isIface := sel.Recv().Underlying().(*types.Interface); isIface {
					ms := c.w.byName[fo.Name()]
					if len(ms) > 0 {
						return ms, x.X, "interface"
					}
					k, _ := funcKey(fo)
					return nil, x.X, "external:" + k
				}
				k, _ := funcKey(fo)
				if f := c.w.funcs[k]; f != nil {
					return []*mrFunc{f}, x.X, "static"
				}
				return nil, x.X, "external:" + k
			}
			return nil, nil, "dynamic" // calling a func-typed field
		}
		if fo, ok := info.Uses[x.Sel].(*types.Func); ok { // pkg.Func
			k, _ := funcKey(fo)
			if f := c.w.funcs[k]; f != nil {
				return []*mrFunc{f}, nil, "static"
			}
			return nil, nil, "external:" + k
		}
		return nil, nil, "dynamic"
	}
	return nil, nil, "dynamic"
}

// translate a callee root into the caller's roots at this call
func (c *mrCtx) mapRoot(g *mrFunc, root string, recv ast.Expr, args []ast.Expr) rootSet {
	switch {
	case root == "recv":
		if recv != nil {
			return c.roots(recv)
		}
		return rootSet{}
	case root == "global" || root == "fresh":
		return rootSet{root: true}
	case strings.HasPrefix(root, "param"):
		var i int
		fmt.Sscanf(root, "param%d", &i)
		r := rootSet{}
		if g.variadic && i == len(g.params)-1 {
			for j := i; j < len(args); j++ {
				r.addAll(c.roots(args[j]))
			}
		} else if i < len(args) {
			r.addAll(c.roots(args[i]))
		}
		return r
	}
	return rootSet{}
}

func (c *mrCtx) callRoots(call *ast.CallExpr) rootSet {
	info := c.f.info
	fs, recv, kind := c.callees(call)
	res := rootSet{}
	tv, hasT := info.Types[call]
	isRef := hasT && refLike(tv.Type, 0)
	if tup, ok := tv.Type.(*types.Tuple); ok {
		for i := 0; i < tup.Len(); i++ {
			if refLike(tup.At(i).Type(), 0) {
				isRef = true
			}
		}
	}
	switch {
	case kind == "conversion":
		if len(call.Args) == 1 && isRef {
			// []byte(string) and string([]byte) copy; a conversion between reference types keeps the referent
			if at, ok := info.Types[call.Args[0]]; ok && refLike(at.Type, 0) {
				return c.roots(call.Args[0])
			}
			return rootSet{"fresh": true}
		}
		return res
	case strings.HasPrefix(kind, "builtin:"):
		switch kind[8:] {
		case "append":
			res["fresh"] = true
			if len(call.Args) > 0 {
				res.addAll(c.roots(call.Args[0]))
			}
			for _, a := range call.Args[1:] {
				if at, ok := info.Types[a]; ok {
					t := at.Type
					if call.Ellipsis.IsValid() {
						if s, ok := t.Underlying().(*types.Slice); ok {
							t = s.Elem()
						}
					}
					if refLike(t, 0) {
						res.addAll(c.roots(a))
					}
				}
			}
		case "new", "make":
			res["fresh"] = true
		}
		return res
	case len(fs) > 0:
		for _, g := range fs {
			for r := range g.returns {
				res.addAll(c.mapRoot(g, r, recv, call.Args))
			}
		}
		if !isRef {
			return rootSet{}
		}
		return res
	default:
		if isRef {
			res["fresh"] = true // results of external and dynamic calls are assumed not to alias their arguments
		}
		return res
	}
}

// the object a store through `lhs` writes to: roots of the innermost dereferenced expression; nil when the store goes to
// the variable itself (a local, a by-value parameter or receiver: private to the call)
func (c *mrCtx) storeTarget(lhs ast.Expr) (rootSet, bool) {
	info := c.f.info
	e := lhs
	deref := false
	for {
		switch x := e.(type) {
		case *ast.ParenExpr:
			e = x.X
			continue
		case *ast.StarExpr:
			return c.roots(x.X), true
		case *ast.IndexExpr:
			if tv, ok := info.Types[x.X]; ok {
				switch tv.Type.Underlying().(type) {
				case *types.Slice, *types.Map, *types.Pointer:
					return c.roots(x.X), true
				}
			}
			e = x.X
			continue
		case *ast.SelectorExpr:
			if sel, ok := info.Selections[x]; ok && sel.Kind() == types.FieldVal {
				if tv, ok := info.Types[x.X]; ok {
					if _, isPtr := tv.Type.Underlying().(*types.Pointer); isPtr || sel.Indirect() {
						return c.roots(x.X), true
					}
				}
				e = x.X
				continue
			}
			// package-qualified variable
			if o := info.Uses[x.Sel]; o != nil {
				if v, ok := o.(*types.Var); ok && v.Pkg() != nil && v.Parent() == v.Pkg().Scope() {
					return rootSet{"global": true}, true
				}
			}
			return rootSet{}, deref
		case *ast.Ident:
			o := info.Uses[x]
			if o == nil {
				o = info.Defs[x]
			}
			if v, ok := o.(*types.Var); ok && v.Pkg() != nil && v.Parent() == v.Pkg().Scope() {
				return rootSet{"global": true}, true
			}
			return nil, false // the variable itself
		default:
			return rootSet{}, deref
		}
	}
}

func (c *mrCtx) noteWrite(t rootSet) {
	for r := range t {
		if r != "fresh" && !c.f.writes[r] {
			c.f.writes[r] = true
			c.ch = true
		}
	}
}

func (c *mrCtx) noteAlias(dst, src rootSet) {
	for d := range dst {
		if d == "fresh" {
			continue
		}
		for s := range src {
			if s == "fresh" || s == d {
				continue
			}
			k := d + "<-" + s
			if !c.f.aliases[k] {
				c.f.aliases[k] = true
				c.ch = true
			}
		}
	}
}

func (c *mrCtx) bind(o types.Object, r rootSet) {
	if o == nil {
		return
	}
	if c.f.env[o] == nil {
		c.f.env[o] = rootSet{}
	}
	if c.f.env[o].addAll(r) {
		c.ch = true
	}
}

// innermost variable of an lvalue (for "the object reachable from this local now also holds …")
func (c *mrCtx) baseVar(e ast.Expr) types.Object {
	for {
		switch x := e.(type) {
		case *ast.ParenExpr:
			e = x.X
		case *ast.StarExpr:
			e = x.X
		case *ast.IndexExpr:
			e = x.X
		case *ast.SliceExpr:
			e = x.X
		case *ast.SelectorExpr:
			if _, ok := c.f.info.Selections[x]; ok {
				e = x.X
			} else {
				return nil
			}
		case *ast.Ident:
			if o := c.f.info.Uses[x]; o != nil {
				return o
			}
			return c.f.info.Defs[x]
		default:
			return nil
		}
	}
}

func (c *mrCtx) assign(lhs ast.Expr, rhsRoots rootSet, rhsType types.Type) {
	info := c.f.info
	valRef := rhsType != nil && refLike(rhsType, 0)
	if id, ok := lhs.(*ast.Ident); ok {
		if id.Name == "_" {
			return
		}
		o := info.Defs[id]
		if o == nil {
			o = info.Uses[id]
		}
		if v, ok := o.(*types.Var); ok && v.Pkg() != nil && v.Parent() == v.Pkg().Scope() {
			c.noteWrite(rootSet{"global": true})
			return
		}
		if valRef {
			c.bind(o, rhsRoots)
		}
		return
	}
	t, through := c.storeTarget(lhs)
	if through {
		c.noteWrite(t)
		if valRef && !configType(rhsType) {
			c.noteAlias(t, rhsRoots)
		}
	}
	// whatever is reachable from the base variable now also reaches the stored references
	if valRef && !configType(rhsType) {
		if o := c.baseVar(lhs); o != nil && (c.isLocal(o) || o == c.f.recvObj || c.isParam(o)) {
			c.bind(o, rhsRoots)
		}
	}
}

func (c *mrCtx) isParam(o types.Object) bool {
	for _, p := range c.f.params {
		if o == p {
			return true
		}
	}
	return false
}

var externalMutators = map[string]int{"sort.Slice": 0, "sort.SliceStable": 0, "sort.Sort": 0, "sort.Stable": 0, "sort.Strings": 0, "sort.Ints": 0}

func (c *mrCtx) visitCall(call *ast.CallExpr) {
	fs, recv, kind := c.callees(call)
	switch {
	case kind == "builtin:copy" && len(call.Args) > 0:
		c.noteWrite(c.roots(call.Args[0]))
	case kind == "builtin:delete" && len(call.Args) > 0:
		c.noteWrite(c.roots(call.Args[0]))
	case kind == "builtin:clear" && len(call.Args) > 0:
		c.noteWrite(c.roots(call.Args[0]))
	case strings.HasPrefix(kind, "external:"):
		name := kind[9:]
		if i, ok := externalMutators[name]; ok && i < len(call.Args) {
			c.noteWrite(c.roots(call.Args[i]))
		}
		// a method of an external type called on a shared object: listed, to be classified by name on the Lean side
		if recv != nil {
			r := c.roots(recv)
			for k := range r {
				if k != "fresh" {
					e := name + "@" + k
					if !c.f.extern[e] {
						c.f.extern[e] = true
						c.ch = true
					}
				}
			}
		}
	case len(fs) > 0:
		for _, g := range fs {
			for r := range g.writes {
				c.noteWrite(c.mapRoot(g, r, recv, call.Args))
			}
			for a := range g.aliases {
				parts := strings.SplitN(a, "<-", 2)
				c.noteAlias(c.mapRoot(g, parts[0], recv, call.Args), c.mapRoot(g, parts[1], recv, call.Args))
				// reflect the containment in local variables as well
				if src := c.mapRoot(g, parts[1], recv, call.Args); len(src) > 0 {
					var dstExpr ast.Expr
					if parts[0] == "recv" {
						dstExpr = recv
					} else if strings.HasPrefix(parts[0], "param") {
						var i int
						fmt.Sscanf(parts[0], "param%d", &i)
						if i < len(call.Args) {
							dstExpr = call.Args[i]
						}
					}
					if dstExpr != nil {
						if o := c.baseVar(stripAddr(dstExpr)); o != nil {
							c.bind(o, src)
						}
					}
				}
			}
			for e := range g.extern {
				parts := strings.SplitN(e, "@", 2)
				for k := range c.mapRoot(g, parts[1], recv, call.Args) {
					if k != "fresh" {
						ne := parts[0] + "@" + k
						if !c.f.extern[ne] {
							c.f.extern[ne] = true
							c.ch = true
						}
					}
				}
			}
		}
	}
}

func stripAddr(e ast.Expr) ast.Expr {
	if u, ok := e.(*ast.UnaryExpr); ok && u.Op == token.AND {
		return u.X
	}
	return e
}

func (c *mrCtx) analyse() {
	f := c.f
	info := f.info
	if f.env == nil {
		f.env = map[types.Object]rootSet{}
	}
	ast.Inspect(f.decl.Body, func(n ast.Node) bool {
		switch x := n.(type) {
		case *ast.AssignStmt:
			if len(x.Lhs) == len(x.Rhs) {
				for i, l := range x.Lhs {
					var t types.Type
					if tv, ok := info.Types[x.Rhs[i]]; ok {
						t = tv.Type
					}
					if x.Tok != token.ASSIGN && x.Tok != token.DEFINE {
						// op-assignment: a store without reference flow
						if tg, through := c.storeTarget(l); through {
							c.noteWrite(tg)
						}
						continue
					}
					c.assign(l, c.roots(x.Rhs[i]), t)
				}
			} else if len(x.Rhs) == 1 {
				r := c.roots(x.Rhs[0])
				var tup *types.Tuple
				if tv, ok := info.Types[x.Rhs[0]]; ok {
					tup, _ = tv.Type.(*types.Tuple)
				}
				for i, l := range x.Lhs {
					var t types.Type
					if tup != nil && i < tup.Len() {
						t = tup.At(i).Type()
					} else if tv, ok := info.Types[l]; ok {
						t = tv.Type
					}
					c.assign(l, r, t)
				}
			}
		case *ast.IncDecStmt:
			if tg, through := c.storeTarget(x.X); through {
				c.noteWrite(tg)
			}
		case *ast.ValueSpec:
			for i, id := range x.Names {
				if i < len(x.Values) {
					var t types.Type
					if tv, ok := info.Types[x.Values[i]]; ok {
						t = tv.Type
					}
					c.assign(id, c.roots(x.Values[i]), t)
				}
			}
		case *ast.RangeStmt:
			r := c.roots(x.X)
			if x.Value != nil {
				if tv, ok := info.Types[x.Value]; ok {
					c.assign(x.Value, r, tv.Type)
				} else if id, ok := x.Value.(*ast.Ident); ok {
					if o := info.Defs[id]; o != nil {
						c.assign(x.Value, r, o.Type())
					}
				}
			}
		case *ast.CallExpr:
			c.visitCall(x)
		case *ast.ReturnStmt:
			if len(x.Results) == 0 {
				for _, ro := range f.results {
					if refLike(ro.Type(), 0) && !configType(ro.Type()) {
						if f.returns.addAll(c.objRoots(ro)) {
							c.ch = true
						}
					}
				}
			}
			for i, e := range x.Results {
				var t types.Type
				if tv, ok := info.Types[e]; ok {
					t = tv.Type
				}
				if len(x.Results) == len(f.results) && i < len(f.results) {
					t = f.results[i].Type()
				}
				if _, isCall := e.(*ast.CallExpr); isCall && len(x.Results) == 1 && len(f.results) > 1 {
					t = nil
					for _, ro := range f.results {
						if refLike(ro.Type(), 0) && !configType(ro.Type()) {
							t = ro.Type()
						}
					}
				}
				if t != nil && refLike(t, 0) && !configType(t) {
					if f.returns.addAll(c.roots(e)) {
						c.ch = true
					}
				}
			}
		}
		return true
	})
}

func modref() (url []string, canon []string, stats string) {
	w := &mrWorld{funcs: map[string]*mrFunc{}, byName: map[string][]*mrFunc{}}
	up := parseDir("/repo/url")
	upkg, uinfo := typeCheck(up, "/repo/url", "github.com/nlnwa/whatwg-url/url")
	w.add(up, upkg, uinfo)
	cp := parseDir("/repo/canonicalizer")
	cpkg, cinfo := typeCheck(cp, "/repo/canonicalizer", "github.com/nlnwa/whatwg-url/canonicalizer")
	w.add(cp, cpkg, cinfo)
	rounds := 0
	for {
		rounds++
		ch := false
		for _, k := range w.order {
			c := &mrCtx{w: w, f: w.funcs[k]}
			c.analyse()
			ch = ch || c.ch
		}
		if !ch || rounds > 50 {
			break
		}
	}
	for _, k := range w.order {
		f := w.funcs[k]
		delete(f.returns, "")
		line := fmt.Sprintf("(%s, %s, %s, %s, %s, %s)", leanStr(f.display), leanBool(f.api), leanStrList(f.writes.sorted()), leanStrList(f.returns.sorted()), leanStrList(f.aliases.sorted()), leanStrList(f.extern.sorted()))
		if f.pkg == "url" {
			url = append(url, line)
		} else {
			canon = append(canon, line)
		}
	}
	return url, canon, fmt.Sprintf("%d functions, %d rounds", len(w.order), rounds)
}
