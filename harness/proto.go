package main

// Line protocol shared with the Lean driver (/verif/lean/Driver): encoding of configurations,
// observations of URL values. Every string is hex, so that arbitrary bytes survive.

import (
	"encoding/hex"
	"fmt"
	"golang.org/x/text/encoding/charmap"
	"math/big"
	"sort"
	"strings"

	"github.com/nlnwa/whatwg-url/canonicalizer"
	"github.com/nlnwa/whatwg-url/errors"
	"github.com/nlnwa/whatwg-url/url"
)

func hx(s string) string { return hex.EncodeToString([]byte(s)) }
func xs(s string) string { return "x" + hx(s) }
func b01(b bool) string {
	if b {
		return "1"
	}
	return "0"
}

// the error catalogue in the declaration order of errors/codes.go (the Lean enum ErrT has the same order;
// the extractor checks both against the source on every run)
var errCatalogue = []errors.ErrorType{
	errors.DomainToASCII, errors.DomainToUnicode,
	errors.DomainInvalidCodePoint, errors.HostInvalidCodePoint, errors.IPv4EmptyPart, errors.IPv4TooManyParts, errors.IPv4NonNumericPart,
	errors.IPv4NonDecimalPart, errors.IPv4OutOfRangePart, errors.IPv6Unclosed, errors.IPv6InvalidCompression, errors.IPv6TooManyPieces,
	errors.IPv6MultipleCompression, errors.IPv6InvalidCodePoint, errors.IPv6TooFewPieces, errors.IPv4InIPv6TooManyPieces,
	errors.IPv4InIPv6InvalidCodePoint, errors.IPv4InIPv6OutOfRangePart, errors.IPv4InIPv6TooFewParts,
	errors.InvalidURLUnit, errors.SpecialSchemeMissingFollowingSolidus, errors.MissingSchemeNonRelativeURL, errors.InvalidReverseSolidus,
	errors.InvalidCredentials, errors.HostMissing, errors.PortMissing, errors.PortOutOfRange, errors.PortInvalid,
	errors.FileInvalidWindowsDriveLetter, errors.FileInvalidWindowsDriveLetterHost,
}

func errIdx(e error) int {
	t := errors.Type(e)
	for i, c := range errCatalogue {
		if c == t {
			return i
		}
	}
	return 99
}

func errTok(e error) string {
	return fmt.Sprintf("E%d,%s", errIdx(e), b01(errors.Failure(e)))
}

// ---- configurations ----------------------------------------------------------------------------

// host closures known to both sides, by id (0 = none)
func gsbPre(u *url.Url, host string) string {
	host = strings.Trim(host, ".")
	for strings.Contains(host, "..") {
		host = strings.ReplaceAll(host, "..", ".")
	}
	return host
}
func semanticPre(u *url.Url, host string) string {
	if host != "" {
		host = gsbPre(u, host)
		if host == "" {
			host = "0.0.0.0"
		}
	}
	return host
}
func constHost(u *url.Url, host string) string { return "example.org" }
func upperFirst(u *url.Url, host string) string {
	if host != "" && host[0] >= 'a' && host[0] <= 'z' {
		return string(host[0]-0x20) + host[1:]
	}
	return host
}
func schemeSuffix(u *url.Url, host string) string { return host + "." + u.Scheme() }

var hostFns = map[int]func(*url.Url, string) string{1: gsbPre, 2: semanticPre, 3: constHost, 4: upperFirst, 5: schemeSuffix}

func setTok(p *url.PercentEncodeSet) string {
	if p == nil {
		return "0:0"
	}
	ab, bs := url.VerifSetDump(p)
	n := new(big.Int)
	for i := uint(0); i < 256; i++ {
		if bs.Test(i) {
			n.SetBit(n, int(i), 1)
		}
	}
	if ab < 0 {
		ab = 0
	}
	return fmt.Sprintf("%x:%s", ab, n.Text(16))
}

func schemesTok(m map[string]string) string {
	if len(m) == 0 {
		return "-"
	}
	keys := make([]string, 0, len(m))
	for k := range m {
		keys = append(keys, k)
	}
	sort.Strings(keys)
	parts := make([]string, 0, len(m))
	for _, k := range keys {
		parts = append(parts, hx(k)+"="+hx(m[k]))
	}
	return strings.Join(parts, "+")
}

// Cfg is a parser together with its description for the driver
type Cfg struct {
	Name   string
	Parser url.Parser
	Tok    string
	Pre    int
	Post   int
	Opts   url.VerifOpts
}

// the encoding overrides the generators use, by the name the option reports. ISO 8859-1 keeps its short token "1"; any
// other charmap is sent as a table: "t" + replacement byte + for every byte its decoded code point (4 hex digits) and the
// byte EncodeRune gives back for that code point (2 hex digits) — everything the code uses of a charmap.
var charmapsUsed = []*charmap.Charmap{charmap.ISO8859_1, charmap.CodePage037, charmap.Windows1252, charmap.KOI8R, charmap.CodePage437}

func charmapByName(name string) *charmap.Charmap {
	for _, c := range charmapsUsed {
		if c.String() == name {
			return c
		}
	}
	return nil
}

func charmapTok(name string) string {
	c := charmapByName(name)
	if c == nil || c == charmap.ISO8859_1 {
		return "1"
	}
	repl, _ := c.EncodeRune(0x10FFFF)
	var sb strings.Builder
	fmt.Fprintf(&sb, "t%02x", repl)
	for b := 0; b < 256; b++ {
		r := c.DecodeByte(byte(b))
		e, ok := c.EncodeRune(r)
		if !ok {
			e = repl
		}
		fmt.Fprintf(&sb, "%04x%02x", r, e)
	}
	return sb.String()
}

func charmapOfTok(t string) *charmap.Charmap {
	if t == "1" {
		return charmap.ISO8859_1
	}
	for _, c := range charmapsUsed {
		if charmapTok(c.String()) == t {
			return c
		}
	}
	return nil
}

func cfgTok(o url.VerifOpts, pre, post int) string {
	flags := 0
	for i, b := range []bool{o.ReportValidationErrors, o.FailOnValidationError, o.LaxHostParsing, o.CollapseConsecutiveSlashes,
		o.AcceptInvalidCodepoints, o.PercentEncodeSinglePercentSign, o.AllowSettingPathForNonBaseUrl,
		o.SkipWindowsDriveLetterNormalization, o.SkipTrailingSlashNormalization, o.SkipEqualsForEmptySearchParamsValue} {
		if b {
			flags |= 1 << uint(i)
		}
	}
	enc := "0"
	if o.EncodingOverride != "" {
		enc = charmapTok(o.EncodingOverride)
	}
	return fmt.Sprintf("%d,%d,%d,%s,%s,%s,%s,%s,%s,%s", flags, pre, post, enc, schemesTok(o.SpecialSchemes),
		setTok(o.PathPercentEncodeSet), setTok(o.SpecialQueryPercentEncodeSet), setTok(o.QueryPercentEncodeSet),
		setTok(o.SpecialFragmentPercentEncodeSet), setTok(o.FragmentPercentEncodeSet))
}

// newCfg describes a parser created by url.NewParser (or the inner parser of a profile)
func newCfg(name string, p url.Parser, pre, post int) *Cfg {
	o, ok := url.VerifOptions(p)
	if !ok {
		panic("newCfg: not a *parser: " + name)
	}
	if (o.PreParseHostFunc == nil) != (pre == 0) || (o.PostParseHostFunc == nil) != (post == 0) {
		panic("newCfg: closure ids do not match the parser options: " + name)
	}
	return &Cfg{Name: name, Parser: p, Tok: cfgTok(o, pre, post), Pre: pre, Post: post, Opts: o}
}

// Prof is a canonicalizer profile together with its description
type Prof struct {
	Name   string
	Parser url.Parser // the *profile
	Inner  *Cfg
	Tok    string
	V      canonicalizer.VerifProfile
}

func newProf(name string, p url.Parser, pre, post int) *Prof {
	v, ok := canonicalizer.VerifProfileOf(p)
	if !ok {
		panic("newProf: not a profile: " + name)
	}
	inner := newCfg(name+".inner", v.Parser, pre, post)
	cf := 0
	for i, b := range []bool{v.RemoveUserInfo, v.RemovePort, v.RemoveFragment, v.RepeatedPercentDecoding} {
		if b {
			cf |= 1 << uint(i)
		}
	}
	return &Prof{Name: name, Parser: p, Inner: inner, V: v,
		Tok: fmt.Sprintf("%d;%d;%s;%s", cf, v.SortQuery, xs(v.DefaultScheme), inner.Tok)}
}

// ---- observations --------------------------------------------------------------------------------

func pairsTok(l [][2]string) string {
	parts := make([]string, len(l))
	for i, nv := range l {
		parts[i] = hx(nv[0]) + "=" + hx(nv[1])
	}
	return strings.Join(parts, ",")
}

// obsUrl prints the same fields, in the same order, as Driver.obsUrl
func obsUrl(u *url.Url, handles []*url.Url) string {
	d := url.VerifDump(u)
	nilBits := b01(d.Host == nil) + b01(d.Port == nil) + b01(d.Query == nil) + b01(d.Fragment == nil)
	segs := make([]string, len(d.Segs))
	for i, s := range d.Segs {
		segs[i] = hx(s)
	}
	sp := "n"
	if d.HasSearchParams {
		back := "-"
		if d.SearchParamsUrl != nil {
			back = "?"
			for i, h := range handles {
				if h == d.SearchParamsUrl {
					back = fmt.Sprint(i)
					break
				}
			}
		}
		sp = back + ":" + pairsTok(d.SearchParams)
	}
	ve := make([]string, len(d.ValidationErrors))
	for i, e := range d.ValidationErrors {
		ve[i] = fmt.Sprintf("%d.%s", errIdx(e), b01(errors.Failure(e)))
	}
	return strings.Join([]string{
		hx(u.Href(false)), hx(u.Href(true)), hx(u.Protocol()), hx(u.Scheme()), hx(u.Username()), hx(u.Password()),
		hx(u.Host()), hx(u.Hostname()), hx(u.Port()), fmt.Sprint(u.DecodedPort()), hx(u.Pathname()), b01(u.OpaquePath()),
		hx(u.Search()), hx(u.Query()), hx(u.Hash()), hx(u.Fragment()), b01(u.IsSpecialScheme()), b01(u.IsIPv4()), b01(u.IsIPv6()),
		nilBits, strings.Join(segs, ","), fmt.Sprint(d.DecodedPort), sp, strings.Join(ve, ","),
	}, "|")
}
